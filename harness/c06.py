"""C06 -- a genome's signature depends only on its biological content.

Tie: B against gambit.sigs.calc.calc_file_signature (SequenceFile(path, 'fasta', 'auto'), the mode every CLI
command uses) and the CLI `gambit signatures create -k K -p PREFIX -o out.gs FILES...` on files the harness
writes: every variant (per-contig orientation x contig order x case pattern x line width x LF/CRLF x final
newline x gzip x file extension) of one genome must give the identical signature, equal to the extracted
specification [signature_spec] (op 103) of the contig list and to the union of the per-contig signatures.
The text layer of the model (universal newlines + FastaIterator, Model/C06Fasta.v) and the compression
detection (Model/C06Gzip.v) are compared with SequenceFile.parse / open_compressed on well-formed and
malformed content.

Coverage audit (item of the property text -> stream that drives it on the IMPLEMENTATION; P = the property predicate
"signature == k-mer set of the contigs == union of per-contig signatures" is judged there, M = also tied to the model):

  clause / quantifier element            streams (numbers as in generate(); A..H were added by the audit, I by the round-5 review, J after round 7)
  reverse-complement any contig          1 exhaustive masks, 3 random (P,M); C: ambiguity codes complemented as tools do (P,M)
  reorder contigs                        1, 3 (P,M); F: duplicated contigs, a contig + its reverse complement, 30+ contigs (P,M)
  letter case                            1, 3 (P,M): keep / upper / lower / per-byte mixed
  any line width >= 1                    1 every width 1..max+1, 3 (P,M); B: a different width per record / per line (P,M);
                                         G: widths 1, 4095..8192, 65536 on files of 100-600 kB (P)
  LF / CRLF                              1, 3 (P,M); B: mixed within one file (P,M); G: CR LF split by 8 KiB reads and by
                                         gzip member boundaries (P)
  final newline dropped                  1, 3, B, G (P,M)
  gzip                                   1, 3 gzip.compress level 9 only (P,M); A: levels 1/0 (stored), FNAME header as gzip(1)
                                         writes, all optional header fields, multi-member, BGZF (P,M); 5/open-flavours (M)
  compression from content, not name     1, 3 eight extensions x gz/plain (P,M); D: spaces, non-ASCII, .GZ, .bz2/.zip/.xz,
                                         leading dash/dot, shell characters, 160-char names (P,M); 5 (M)
  = union of per-contig signatures       every genome case: calc_signature per contig (P) and signature_spec per contig (M)
  no k-mer across a contig boundary      1, 3, A..G joints "prefix | k letters" planted; counter "boundary-sensitive variant"
  all multi-contig genomes: size         0-8 contigs of 0-300 bytes in 1-3; G: contigs of 64-128 kB (1 MB thorough), 150 contigs,
                                         matches planted across offsets 2^9..2^17; judged by P alone (model too slow, see _pyspec)
  all multi-contig genomes: CONTIG       J (long contigs, added after the round-7 miss): contigs of 2^16, 2^20, 2^21 (2^22, 5 * 2^20, 8 * 2^20 thorough) +- a few
  LENGTH                                 letters, just across 2^20 (+1, +2, +k+prefix_len-1 ..) and ~30 lengths between 2^20 and 2^21 (up to 2^22 thorough)
                                         in one genome; N / n / poly-A backgrounds (nothing matches on its own) or random ACGT / ACGTacgt (matches
                                         everywhere); complete prefix+k-mer occurrences with genome-wide unique k-mers PLANTED on both strands, flush
                                         with both ends and in ladders across every multiple of 2^16 and 10^6 counted from either end (upper case, every
                                         third one lower case, or lower case from / up to an offset near a power of two), so that over the
                                         contigs of one genome, as generated and reverse-complemented, an occurrence starts on either strand at EVERY
                                         offset within +-(prefix_len+k+2) of 2^20 (and of 2^16): an implementation that searches, reads or converts
                                         long sequences piecewise cannot lose or invent a k-mer at a piece boundary unnoticed.  Per contig
                                         calc_signature as generated and reverse-complemented, then file variants (orientation masks incl. all, order,
                                         upper / lower / block-wise case, widths 60..2^20..one line, CRLF, final newline, gzip l1 / stored / multi-member,
                                         extensions), union of per-contig signatures, `signatures create` (default spec, -c none/1/2); default 11/ATGAC
                                         and k 11..20 with other prefixes (P; judged against _pyspec, the model is not run on megabytes)
  k / prefix                             3: k 1..16, prefix 1..4 (API); E, H: k 17, 20, 31, 32 (uint64), prefix up to 6, default 11/ATGAC
  calc_file_signature                    all genome streams, positional call, compression 'auto'; H: str / pathlib / relative path,
                                         .absolute(), from_paths, keyword arguments, explicit compression 'gzip' / None / 'none',
                                         accumulator= Set/Array (fresh, and reused after clear()), the same SequenceFile twice,
                                         KmerSpec from numpy int / bytes / lower-case prefix, open_compressed() default (P)
  calc_file_signatures (wrapper)         H: concurrency None / threads / positional, a different genome and a repeated file in
                                         the list (P); processes: through the CLI; executors and failures: C13
  gambit signatures create               1-3: positional files, -c 2, -k/-p given; E (+A, D, G): -l list file, -l + --ldir, no -c,
                                         -c 1, -c 3, default k-mer spec (no -k/-p), k > 11 (P)
  gambit dist (same code path)           H: rows of all variants identical, distance 0 to the canonical file (P, through 4 decimals)
  depends ONLY on the genome's content   I (history): genome B computed after 1-5 earlier calls in the same process / thread, the whole history
  (no state carried between calls)        run again before each of 8 entry points (calc_file_signature, accumulator=fresh, calc_signature of
                                         the contigs, calc_file_signatures concurrency None / threads max_workers=1 / caller-supplied reused
                                         1-worker ThreadPoolExecutor, executor.submit, in-process `signatures create -c 1`).  Earlier calls:
                                         well-formed reads of OTHER genomes (same k + prefix, same k + another prefix, another k) and reads
                                         that FAIL part-way: gzip cut at a fraction of the stream or 1-12 bytes before its end, CRC trailer
                                         bit flipped, byte inside the stream inverted, byte >= 0x80 beyond the first 8 KiB text chunk,
                                         directory, missing file, record iterator raising OSError / RuntimeError / ValueError / MemoryError /
                                         EOFError after n records, non-sequence item among the contigs; through calc_file_signature,
                                         calc_signature, calc_file_signatures (None / threads / reused executor, 0-2 well-formed files before
                                         the failing one), the in-process CLI; caller accumulators (Set / Array) left non-empty; the other
                                         genome written at the path B's file has afterwards.  k 3..11 (array) and 12..32 (set) (P; only B and
                                         the well-formed reads without a caller accumulator are judged, never the outcome of a failing call)
  not driven here                        gambit query / tree and gambit.query.query_parse (need a database / tree: C04, C09, C17
                                         call the same calc_file_signatures); --db-params; non-ASCII file content (locale dependent);
                                         bare-CR line ends, blank lines, ';' comments: only model vs parser (stream 4), not stated
                                         by the property."""
import gzip
import io
import itertools
import os
import random
import shutil
import struct
import zlib

import numpy as np

PROP = 'C06'
RULE = ('genome: (k, prefix, contigs, variants) -> for every variant file calc_file_signature == signature_spec(contigs) '
        '== union of per-contig calc_signature (== model of the whole file pipeline), plus the CLI on the same files; '
        'non-trivial: >= 2 contigs, non-empty signature, and the variant differs from the canonical file in orientation, '
        'order, case, layout or compression | parse: model parse_fasta vs SequenceFile.parse sequences (or ValueError) | '
        'open: model is_gzip_magic/open_auto vs guess_compression/open_compressed(...,"auto") under arbitrary file names | '
        'audit streams (same genome predicate): gzip flavours (levels, stored, FNAME, all header fields, multi-member, BGZF), '
        'ragged layouts (width and LF/CRLF chosen per record or per line), reverse complement with ambiguity codes complemented, '
        'unusual file names, CLI forms (-l, --ldir, no -c, -c 1/3, default k-mer spec, k up to 32), repeated contigs, large genomes '
        '(64 kB-128 kB contigs, 150 contigs; above 4096 bases the model is not run and the case is judged by the predicate against '
        'the harness\'s own _pyspec, which is compared with signature_spec on every smaller case) | forms: each call form '
        '(path types, relative path, from_paths, explicit compression, caller-supplied / reused accumulators, KmerSpec argument types, '
        'calc_file_signatures with concurrency None/threads over variants + another genome + a repeated file, gambit dist rows) '
        'gives the k-mer set of the genome; non-trivial: non-empty signature | history: (genome B, history of 1-5 earlier calls, entry '
        'points) -> for every entry point, after the whole history was run in the same process and thread (well-formed reads of other '
        'genomes with the same or another k / prefix; reads failing part-way: gzip truncated inside the stream or the trailer, CRC or '
        'stream byte corrupted, undecodable byte beyond the first text chunk, directory, missing file, record iterator raising, '
        'non-sequence item; through calc_file_signature / calc_signature / calc_file_signatures with concurrency None, threads, a reused '
        'caller-supplied executor / the in-process CLI; caller accumulators left non-empty; the path of B previously holding another '
        'genome) the signature of B == signature_spec(contigs of B), and every well-formed earlier read == the k-mer set of its own '
        'genome; the outcome of a failing call is not judged; non-trivial: >= 2 contigs, non-empty signature and a history in which a '
        'call raised or a caller accumulator was left non-empty | long: (k, prefix, descriptions of long contigs, variants) -> contigs of 2^16 .. 2^22+ letters '
        '(lengths +- a few around 2^16, 2^20, 2^21, 2^22 and multiples of 2^20) with uniquely numbered prefix+k-mer occurrences planted on both strands '
        'flush with the ends and at every offset within +-(prefix_len+k+2) of every multiple of 2^16 / 10^6 from either end: calc_signature of every contig, as '
        'generated and reverse-complemented, == the k-mer set of that contig (_pyspec: bytes.find over the whole contig), and the signature of every variant '
        'file (orientation, order, case, width, CRLF, final newline, gzip, extension) and of `gambit signatures create` == the union of these sets == the '
        'union of the per-contig signatures; non-trivial: >= 2 contigs, one longer than 2^16, non-empty signature, variant differs from the canonical file')
TRUSTED = ['hand model of io.TextIOWrapper(newline=None) and Biopython 1.88 FastaIterator on ASCII text (Model/C06Fasta.v), '
           'validated against SequenceFile.parse on every run, not verified',
           'zlib/gzip: Section variable gunzip with hypotheses gunzip(gzip x) = x and gzip x starts with 1f 8b; the '
           'harness checks both hypotheses on every compressed file it writes',
           'C01 (Props/C01.v): model of calc_signature = signature_spec; tools/pyx2v.py for the encoders',
           'history stream: the model is a pure function of the contig list, so it is the oracle for "the signature B has in a fresh '
           'process"; the failing inputs (truncated / corrupted gzip, undecodable bytes, raising iterators) are only required to leave no '
           'trace, which exception they raise (or whether they raise: locale, gzip member boundaries) is counted, not judged',
           'long-contig stream: the oracle is the harness\'s own _pyspec (prefix search with bytes.find over the whole upper-cased contig and its reverse '
           'complement; no windows, no chunks), the same function that is compared with the extracted signature_spec on every genome of at most 4096 letters; '
           'the harness also checks that every occurrence it planted is in that set.  The Coq model is not evaluated on megabyte inputs']
ASSUMPTIONS = ['file content is ASCII (decoding is the identity; other bytes depend on the locale encoding)',
               'sequence bytes are not space/tab/CR/LF/">" and titles contain no CR/LF (wf_contig, checked on every generated genome)',
               'prefix is non-empty upper-case ACGT, k >= 1 (KmerSpec validates it); the CLI is exercised for k >= 5, prefix length >= 2 '
               '(it refuses anything smaller); k <= 32',
               'genomes above 4096 bases and ragged layouts are judged by the property predicate; the model comparison is skipped for the '
               'former (quadratic cost) and the render_fasta comparison for the latter (a different writer)',
               'the file is opened with compression="auto" as every CLI command does (SequenceFile\'s own default None means "none")',
               'history: earlier calls and the judged call run one after the other (in the main thread or in one worker thread of a '
               '1-worker executor); concurrent interference between threads / processes is C13; a signature computed INTO a caller-supplied '
               'accumulator that is not empty is not judged (the property does not state it)',
               'long contigs: lengths up to 2^21+ (quick) / 8 * 2^20 (thorough); anchors of the planted ladders are the multiples of 2^16 and 10^6 from either end '
               '(piece sizes that are neither are met only by the random-background contigs); k >= 11 so that every planted k-mer is unique in the genome']

_TR = bytes.maketrans(b'ACGTacgt', b'TGCAtgca')
EXTS = ['.fa', '.fasta', '.fasta.gz', '.gz', '', '.fna', '.txt', '.fa.gz']
_dir = None
_n = 0


def setup(ctx):
	global _dir
	from vf import impl
	impl.check_import()
	_dir = impl.scratch_dir('gambit-verif-c06-')


def _rc(b):
	return bytes(b).translate(_TR)[::-1]


_IUPAC = bytes.maketrans(b'ACGTRYKMBVDHacgtrykmbvdh', b'TGCAYRMKVBHDtgcayrmkvbhd')


def _rc_iupac(b):
	"""reverse complement as seqtk / Biopython write it: ambiguity codes are complemented too"""
	return bytes(b).translate(_IUPAC)[::-1]


_CODE = {65: 0, 67: 1, 71: 2, 84: 3}


def _pyspec(k, p, contigs):
	"""the harness's own statement of the specification (set of prefix-anchored k-mers on both strands of every
	contig, case-blind), used where the extracted specification is too slow (its cost is quadratic in the contig
	length); compared with signature_spec (op 103) on every case that is small enough for the model"""
	out = set()
	n = len(p)
	for s in contigs:
		u = bytes(s).upper()
		for strand in (u, _rc(u)):
			i = strand.find(p)
			while i >= 0:
				w = strand[i + n:i + n + k]
				if len(w) == k:
					x = 0
					for ch in w:
						d = _CODE.get(ch)
						if d is None:
							break
						x = x * 4 + d
					else:
						out.add(x)
				i = strand.find(p, i + 1)
	return sorted(out)


def _gen_contigs(g, k, p):
	"""contigs of a generated (large) genome, reproducible from the small description g = {seed, lens, alpha}: random
	letters, with a full prefix+k-mer match (either strand, sometimes lower case) planted across every power-of-two
	offset 2^9..2^17 (I/O buffer, text chunk and window sizes), at both ends and at a few random places"""
	r = random.Random(g['seed'])
	alpha = g.get('alpha', 'ACGT').encode()
	out = []
	for ln in g['lens']:
		b = bytearray(r.choices(alpha, k=ln))
		offs = [1 << e for e in range(9, 18) if (1 << e) <= ln] + [r.randrange(ln + 1) for _ in range(min(6, ln))] + [0, ln]
		for o in offs:
			m = p + bytes(r.choices(b'ACGT', k=k))
			if r.random() < 0.5:
				m = _rc(m)
			if r.random() < 0.3:
				m = m.lower()
			if ln >= len(m):
				st = max(0, min(ln - len(m), o - r.randint(0, len(m))))
				b[st:st + len(m)] = m
		out.append(bytes(b))
	return out


# ---- gzip flavours (RFC 1952): what tools other than Python's gzip.compress write ------------------------------
GZMODES = ['l1', 'l0', 'fname', 'hdr', 'multi', 'multi-eol', 'bgzf']


def _member(data, flags=0, level=6, mtime=0, extra=b'', fname=b'', comment=b'', xfl=0, osb=255):
	"""one hand-built gzip member"""
	hdr = b'\x1f\x8b\x08' + bytes([flags]) + struct.pack('<IBB', mtime, xfl, osb)
	if flags & 4:
		hdr += struct.pack('<H', len(extra)) + extra
	if flags & 8:
		hdr += fname + b'\0'
	if flags & 16:
		hdr += comment + b'\0'
	if flags & 2:
		hdr += struct.pack('<H', zlib.crc32(hdr) & 0xffff)
	co = zlib.compressobj(level, zlib.DEFLATED, -15)
	body = co.compress(data) + co.flush()
	return hdr + body + struct.pack('<II', zlib.crc32(data), len(data) & 0xffffffff)


def _bgzf_block(data):
	co = zlib.compressobj(6, zlib.DEFLATED, -15)
	body = co.compress(data) + co.flush()
	bsize = 18 + len(body) + 8
	hdr = b'\x1f\x8b\x08\x04' + struct.pack('<IBB', 0, 0, 255) + struct.pack('<H', 6) + b'BC' + struct.pack('<HH', 2, bsize - 1)
	return hdr + body + struct.pack('<II', zlib.crc32(data), len(data))


def gz_blob(data, mode, seed=0):
	"""gzip-compress data in the flavour `mode` (None: gzip.compress(level 9, mtime 0) as before)"""
	r = random.Random(seed)
	if not mode:
		return gzip.compress(data, mtime=0)
	if mode == 'l1':
		return gzip.compress(data, 1, mtime=0)
	if mode == 'l0':                      # stored blocks
		return gzip.compress(data, 0, mtime=0)
	if mode == 'fname':                   # what `gzip genome.fa` writes: FNAME flag, real mtime
		buf = io.BytesIO()
		with gzip.GzipFile(filename='genome.fa', mode='wb', fileobj=buf, mtime=1700000000 + r.randrange(1 << 20)) as f:
			f.write(data)
		return buf.getvalue()
	if mode == 'hdr':                     # every optional header field: FHCRC | FEXTRA | FNAME | FCOMMENT
		return _member(data, flags=2 | 4 | 8 | 16, extra=b'XY\x03\x00abc', fname=b'a b.fa', comment=b'written by harness/c06.py',
		               mtime=r.randrange(1 << 32), xfl=2, osb=3, level=r.choice([1, 6, 9]))
	if mode in ('multi', 'multi-eol'):    # several concatenated members (cat a.gz b.gz, pigz -i, ...)
		cuts = {r.randrange(len(data) + 1) for _ in range(r.randint(1, 4))}
		if mode == 'multi-eol':           # cut between CR and LF, right after a line end, right after '>'
			special = [i + 1 for i, ch in enumerate(data) if ch in (13, 10, 62)]
			cuts |= set(r.sample(special, min(len(special), 4)))
		cuts = sorted(cuts | {0, len(data)})
		pieces = [data[a:b] for a, b in zip(cuts, cuts[1:])] or [b'']
		if r.random() < 0.3:
			pieces.insert(r.randrange(len(pieces) + 1), b'')      # an empty member
		return b''.join(_member(x, level=r.choice([1, 6, 9])) for x in pieces)
	if mode == 'bgzf':                    # bgzip: FEXTRA 'BC' blocks + the empty EOF block
		size = r.choice([64, 1000, 65280])
		return b''.join(_bgzf_block(data[i:i + size]) for i in range(0, len(data), size)) + _bgzf_block(b'')
	raise ValueError(mode)


def _recase(b, cseed):
	"""case pattern of a contig: None keep, 'u' upper, 'l' lower, int -> per-byte random choice, 'b<seed>' -> blocks of 1-5000 letters"""
	if cseed is None:
		return b
	if cseed == 'u':
		return b.upper()
	if cseed == 'l':
		return b.lower()
	if isinstance(cseed, str) and cseed[:1] == 'b':       # 'b<seed>': blocks (long contigs)
		return _recase_blocks(b, cseed[1:])
	r = random.Random(cseed)
	return bytes((c ^ 0x20) if (65 <= (c & ~0x20) <= 90 and r.random() < 0.5) else c for c in b)


def apply_variant(contigs, titles, v):
	"""-> list of (title, seq) written for this variant"""
	out = []
	for i, (t, s) in enumerate(zip(titles, contigs)):
		if (v.get('omask', 0) >> i) & 1:
			s = _rc_iupac(s) if v.get('iupac') else _rc(s)
		cs = v.get('cseed')
		s = _recase(s, cs if not isinstance(cs, int) else cs + i)
		out.append((t, s))
	if v.get('pseed') is not None:
		random.Random(v['pseed']).shuffle(out)
	return out


def render(recs, w, crlf, fnl):
	"""the harness's own FASTA writer"""
	e = b'\r\n' if crlf else b'\n'
	lines = []
	for t, s in recs:
		lines.append(b'>' + t)
		lines.extend(s[i:i + w] for i in range(0, len(s), w))
	data = e.join(lines)
	if lines and fnl:
		data += e
	return data


def render_ragged(recs, v):
	"""a second writer: v['rag'] seeds the layout.  ragmode 'rec': every record has its own width and line ending (files
	concatenated from differently written parts); 'line': every line has its own width and line ending."""
	r = random.Random(v['rag'])
	per_rec = v.get('ragmode') == 'rec'
	out = bytearray()
	last = b''
	for t, s in recs:
		e_rec = b'\r\n' if r.random() < 0.5 else b'\n'
		w_rec = r.choice([1, 2, 3, 7, 60, 80, max(1, len(s)), r.randint(1, len(s) + 1)])
		last = e_rec if per_rec else (b'\r\n' if r.random() < 0.5 else b'\n')
		out += b'>' + t + last
		i = 0
		while i < len(s):
			w = w_rec if per_rec else r.randint(1, max(1, min(len(s), 90)))
			last = e_rec if per_rec else (b'\r\n' if r.random() < 0.5 else b'\n')
			out += s[i:i + w] + last
			i += w
	if not v['fnl'] and last:
		del out[-len(last):]
	return bytes(out)


def _render(recs, v):
	return render_ragged(recs, v) if v.get('rag') is not None else render(recs, v['w'], v['crlf'], v['fnl'])


def _wf(recs):
	return all(not (set(t) & {10, 13}) and not (set(s) & {32, 9, 13, 10, 62}) for t, s in recs)


def _path(ext, name=None):
	"""a fresh file path; `name` (an unusual base name) is placed in a fresh sub-directory"""
	global _n
	_n += 1
	if name is None:
		return os.path.join(_dir, f'g{_n:06d}{ext}')
	d = os.path.join(_dir, f'd{_n:06d}')
	os.makedirs(d, exist_ok=True)
	return os.path.join(d, name)


def _unlink(path):
	try:
		os.unlink(path)
	except OSError:
		pass
	d = os.path.dirname(path)
	if d != _dir and os.path.basename(d).startswith('d'):
		shutil.rmtree(d, ignore_errors=True)


def _msig(ans):
	"""model answer of op 606 -> (list, itemsize) or error name"""
	if ans[0] == 0:
		return (ans[1][0], ans[1][1][0] if ans[1][1] else None)
	return {3: 'ValueError', 10: 'BadGzip'}.get(ans[1], f'err{ans[1]}')


CANON = dict(omask=0, pseed=None, cseed=None, w=60, crlf=False, fnl=True, gz=False, ext='.fa')


def _vdesc(v):
	d = {k: v.get(k) for k in ('omask', 'pseed', 'cseed', 'w', 'crlf', 'fnl', 'gz', 'ext')}
	d.update({k: v[k] for k in ('gzm', 'rag', 'ragmode', 'iupac', 'name') if v.get(k) not in (None, False)})
	return d


def _contigs_of(c):
	"""(contigs, titles, k, prefix bytes) of a genome case; large genomes are described by c['gen'] (see _gen_contigs)"""
	p = c['prefix'].encode()
	contigs = _gen_contigs(c['gen'], c['k'], p) if 'gen' in c else [bytes.fromhex(h) for h in c['contigs']]
	titles = [bytes.fromhex(h) for h in c.get('titles', [])]
	titles += [b'c%d' % i for i in range(len(titles), len(contigs))]
	return contigs, titles[:len(contigs)], c['k'], p


MODEL_MAX = 4096    # total contig bytes above which the extracted model / specification is not run (quadratic cost)


def k_genome(ctx, cases):
	from gambit.kmers import KmerSpec
	from gambit.seq import SequenceFile
	from gambit.sigs.calc import calc_file_signature, calc_signature
	from gambit.sigs.base import load_signatures
	from click.testing import CliRunner
	import gambit.cli

	reqs = []
	plan = []
	for c in cases:
		contigs, titles, k, p = _contigs_of(c)
		# large genomes: the extracted model and specification are not run (their cost is quadratic in the contig length);
		# such a case is judged by the property predicate alone, against the harness's own _pyspec
		nomodel = bool(c.get('nomodel')) or sum(map(len, contigs)) > MODEL_MAX
		base = None if nomodel else len(reqs)
		if not nomodel:
			reqs.append((103, [k, p, contigs]))
			reqs.append((103, [k, p, [b''.join(contigs)]]))
			for s in contigs:
				reqs.append((103, [k, p, [s]]))
		files = []
		for v in c['variants']:
			recs = apply_variant(contigs, titles, v)
			data = _render(recs, v)
			blob = gz_blob(data, v.get('gzm'), v.get('gzseed', 0)) if v['gz'] else data
			if not nomodel:
				reqs.append((604, [v['w'], v['crlf'], v['fnl'], [[t, s] for t, s in recs]]))
				reqs.append((606, [0, k, p, data]))
				reqs.append((607, [[t, s] for t, s in recs]))
				reqs.append((605, blob))
			files.append((v, recs, data, blob))
		plan.append((c, contigs, titles, base, files))
	ans = ctx.model(reqs) if ctx.model_ok and reqs else None

	for c, contigs, titles, base, files in plan:
		k, p = c['k'], c['prefix']
		kspec = KmerSpec(k, p)
		n = len(contigs)
		py = _pyspec(k, p.encode(), contigs)
		if ans is not None and base is not None:
			spec = ans[base]
			joined = ans[base + 1]
			per = ans[base + 2:base + 2 + n]
			union = sorted(set(itertools.chain.from_iterable(per)))
			if union != spec:
				ctx.broke('specification: signature_spec(contigs) is the union of the per-contig sets (C06_union)',
				          f'{c}: union {union[:20]} spec {spec[:20]}')
			if py != spec:
				ctx.broke('harness: _pyspec differs from the extracted signature_spec', f'{str(c)[:300]}: {py[:20]} vs {spec[:20]}')
			expect = spec
		else:
			spec = None
			joined = _pyspec(k, p.encode(), [b''.join(contigs)])
			expect = py
			if base is None:
				ctx.count('genomes judged without the model (size)')
		# union of the implementation's per-contig signatures
		iu = np.array([], dtype=np.uint64)
		for s in contigs:
			iu = np.union1d(iu, calc_signature(kspec, s).astype(np.uint64))
		iu = [int(x) for x in iu]
		paths = []
		bad = False
		for j, (v, recs, data, blob) in enumerate(files):
			if v['gz'] and (blob[:2] != b'\x1f\x8b' or gzip.decompress(blob) != data):
				ctx.broke('assumption: gunzip(gzip x) = x and gzip x starts with 1f 8b', f'{len(data)} bytes, flavour {v.get("gzm")}')
			path = _path(v['ext'], v.get('name'))
			with open(path, 'wb') as f:
				f.write(blob)
			paths.append(path)
			try:
				sig = calc_file_signature(kspec, SequenceFile(path, 'fasta', 'auto'))
				got = ([int(x) for x in sig], sig.dtype.itemsize if sig.dtype.kind == 'u' else -sig.dtype.itemsize)
			except Exception as e:  # noqa
				got = (type(e).__name__ + ': ' + str(e)[:80], None)
			nontriv = n >= 2 and len(expect) > 0 and _vdesc(v) != CANON
			ctx.case(dict(k=k, prefix=p, contigs=n, total=sum(map(len, contigs)), nsig=len(expect), **_vdesc(v),
			              boundary_sensitive=(joined != expect)),
			         nontrivial=nontriv)
			ctx.count('ext:' + (v['ext'] or '(none)') + (' gz' if v['gz'] else ' plain'))
			if v['gz'] and v.get('gzm'):
				ctx.count('gzip flavour ' + v['gzm'])
			if joined != expect:
				ctx.count('boundary-sensitive variant')
			if len(data) > 8192 and any(data[i] == 13 and data[i + 1:i + 2] == b'\n' for i in range(8191, len(data), 8192)):
				ctx.count('file text with a CR LF pair split by an 8 KiB read boundary')
			one = dict(c, variants=[v])
			if not _wf(recs):
				ctx.broke('harness: generated contigs are not well-formed', str(one)[:300])
				continue
			if got[0] != expect:
				what = (f'signature of the file written as {_vdesc(v)} is {str(got[0])[:120]} but the set of prefix-anchored '
				        f'k-mers of the {n} contigs is {expect[:30]}')
				ctx.violation('genome', one, what, impl=got[0], spec=expect, file=blob if len(blob) < 600 else blob[:600])
				bad = True
				continue
			if got[0] != iu:
				ctx.violation('genome', one, f'file signature {got[0][:30]} is not the union of the per-contig signatures {iu[:30]}',
				              impl=got[0], union=iu)
				bad = True
				continue
			if ans is not None and base is not None:
				o = base + 2 + n + 4 * j
				if v.get('rag') is None and bytes(ans[o]) != data:
					ctx.broke('correspondence render (harness writer vs render_fasta)', f'{_vdesc(v)}: {data[:60]!r} vs {bytes(ans[o])[:60]!r}')
				if ans[o + 2] != 1:
					ctx.broke('model wf_contig rejects a generated genome', str(one)[:300])
				if ans[o + 3] != (1 if v['gz'] else 0):
					ctx.broke('correspondence open (is_gzip_magic on a written file)', f'{_vdesc(v)}')
				m = _msig(ans[o + 1])
				if m != got:
					ctx.broke('correspondence file (model text_signature vs calc_file_signature)', f'{str(one)[:600]}: impl {str(got)[:200]} model {str(m)[:200]}')
		# the CLI on the same files.  c['cli'] (optional) chooses the call form: mode args | list (-l, absolute paths) |
		# ldir (-l with paths relative to --ldir); cores (None: no -c option); defaults (no -k/-p: the default 11/ATGAC)
		cli = c.get('cli') or {}
		if files and not bad and k >= 5 and len(p) >= 2:
			sel = list(range(len(paths)))
			if len(sel) > 48:
				sel = sel[:8] + sorted(random.Random(len(paths)).sample(sel[8:], 40))
			out = _path('.gs')
			args = ['signatures', 'create', '--no-progress']
			cores = cli.get('cores', 2)
			if cores is not None:
				args += ['-c', str(cores)]
			if cli.get('defaults'):
				if (k, p) != (11, 'ATGAC'):
					ctx.broke('harness: cli defaults requested for a genome that is not 11/ATGAC', str(c)[:200])
			else:
				args += ['-k', str(k), '-p', p]
			args += ['-o', out]
			mode = cli.get('mode', 'args')
			lf = None
			if mode == 'args':
				args += [paths[i] for i in sel]
			else:
				lf = _path('.list')
				with open(lf, 'w', encoding='utf-8') as f:
					for i in sel:
						f.write((paths[i] if mode == 'list' else os.path.relpath(paths[i], _dir)) + '\n')
				args += ['-l', lf] + (['--ldir', _dir] if mode == 'ldir' else [])
			r = CliRunner().invoke(gambit.cli.cli, args)
			ctx.count('cli invocations')
			ctx.count(f'cli form {mode} cores={cores} ' + ('default-kspec' if cli.get('defaults') else 'k/p given'))
			if r.exit_code != 0:
				ctx.violation('genome', dict(c, variants=[files[i][0] for i in sel]),
				              f'gambit signatures create ({mode}, cores {cores}) failed on {len(sel)} variant files of one genome: '
				              f'{r.exception!r} {r.output[:200]}',
				              impl=repr(r.exception), spec=expect)
			else:
				sigs = load_signatures(out)
				if len(sigs) != len(sel):
					ctx.violation('genome', dict(c, variants=[files[i][0] for i in sel]),
					              f'gambit signatures create ({mode}) wrote {len(sigs)} signatures for {len(sel)} files', impl=len(sigs), spec=len(sel))
				for i, sig in zip(sel, sigs):
					ctx.count('cli signatures')
					lst = [int(x) for x in sig]
					if lst != expect:
						v = files[i][0]
						ctx.violation('genome', dict(c, variants=[v]),
						              f'gambit signatures create: signature of the file written as {_vdesc(v)} is {lst[:30]} but the '
						              f'k-mer set of the contigs is {expect[:30]}', impl=lst, spec=expect)
						break
				if hasattr(sigs, 'close'):
					sigs.close()
			for x in (out, lf):
				if x:
					_unlink(x)
		for path in paths:
			_unlink(path)


def _impl_parse(path):
	from gambit.seq import SequenceFile
	try:
		with SequenceFile(path, 'fasta', 'auto').parse() as recs:
			return [bytes(r.seq) for r in recs]
	except ValueError:
		return 'ValueError'
	except Exception:  # noqa  (OSError / EOFError / zlib.error from the decompressor)
		return 'BadGzip'


def k_parse(ctx, cases):
	reqs = [(603, bytes.fromhex(c['text'])) for c in cases]
	ans = ctx.model(reqs) if ctx.model_ok else None
	for i, c in enumerate(cases):
		text = bytes.fromhex(c['text'])
		blob = gzip.compress(text, mtime=0) if c.get('gz') else text
		path = _path(c.get('ext', '.fa'))
		with open(path, 'wb') as f:
			f.write(blob)
		got = _impl_parse(path)
		os.unlink(path)
		ctx.case(c if len(text) < 100 else dict(n=len(text), gz=c.get('gz'), ext=c.get('ext')),
		         nontrivial=isinstance(got, list) and len(got) >= 2 or got == 'ValueError')
		if ans is None:
			continue
		m = [bytes(r[1]) for r in ans[i][1]] if ans[i][0] == 0 else 'ValueError'
		if m != got:
			ctx.broke('correspondence parse (parse_fasta vs SequenceFile.parse sequences)',
			          f'{c}: impl {str(got)[:300]} model {str(m)[:300]}')


def k_open(ctx, cases):
	from gambit.util.io import guess_compression, open_compressed
	reqs = [(605, bytes.fromhex(c['data'])) for c in cases]
	ans = ctx.model(reqs) if ctx.model_ok else None
	for i, c in enumerate(cases):
		data = bytes.fromhex(c['data'])
		path = _path(c.get('ext', ''))
		with open(path, 'wb') as f:
			f.write(data)
		g = guess_compression(io.BytesIO(data))
		try:
			f = open_compressed(path, 'rb', 'auto')
			try:
				got = f.read()
			finally:
				f.close()
		except Exception:  # noqa  (OSError / EOFError / zlib.error from the decompressor)
			got = 'BadGzip'
		os.unlink(path)
		ctx.case(c if len(data) < 60 else dict(n=len(data), head=data[:4].hex(), ext=c.get('ext')), nontrivial=len(data) >= 2)
		if ans is None:
			continue
		magic = ans[i] == 1
		if (g == 'gzip') != magic:
			ctx.broke('correspondence open (guess_compression vs is_gzip_magic)', f'{c}: impl {g} model {magic}')
			continue
		# open_auto with gunzip := Python's gzip module
		if magic:
			try:
				want = gzip.decompress(data)
			except Exception:  # noqa
				want = 'BadGzip'
		else:
			want = data
		if got != want:
			what = f'content read through open_compressed(auto) from a file named *{c.get("ext", "")!r} differs from the model open_auto'
			if c.get('orig') is not None and want == bytes.fromhex(c['orig']):
				# a genuine FASTA (compressed or not) is not delivered as its content: the property fails
				ctx.violation('open', c, what, impl=got if isinstance(got, str) else got[:200], spec=want[:200])
			else:
				ctx.broke('correspondence open (open_compressed auto vs open_auto)', f'{c}: impl {str(got)[:100]} model {str(want)[:100]}')


def k_forms(ctx, cases):
	"""other ways to reach the same code with the same file: every call form must give the signature of the genome.
	case: genome (k, prefix, contigs, titles) + variants + `other` (contigs of a different genome, written canonically)."""
	import csv
	import pathlib
	from gambit.kmers import KmerSpec
	from gambit.seq import SequenceFile
	from gambit.sigs.calc import calc_file_signature, calc_file_signatures, SetAccumulator, ArrayAccumulator
	from click.testing import CliRunner
	import gambit.cli

	reqs = []
	plan = []
	for c in cases:
		contigs, titles, k, p = _contigs_of(c)
		other = [bytes.fromhex(h) for h in c.get('other', [])]
		nomodel = sum(map(len, contigs)) + sum(map(len, other)) > MODEL_MAX
		base = None if nomodel else len(reqs)
		if not nomodel:
			reqs.append((103, [k, p, contigs]))
			reqs.append((103, [k, p, other]))
		plan.append((c, contigs, titles, other, base))
	ans = ctx.model(reqs) if ctx.model_ok and reqs else None

	for c, contigs, titles, other, base in plan:
		k, p = c['k'], c['prefix']
		kspec = KmerSpec(k, p)
		expect, expect_o = _pyspec(k, p.encode(), contigs), _pyspec(k, p.encode(), other)
		if ans is not None and base is not None:
			if [expect, expect_o] != ans[base:base + 2]:
				ctx.broke('harness: _pyspec differs from the extracted signature_spec', str(c)[:300])
			expect, expect_o = ans[base], ans[base + 1]
		files = []     # (variant, path, gz)
		for v in c['variants']:
			recs = apply_variant(contigs, titles, v)
			data = _render(recs, v)
			blob = gz_blob(data, v.get('gzm'), v.get('gzseed', 0)) if v['gz'] else data
			path = _path(v['ext'], v.get('name'))
			with open(path, 'wb') as f:
				f.write(blob)
			files.append((v, path, v['gz']))
		opath = _path('.fasta')
		with open(opath, 'wb') as f:
			f.write(render([(b'o%d' % i, s) for i, s in enumerate(other)], 70, False, True))

		def lst(sig):
			return [int(x) for x in sig]

		def judge(form, v, fn, want=None):
			"""fn() -> signature; must equal the k-mer set of the genome"""
			want = expect if want is None else want
			ctx.count('form ' + form)
			try:
				got = lst(fn())
			except Exception as e:  # noqa
				got = type(e).__name__ + ': ' + str(e)[:120]
			ctx.case(dict(form=form, k=k, prefix=p, nsig=len(want), **(_vdesc(v) if v else {})), nontrivial=len(want) > 0)
			if got != want:
				ctx.violation('forms', dict(c, variants=[v] if v else c['variants'], only=form),
				              f'{form}: signature of the file written as {_vdesc(v) if v else "(all variants)"} is {str(got)[:120]} but the '
				              f'k-mer set of the genome is {want[:30]}', impl=got, spec=want)
				return False
			return True

		only = c.get('only')
		acc_set = SetAccumulator(k)
		acc_arr = ArrayAccumulator(k) if k <= 9 else None
		cwd = os.getcwd()
		ok = True
		for v, path, gz in files:
			forms = {
				'str path': lambda: calc_file_signature(kspec, SequenceFile(str(path), 'fasta', 'auto')),
				'pathlib path': lambda: calc_file_signature(kspec, SequenceFile(pathlib.Path(path), 'fasta', 'auto')),
				'keyword arguments': lambda: calc_file_signature(kspec=kspec, seqfile=SequenceFile(path=path, format='fasta', compression='auto')),
				'from_paths': lambda: calc_file_signature(kspec, SequenceFile.from_paths([path], 'fasta', 'auto')[0]),
				'from_paths pathlib': lambda: calc_file_signature(kspec, SequenceFile.from_paths(iter([pathlib.Path(path)]), 'fasta', compression='auto')[0]),
				'explicit compression': lambda: calc_file_signature(kspec, SequenceFile(path, 'fasta', 'gzip' if gz else None)),
				'kmerspec numpy k, bytes prefix': lambda: calc_file_signature(KmerSpec(np.int64(k), p.encode()), SequenceFile(path, 'fasta', 'auto')),
				'kmerspec lower-case prefix': lambda: calc_file_signature(KmerSpec(k, p.lower()), SequenceFile(path, 'fasta', 'auto')),
				'accumulator=SetAccumulator': lambda: calc_file_signature(kspec, SequenceFile(path, 'fasta', 'auto'), accumulator=SetAccumulator(k)),
				'open_compressed default + calc_signature': lambda: _via_open(kspec, path),
			}
			if not gz:
				forms['explicit compression "none"'] = lambda: calc_file_signature(kspec, SequenceFile(path, 'fasta', 'none'))
			if acc_arr is not None:
				forms['accumulator=ArrayAccumulator'] = lambda: calc_file_signature(kspec, SequenceFile(path, 'fasta', 'auto'), accumulator=ArrayAccumulator(k))
			for form, fn in forms.items():
				if only in (None, form):
					ok &= judge(form, v, fn)
			# relative path (the working directory is the file's directory), and .absolute() of it
			if only in (None, 'relative path', 'relative path .absolute()'):
				os.chdir(os.path.dirname(path))
				try:
					rel = SequenceFile(os.path.basename(path), 'fasta', 'auto')
					ok &= judge('relative path', v, lambda: calc_file_signature(kspec, rel))
					ok &= judge('relative path .absolute()', v, lambda: calc_file_signature(kspec, rel.absolute()))
				finally:
					os.chdir(cwd)
			# caller-supplied objects reused across calls
			if only in (None, 'same SequenceFile twice'):
				sf = SequenceFile(path, 'fasta', 'auto')
				calc_file_signature(kspec, sf)
				ok &= judge('same SequenceFile twice', v, lambda: calc_file_signature(kspec, sf))
			for name, acc in (('reused SetAccumulator after clear()', acc_set), ('reused ArrayAccumulator after clear()', acc_arr)):
				if acc is not None and only in (None, name):
					calc_file_signature(kspec, SequenceFile(opath, 'fasta', 'auto'), accumulator=acc)    # dirty it with the other genome
					acc.clear()
					ok &= judge(name, v, lambda: calc_file_signature(kspec, SequenceFile(path, 'fasta', 'auto'), accumulator=acc))
		# several files in one call: variants, the other genome in the middle, the first variant again
		if files and ok:
			seq = [SequenceFile(path, 'fasta', 'auto') for v, path, gz in files]
			mid = len(seq) // 2
			seq = seq[:mid] + [SequenceFile(opath, 'fasta', 'auto')] + seq[mid:] + [seq[0]]
			wants = [expect] * mid + [expect_o] + [expect] * (len(files) - mid) + [expect]
			for form, kw in (('calc_file_signatures concurrency=None', dict(concurrency=None)),
			                 ('calc_file_signatures threads', dict(concurrency='threads', max_workers=3)),
			                 ('calc_file_signatures positional', None)):
				if only not in (None, form):
					continue
				ctx.count('form ' + form)
				try:
					sl = calc_file_signatures(kspec, seq, **kw) if kw is not None else calc_file_signatures(kspec, tuple(seq), None, 'threads', 1)
					got = [lst(x) for x in sl]
				except Exception as e:  # noqa
					got = type(e).__name__ + ': ' + str(e)[:120]
				ctx.case(dict(form=form, k=k, prefix=p, files=len(seq)), nontrivial=len(expect) > 0 and expect != expect_o)
				if got != wants:
					bad = next((i for i in range(len(wants)) if not isinstance(got, list) or i >= len(got) or got[i] != wants[i]), None)
					ctx.violation('forms', dict(c, only=form),
					              f'{form} over {len(seq)} files (variants of one genome, a different genome at position {mid}, the first file '
					              f'again): result {bad} is {str(got[bad] if isinstance(got, list) and bad is not None and bad < len(got) else got)[:120]}, '
					              f'the k-mer set of that genome is {wants[bad][:30] if bad is not None else None}', impl=got, spec=wants)
					ok = False
		# gambit dist: every variant row must be the same text, at distance 0 from the canonical file
		if files and ok and only in (None, 'cli dist') and k >= 5 and len(p) >= 2:     # the CLI refuses k < 5 and 1-letter prefixes
			out = _path('.csv')
			args = ['dist', '--no-progress', '-k', str(k), '-p', p, '-o', out]
			for v, path, gz in files:
				args += ['-q', path]
			args += ['-r', files[0][1], '-r', opath]
			if c.get('dist_cores'):
				args += ['-c', str(c['dist_cores'])]
			r = CliRunner().invoke(gambit.cli.cli, args)
			ctx.count('form cli dist')
			ctx.case(dict(form='cli dist', k=k, prefix=p, files=len(files)), nontrivial=len(expect) > 0)
			if r.exit_code != 0:
				ctx.violation('forms', dict(c, only='cli dist'), f'gambit dist failed on variant files of one genome: {r.exception!r} {r.output[:200]}',
				              impl=repr(r.exception))
			else:
				with open(out, newline='') as f:
					rows = [row[1:] for row in list(csv.reader(f))[1:]]
				if len(rows) != len(files):
					ctx.violation('forms', dict(c, only='cli dist'), f'gambit dist wrote {len(rows)} rows for {len(files)} query files', impl=rows)
				else:
					for (v, path, gz), row in zip(files, rows):
						zero = len(expect) == 0 or float(row[0]) == 0.0
						if row != rows[0] or not zero:
							ctx.violation('forms', dict(c, variants=[c['variants'][0], v] if v is not c['variants'][0] else [v], only='cli dist'),
							              f'gambit dist: distances (to the canonical file, to another genome) of the file written as {_vdesc(v)} '
							              f'are {row}, those of the canonical file are {rows[0]}', impl=row, spec=rows[0])
							break
			_unlink(out)
		for v, path, gz in files:
			_unlink(path)
		_unlink(opath)


def _via_open(kspec, path):
	"""open_compressed with its default compression ('auto') + Bio.SeqIO + calc_signature by hand"""
	from Bio import SeqIO
	from gambit.util.io import open_compressed
	from gambit.sigs.calc import calc_signature
	with open_compressed(path) as f:
		return calc_signature(kspec, [rec.seq for rec in SeqIO.parse(f, 'fasta')])


# ---- history: what was computed (or failed) earlier in the same process / thread must not show ---------------------
HIST_ENTRIES = ['calc_file_signature', 'calc_file_signature accumulator=fresh', 'calc_signature of the contigs',
                'calc_file_signatures concurrency=None', 'calc_file_signatures threads max_workers=1',
                'calc_file_signatures executor=reused', 'executor.submit(calc_file_signature)', 'cli signatures create -c 1']
HIST_WORKER = ('calc_file_signatures executor=reused', 'executor.submit(calc_file_signature)')
HIST_EXC = {'OSError': OSError, 'RuntimeError': RuntimeError, 'ValueError': ValueError, 'MemoryError': MemoryError, 'EOFError': EOFError}
GZ_FAILS = ('gz-trunc', 'gz-crc', 'gz-flip')


class _Interrupted:
	"""a sequence file whose record iterator raises after `after` records (an I/O error in the middle of a read)"""

	def __init__(self, sf, after, exc):
		self.sf, self.after, self.exc = sf, after, exc
		self.path, self.format, self.compression = sf.path, sf.format, sf.compression

	def __fspath__(self):
		return str(self.path)

	def parse(self, **kw):
		from gambit.util.io import ClosingIterator
		inner = self.sf.parse(**kw)

		def gen():
			for i, rec in enumerate(inner):
				if i >= self.after:
					raise self.exc(f'read interrupted after {i} records (harness/c06.py history stream)')
				yield rec
		return ClosingIterator(gen(), inner.fobj)


def _interrupted_seqs(contigs, after, exc):
	for i, s in enumerate(contigs):
		if i >= after:
			raise exc(f'record iterator interrupted after {i} records (harness/c06.py history stream)')
		yield s


def _step_blob(st, contigs):
	"""bytes of the file an earlier call reads; fail modes: gz-trunc (cut: fraction of the compressed length, or a negative
	number of bytes counted from the end), gz-crc (a bit of the CRC-32 trailer flipped), gz-flip (a byte inside the
	compressed stream inverted), bad-byte (a byte >= 0x80 written over the text at fraction `at`)"""
	v = st.get('layout') or CANON
	f = st.get('fail') or {}
	mode = f.get('mode')
	data = _render(apply_variant(contigs, [b'h%d' % i for i in range(len(contigs))], v), v)
	if mode == 'bad-byte' and data:
		d = bytearray(data)
		d[min(len(d) - 1, int(f.get('at', 0.9) * len(d)))] = f.get('byte', 0xff)
		data = bytes(d)
	if not (v.get('gz') or mode in GZ_FAILS):
		return data
	blob = bytearray(gz_blob(data, v.get('gzm'), v.get('gzseed', 0)))
	n = len(blob)
	if mode == 'gz-trunc':
		cut = f.get('cut', 0.5)
		blob = blob[:max(0, n + cut if cut < 0 else int(n * cut))]
	elif mode == 'gz-crc':
		blob[n - 6] ^= 0x10
	elif mode == 'gz-flip':
		blob[min(n - 1, 10 + int(f.get('at', 0.5) * max(0, n - 18)))] ^= 0xff
	return bytes(blob)


def k_history(ctx, cases):
	"""genome B computed after a history of earlier calls in the same process / thread.  case: genome (k, prefix, contigs, titles)
	+ variants (the files of B, used in rotation) + history (list of steps) + entries (names out of HIST_ENTRIES).  For every
	entry the whole history is run again, then B is computed through that entry; the result must be the k-mer set of B.
	step: via (file | sig | files-none | files-threads1 | files-exec | cli), k, prefix, contigs | gen (the other genome),
	layout (how its file is written), fail (None: a well-formed file; else mode gz-trunc / gz-crc / gz-flip / bad-byte / dir /
	missing / interrupt / bad-item), acc ('set' | 'array': a caller-supplied accumulator that is never cleared), lead (well-formed
	copies of the same genome placed before the file in a multi-file call), samepath (the file is written at the path B's file
	has afterwards).  Only B and the steps that read a well-formed file without a caller-supplied accumulator are judged."""
	from concurrent.futures import ThreadPoolExecutor
	from gambit.kmers import KmerSpec
	from gambit.seq import SequenceFile
	from gambit.sigs.calc import calc_file_signature, calc_file_signatures, calc_signature, SetAccumulator, ArrayAccumulator, default_accumulator
	from gambit.sigs.base import load_signatures
	from click.testing import CliRunner
	import gambit.cli

	reqs = []
	plan = []
	for c in cases:
		contigs, titles, k, p = _contigs_of(c)
		base = None if sum(map(len, contigs)) > MODEL_MAX else len(reqs)
		if base is not None:
			reqs.append((103, [k, p, contigs]))
		plan.append((c, contigs, titles, base))
	ans = ctx.model(reqs) if ctx.model_ok and reqs else None

	def lst(sig):
		return [int(x) for x in sig]

	for c, contigs, titles, base in plan:
		k, p = c['k'], c['prefix']
		kspec = KmerSpec(k, p)
		expect = _pyspec(k, p.encode(), contigs)
		if ans is not None and base is not None:
			if expect != ans[base]:
				ctx.broke('harness: _pyspec differs from the extracted signature_spec', str(c)[:300])
			expect = ans[base]
		if not c.get('variants') or len(contigs) < c.get('min_contigs', 0):
			continue               # (the shrinker keeps B a multi-contig genome)
		made = []                  # everything written for this case
		bfiles = []                # (variant, path, blob) of genome B
		for v in c['variants']:
			blob = _render(apply_variant(contigs, titles, v), v)
			if v['gz']:
				blob = gz_blob(blob, v.get('gzm'), v.get('gzseed', 0))
			path = _path(v['ext'], v.get('name'))
			with open(path, 'wb') as f:
				f.write(blob)
			made.append(path)
			bfiles.append((v, path, blob))
		steps = []
		for st in c.get('history', []):
			sk, sp = st['k'], st['prefix']
			sc = _gen_contigs(st['gen'], sk, sp.encode()) if 'gen' in st else [bytes.fromhex(h) for h in st.get('contigs', [])]
			mode = (st.get('fail') or {}).get('mode')
			pr = dict(st=st, ks=KmerSpec(sk, sp), contigs=sc, mode=mode, want=_pyspec(sk, sp.encode(), sc), blob=None, path=None, good=None)
			if mode == 'dir':
				pr['path'] = _path('.fa')
				os.makedirs(pr['path'], exist_ok=True)
			elif mode == 'missing':
				pr['path'] = _path('.fa')
			else:
				pr['blob'] = _step_blob(st, sc)
				pr['path'] = _path((st.get('layout') or CANON)['ext'])
				with open(pr['path'], 'wb') as f:
					f.write(pr['blob'])
			made.append(pr['path'])
			if st.get('lead'):
				pr['good'] = _path('.fasta')
				with open(pr['good'], 'wb') as f:
					f.write(render([(b'l%d' % i, s) for i, s in enumerate(sc)], 70, False, True))
				made.append(pr['good'])
			steps.append(pr)

		ex = ThreadPoolExecutor(max_workers=1)

		def in_worker(fn):
			return ex.submit(fn).result()

		def run_step(pr, bpath, worker, accs):
			"""-> ('ok', [signatures]) | ('raised', exception type name)"""
			st, ks, mode = pr['st'], pr['ks'], pr['mode']
			f = st.get('fail') or {}
			via = st.get('via', 'file')
			acc = None
			if st.get('acc'):
				key = (ks.k, st['acc'])
				if key not in accs:
					accs[key] = ArrayAccumulator(ks.k) if st['acc'] == 'array' and ks.k <= 11 else SetAccumulator(ks.k)
				acc = accs[key]
			path = pr['path']
			if st.get('samepath') and pr['blob'] is not None:
				path = bpath
				with open(path, 'wb') as fh:
					fh.write(pr['blob'])
			exc = HIST_EXC.get(f.get('exc'), OSError)
			after = f.get('after', 1)
			if via == 'cli' and (ks.k < 5 or len(st['prefix']) < 2 or acc is not None or mode in ('interrupt', 'bad-item')):
				via = 'files-none'       # the CLI refuses such a k-mer spec / has no such argument
			kw = {} if acc is None else dict(accumulator=acc)
			if via == 'sig':
				if mode == 'bad-item':
					seqs = list(pr['contigs'][:after]) + [12345] + list(pr['contigs'][after:])
				elif mode is not None:
					seqs = _interrupted_seqs(pr['contigs'], after, exc)
				else:
					seqs = iter(pr['contigs']) if st.get('lead') else list(pr['contigs'])

				def fn():
					return [calc_signature(ks, seqs, **kw)]
			else:
				sf = SequenceFile(path, 'fasta', 'auto')
				if mode == 'interrupt':
					sf = _Interrupted(sf, after, exc)
				files = ([SequenceFile(pr['good'], 'fasta', 'auto')] * st['lead'] if pr['good'] else []) + [sf]
				if via == 'file' or acc is not None:
					def fn():
						return [calc_file_signature(ks, sf, **kw)]
				elif via == 'files-none':
					def fn():
						return list(calc_file_signatures(ks, files, concurrency=None))
				elif via == 'files-threads1':
					def fn():
						return list(calc_file_signatures(ks, files, concurrency='threads', max_workers=1))
				elif via == 'files-exec':
					def fn():
						return list(calc_file_signatures(ks, files, executor=ex))
				elif via == 'cli':
					def fn():
						out = _path('.gs')
						try:
							r = CliRunner().invoke(gambit.cli.cli, ['signatures', 'create', '--no-progress', '-c', '1', '-k', str(ks.k), '-p', st['prefix'],
							                                         '-o', out] + [str(x.path) for x in files])
							ctx.count('history cli invocations')
							if r.exit_code != 0:
								raise RuntimeError(f'cli exit {r.exit_code}: {type(r.exception).__name__}')
							sigs = load_signatures(out)
							try:
								return [np.array(x) for x in sigs]
							finally:
								if hasattr(sigs, 'close'):
									sigs.close()
						finally:
							_unlink(out)
				else:
					raise ValueError(f'history step via {via!r}')
			try:
				res = in_worker(fn) if worker and via in ('file', 'sig', 'files-none') else fn()
				return 'ok', [lst(x) for x in res]
			except Exception as e:  # noqa
				return 'raised', type(e).__name__

		try:
			for ei, entry in enumerate(c.get('entries', [])):
				if entry.startswith('cli') and (k < 5 or len(p) < 2):
					continue
				worker = entry in HIST_WORKER
				v, bpath, bblob = bfiles[ei % len(bfiles)]
				accs = {}
				outcomes = []
				bad = False
				for si, pr in enumerate(steps):
					st = pr['st']
					res, val = run_step(pr, bpath, worker, accs)
					outcomes.append('ok' if res == 'ok' else val)
					ctx.count(f'history step {"fail " + pr["mode"] if pr["mode"] else "well-formed"} via {st.get("via", "file")}'
					          + (' accumulator=' if st.get('acc') else ''))
					ctx.count('history step outcome ' + outcomes[-1])
					# an earlier genome read from a well-formed file is a genome like any other: judged by the same predicate
					if res == 'ok' and pr['mode'] is None and not st.get('acc') and any(x != pr['want'] for x in val):
						got = next(x for x in val if x != pr['want'])
						ctx.violation('history', dict(c, history=c['history'][:si + 1], variants=[v], entries=[entry]),
						              f'history step {si} ({st.get("via", "file")}, k={st["k"]} prefix={st["prefix"]}) after steps with outcomes {outcomes[:-1]}: '
						              f'signature {got[:30]} of a well-formed genome file is not the k-mer set of its contigs {pr["want"][:30]}',
						              impl=got, spec=pr['want'])
						bad = True
						break
				if bad:
					break
				with open(bpath, 'wb') as fh:          # B's file (a step may have used its path for another genome)
					fh.write(bblob)
				sfb = SequenceFile(bpath, 'fasta', 'auto')
				try:
					if entry == 'calc_file_signature':
						got = lst(calc_file_signature(kspec, sfb))
					elif entry == 'calc_file_signature accumulator=fresh':
						got = lst(calc_file_signature(kspec, sfb, accumulator=default_accumulator(k)))
					elif entry == 'calc_signature of the contigs':
						got = lst(calc_signature(kspec, contigs))
					elif entry == 'calc_file_signatures concurrency=None':
						got = lst(calc_file_signatures(kspec, [sfb], concurrency=None)[0])
					elif entry == 'calc_file_signatures threads max_workers=1':
						got = lst(calc_file_signatures(kspec, [sfb], concurrency='threads', max_workers=1)[0])
					elif entry == 'calc_file_signatures executor=reused':
						got = lst(calc_file_signatures(kspec, [sfb], executor=ex)[0])
					elif entry == 'executor.submit(calc_file_signature)':
						got = lst(ex.submit(calc_file_signature, kspec, sfb).result())
					elif entry == 'cli signatures create -c 1':
						out = _path('.gs')
						try:
							r = CliRunner().invoke(gambit.cli.cli, ['signatures', 'create', '--no-progress', '-c', '1', '-k', str(k), '-p', p, '-o', out, bpath])
							ctx.count('history cli invocations')
							if r.exit_code != 0:
								got = f'cli exit {r.exit_code}: {r.exception!r} {r.output[:100]}'
							else:
								sigs = load_signatures(out)
								got = lst(sigs[0]) if len(sigs) == 1 else f'{len(sigs)} signatures for one file'
								if hasattr(sigs, 'close'):
									sigs.close()
						finally:
							_unlink(out)
					else:
						ctx.broke('harness: unknown history entry', entry)
						continue
				except Exception as e:  # noqa
					got = type(e).__name__ + ': ' + str(e)[:120]
				ctx.count('history entry ' + entry)
				nraised = sum(1 for o in outcomes if o != 'ok')
				dirty = any(pr['st'].get('acc') for pr in steps)
				ctx.case(dict(entry=entry, k=k, prefix=p, contigs=len(contigs), nsig=len(expect),
				              history=[(pr['st'].get('via', 'file'), pr['st']['k'], pr['st']['prefix'], pr['mode'], bool(pr['st'].get('acc')), o)
				                       for pr, o in zip(steps, outcomes)], **_vdesc(v)),
				         nontrivial=len(contigs) >= 2 and len(expect) > 0 and (nraised > 0 or dirty))
				if nraised:
					ctx.count('history: genome computed after a call that raised')
				if got != expect:
					extra = sorted(set(got) - set(expect))[:10] if isinstance(got, list) else None
					ctx.violation('history', dict(c, variants=[v], entries=[entry]),
					              f'{entry}: after a history of {len(steps)} earlier calls in the same process (outcomes {outcomes}) the signature of the '
					              f'genome file written as {_vdesc(v)} is {str(got)[:120]} ({len(got) if isinstance(got, list) else "-"} k-mers, not in '
					              f'the genome: {extra}) but the k-mer set of its {len(contigs)} contigs is {expect[:30]} ({len(expect)} k-mers)',
					              impl=got, spec=expect)
					break
		finally:
			ex.shutdown(wait=True)
			for path in made:
				if os.path.isdir(path):
					shutil.rmtree(path, ignore_errors=True)
				else:
					_unlink(path)


# ---- J. long contigs: the CONTIG-LENGTH dimension of "all multi-contig genomes" -------------------------------------
# A contig is described by d = {id, len, b, bg, seed, lc, lcfrom, lcto} (lc: every third plant in lower case; lcfrom / lcto: the
# plants from / up to that offset in lower case -- a soft-masked region that begins or ends somewhere inside a long contig): a background (bg: 'N', 'n', 'A' = letters that never match on
# their own, 'rand' / 'randl' = random ACGT / ACGTacgt, which match everywhere) of `len` letters in which complete prefix+k-mer
# occurrences are PLANTED, each with a k-mer found nowhere else in the genome, so that losing any single occurrence
# changes the signature.  Plants form ladders of touching occurrences (stride prefix_len + k, strands alternating, phase
# derived from b) across every ANCHOR: each multiple of 2^16 (hence of 2^17 .. 2^22) and of 10^6 counted from the 5' end
# and, mirrored, from the 3' end (the mirror images take the originals' places, on the other strand, when the contig is
# reverse-complemented), and flush with both ends.  Contigs with b = 0 .. prefix_len+k-1 (longer than the anchor + 2 * (prefix_len
# + k) + 2), as generated and reverse-complemented, together place an occurrence start on either strand at every offset
# within +-(prefix_len+k+2) of the anchor.
LONG_STEPS = (1 << 16, 10 ** 6)
_TBL4 = bytes(b'ACGT'[i & 3] for i in range(256))
_TBL8 = bytes(b'ACGTacgt'[i & 7] for i in range(256))


def _kmer_letters(x, k):
	return bytes(b'ACGT'[(x >> (2 * (k - 1 - i))) & 3] for i in range(k))


def _long_contig(d, k, p):
	"""-> (contig bytes, plants) with plants = [(start, strand, kmer index)], strand 0: the text holds prefix + k-mer at
	start; 1: it holds their reverse complement there (an occurrence on the reverse strand)"""
	L, b = d['len'], d.get('b', 0)
	T = len(p) + k
	W = T + 2
	bg = d.get('bg', 'N')
	if bg in ('rand', 'randl'):
		buf = bytearray(random.Random(d.get('seed', 0)).randbytes(L).translate(_TBL4 if bg == 'rand' else _TBL8))
	else:
		buf = bytearray(bg.encode()[:1] * L)
	anchors = [(m * step, m, step) for step in LONG_STEPS for m in range(1, L // step + 1)]
	# multiples of 2^20 first (their ladders are never displaced by a neighbouring anchor's), then the rest in order
	anchors.sort(key=lambda a: (0 if a[2] == 1 << 16 and a[1] % 16 == 0 else 1, a[1], a[2]))
	anchors.insert(0, (0, 0, 0))
	plants = []
	used = {}
	space = 1 << (2 * k)
	cid = d.get('id', 0)

	def plant(s, strand):
		if s < 0 or s + T > L:
			return
		for q in (s // T - 1, s // T, s // T + 1):
			o = used.get(q)
			if o is not None and abs(o - s) < T:
				return
		used[s // T] = s          # (plants never overlap, so a bucket of T positions holds at most one start)
		x = (((cid << 16) | len(plants)) * 2654435761 + 977) % space
		m = p + _kmer_letters(x, k)
		if strand:
			m = _rc(m)
		if (d.get('lc') and len(plants) % 3 == 2) or s >= d.get('lcfrom', L + 1) or s < d.get('lcto', 0):
			m = m.lower()
		buf[s:s + T] = m
		plants.append((s, strand, x))

	# every plant has a mirror image (same distance from the 3' end, same strand value): when the contig is reverse-
	# complemented the mirror image lies at the original's offset from the 5' end, on the other strand
	plant(0, b & 1)
	plant(L - T, b & 1)
	for B, m, step in anchors:
		phi = (b + 5 * m + 3 * (m // 16) + (3 if step == 10 ** 6 else 0)) % T
		ladder = [(B + phi + T * j, (j + m + b // T) & 1) for j in range(-3, 3) if -W - T < phi + T * j <= W]
		for s, strand in ladder:
			plant(s, strand)
		for s, strand in ladder:
			plant(L - T - s, strand)
	return bytes(buf), plants


def _recase_blocks(b, seed):
	"""case pattern in blocks of 1-5000 letters (soft-masked regions), affordable on megabyte contigs"""
	r = random.Random(f'{seed}/{len(b)}')
	out = bytearray(b)
	i = 0
	while i < len(out):
		n = r.randint(1, 5000)
		if r.random() < 0.5:
			out[i:i + n] = out[i:i + n].swapcase()
		i += n
	return bytes(out)


def _where(plantmap, x, lens):
	h = plantmap.get(x)
	if h is None:
		return f'#{x} (not planted: background)'
	ci, s, strand = h
	L = lens[ci]
	near = min(((abs(s - m * st), f'{m}*{st}') for st in (1 << 20, 1 << 16) for m in (s // st, s // st + 1) if m), default=(None, ''))
	return (f'#{x} planted in contig {ci} (length {L} = 2^20*{L >> 20}+{L & ((1 << 20) - 1)}) at offset {s} '
	        f'({"+" if strand == 0 else "-"} strand; {L - s} from the 3\' end; {near[0]} from {near[1]})')


def k_long(ctx, cases):
	"""genome of long contigs.  case: k, prefix, long = [contig descriptors, see _long_contig], variants (as in k_genome),
	cli (optional: run `gambit signatures create` on the first and the last variant file).  Judged by the property
	predicate against _pyspec (bytes.find over the whole contig: no windows) -- the model is not run on megabytes:
	calc_signature of every contig as generated and reverse-complemented == the k-mer set of that contig; signature of every
	variant file == the union of these sets == the union of the implementation's per-contig signatures."""
	from gambit.kmers import KmerSpec
	from gambit.seq import SequenceFile
	from gambit.sigs.calc import calc_file_signature, calc_signature
	from gambit.sigs.base import load_signatures
	from click.testing import CliRunner
	import gambit.cli

	for c in cases:
		k, p = c['k'], c['prefix']
		pb = p.encode()
		kspec = KmerSpec(k, p)
		descs = c['long']
		built = [_long_contig(d, k, pb) for d in descs]
		contigs = [s for s, _ in built]
		lens = [len(s) for s in contigs]
		titles = [b'L%d len=%d' % (d.get('id', 0), d['len']) for d in descs]
		n = len(contigs)
		plantmap = {}
		dup = 0
		for ci, (s, plants) in enumerate(built):
			for st, strand, x in plants:
				dup += x in plantmap
				plantmap.setdefault(x, (ci, st, strand))
		per = [_pyspec(k, pb, [s]) for s in contigs]
		expect = sorted(set(itertools.chain.from_iterable(per)))
		for ci, (s, plants) in enumerate(built):
			have = set(per[ci])
			if any(x not in have for _, _, x in plants):
				ctx.broke('harness: a planted occurrence is not in the reference k-mer set of its contig', str(descs[ci]))
		if dup:
			ctx.count('long contigs: planted k-mers that are not unique in the genome', dup)
		ctx.count('long contigs: contigs', n)
		ctx.count('long contigs: contigs longer than 2^20', sum(1 for x in lens if x > 1 << 20))
		ctx.count('long contigs: planted occurrences', sum(len(pl) for _, pl in built))
		ctx.count('long contigs: k-mers of the background', len(expect) - len(set(expect) & set(plantmap)))

		def diff(got):
			if not isinstance(got, list):
				return str(got)[:200]
			miss = sorted(set(expect) - set(got))
			extra = sorted(set(got) - set(expect))
			return (f'{len(got)} k-mers; {len(miss)} missing' + (': ' + '; '.join(_where(plantmap, x, lens) for x in miss[:4]) if miss else '')
			        + (f'; {len(extra)} not in the genome: {extra[:6]}' if extra else ''))

		# every contig on its own, as generated and reverse-complemented
		bad = False
		iu = set()
		for ci, s in enumerate(contigs):
			gots = []
			for orient, t in (('as generated', s), ('reverse-complemented', _rc(s))):
				try:
					got = [int(x) for x in calc_signature(kspec, t)]
				except Exception as e:  # noqa
					got = type(e).__name__ + ': ' + str(e)[:120]
				gots.append(got)
				ctx.case(dict(k=k, prefix=p, contig=descs[ci], orient=orient, nsig=len(per[ci])), nontrivial=len(per[ci]) > 0 and lens[ci] > 1 << 16)
			if isinstance(gots[0], list):
				iu.update(gots[0])
			for orient, got in zip(('as generated', 'reverse-complemented'), gots):
				if got != per[ci]:
					miss = sorted(set(per[ci]) - set(got)) if isinstance(got, list) else []
					own = {x: (0, st, sd) for x, (cj, st, sd) in plantmap.items() if cj == ci}
					ctx.violation('long', dict(c, long=[descs[ci]], variants=[]),
					              f'calc_signature of a contig of {lens[ci]} letters, {orient}, is not the set of prefix-anchored k-mers of that contig '
					              f'({len(per[ci])} k-mers): {str(got)[:80] if not isinstance(got, list) else str(len(got)) + " k-mers"}'
					              f' (the signatures of the contig and of its reverse complement are {"EQUAL" if gots[0] == gots[1] else "DIFFERENT"}); missing '
					              + '; '.join(_where(own, x, [lens[ci]]) for x in miss[:4]),
					              impl=got if not isinstance(got, list) else dict(n=len(got), missing=miss[:50], extra=sorted(set(got) - set(per[ci]))[:50]),
					              spec=dict(n=len(per[ci])), other_orientation=dict(n=len(gots[1 - (orient == 'reverse-complemented')])
					                                                                   if isinstance(gots[1 - (orient == 'reverse-complemented')], list) else None))
					bad = True
					break
			if bad:
				break
		iu = sorted(iu)
		paths = []
		for v in ([] if bad else c['variants']):
			recs = apply_variant(contigs, titles, v)
			data = _render(recs, v)
			blob = gz_blob(data, v.get('gzm'), v.get('gzseed', 0)) if v['gz'] else data
			if v['gz'] and (blob[:2] != b'\x1f\x8b' or gzip.decompress(blob) != data):
				ctx.broke('assumption: gunzip(gzip x) = x and gzip x starts with 1f 8b', f'{len(data)} bytes, flavour {v.get("gzm")}')
			path = _path(v['ext'], v.get('name'))
			with open(path, 'wb') as f:
				f.write(blob)
			paths.append(path)
			del data, blob
			try:
				sig = calc_file_signature(kspec, SequenceFile(path, 'fasta', 'auto'))
				got = [int(x) for x in sig]
			except Exception as e:  # noqa
				got = type(e).__name__ + ': ' + str(e)[:120]
			ctx.case(dict(k=k, prefix=p, long=descs, nsig=len(expect), **_vdesc(v)),
			         nontrivial=n >= 2 and len(expect) > 0 and max(lens) > 1 << 16 and _vdesc(v) != CANON)
			ctx.count('ext:' + (v['ext'] or '(none)') + (' gz' if v['gz'] else ' plain'))
			if not _wf(recs):
				ctx.broke('harness: generated contigs are not well-formed', str(c)[:300])
				continue
			if got != expect:
				ctx.violation('long', dict(c, variants=[v]),
				              f'signature of the file written as {_vdesc(v)} ({n} contigs of lengths {lens[:8]}) is not the set of prefix-anchored '
				              f'k-mers of the contigs ({len(expect)} k-mers): {diff(got)}',
				              impl=got if not isinstance(got, list) else dict(n=len(got), missing=sorted(set(expect) - set(got))[:50],
				                                                              extra=sorted(set(got) - set(expect))[:50]), spec=dict(n=len(expect)))
				bad = True
				break
			if got != iu:
				ctx.violation('long', dict(c, variants=[v]), f'file signature ({len(got)} k-mers) is not the union of the per-contig signatures ({len(iu)} k-mers)',
				              impl=dict(n=len(got)), union=dict(n=len(iu)))
				bad = True
				break
		cli = c.get('cli')
		if cli and paths and not bad and k >= 5 and len(p) >= 2:
			sel = sorted({0, len(paths) - 1})
			out = _path('.gs')
			args = ['signatures', 'create', '--no-progress']
			if cli.get('cores') is not None:
				args += ['-c', str(cli['cores'])]
			if not ((k, p) == (11, 'ATGAC') and cli.get('defaults')):
				args += ['-k', str(k), '-p', p]
			args += ['-o', out] + [paths[i] for i in sel]
			r = CliRunner().invoke(gambit.cli.cli, args)
			ctx.count('cli invocations')
			if r.exit_code != 0:
				ctx.violation('long', dict(c, variants=[c['variants'][i] for i in sel]),
				              f'gambit signatures create failed on {len(sel)} variant files of a genome of long contigs: {r.exception!r} {r.output[:200]}',
				              impl=repr(r.exception))
			else:
				sigs = load_signatures(out)
				for i, sig in zip(sel, sigs):
					ctx.count('cli signatures')
					lst = [int(x) for x in sig]
					if lst != expect:
						ctx.violation('long', dict(c, variants=[c['variants'][i]]),
						              f'gambit signatures create: signature of the file written as {_vdesc(c["variants"][i])} is not the k-mer set of the '
						              f'contigs: {diff(lst)}', impl=dict(n=len(lst)), spec=dict(n=len(expect)))
						break
				if hasattr(sigs, 'close'):
					sigs.close()
			_unlink(out)
		for path in paths:
			_unlink(path)


KINDS = {'genome': k_genome, 'parse': k_parse, 'open': k_open, 'forms': k_forms, 'history': k_history, 'long': k_long}
BATCH = 12


# ---------------------------------------------------------------------------------------------------------
def _rand_title(rng):
	r = rng.random()
	if r < 0.15:
		return b''
	alpha = b'abcXYZ019 _|.:>-\t'
	t = bytes(rng.choice(alpha) for _ in range(rng.randint(1, 12)))
	if rng.random() < 0.3:
		t += rng.choice([b' ', b'\t', b'  ', b' \t '])
	return t


def _rand_contig(rng, ln, p, k):
	mode = rng.random()
	alpha = b'ACGT' if mode < 0.5 else (b'ACGTacgt' if mode < 0.75 else b'ACGTNacgtnRY-')
	b = bytearray(rng.choice(alpha) for _ in range(ln))
	# plant occurrences (either strand, either case), some flush with the ends
	for _ in range(rng.randint(0, 4)):
		if ln >= len(p):
			where = rng.choice([0, ln - len(p), rng.randrange(ln - len(p) + 1), max(0, ln - len(p) - k)])
			motif = p if rng.random() < 0.5 else _rc(p)
			if rng.random() < 0.3:
				motif = motif.lower()
			b[where:where + len(p)] = motif
	return bytes(b)


def _widths(ctx, rng, contigs, full):
	lens = sorted({len(s) for s in contigs if len(s)})
	mx = max(lens) if lens else 1
	if full:
		return list(range(1, mx + 2))
	ws = {1, 2, mx, mx + 1, 60, 80, max(1, mx - 1)}
	for ln in lens[:4]:
		for d in (2, 3, 4, 5, 7):
			if ln % d == 0:
				ws.add(ln // d)
				ws.add(d)
	ws.add(rng.randint(1, mx + 1))
	ws.add(rng.randint(1, mx + 1))
	return sorted(w for w in ws if w >= 1)


def _variants(ctx, rng, contigs, full=False, extra=0):
	n = len(contigs)
	vs = [dict(CANON)]
	ws = _widths(ctx, rng, contigs, full)
	for i, w in enumerate(ws + [rng.choice(ws) for _ in range(extra)]):
		vs.append(dict(
			omask=rng.getrandbits(max(n, 1)) if rng.random() < 0.8 else 0,
			pseed=rng.randrange(1 << 30) if rng.random() < 0.8 else None,
			cseed=rng.choice([None, 'u', 'l', rng.randrange(1 << 30), rng.randrange(1 << 30)]),
			w=w, crlf=rng.random() < 0.5, fnl=rng.random() < 0.5, gz=rng.random() < 0.5,
			ext=EXTS[(i + rng.randrange(2)) % len(EXTS)] if rng.random() < 0.9 else rng.choice(EXTS)))
	return vs


def generate(ctx):
	rng = ctx.rng
	ctx.rule(RULE)

	# ---- 1. small scope, exhaustive over the variant space -------------------------------------------------
	small = [
		(2, 'AT', [b'CAT', b'GCATtC'], [b'a', b'b ']),       # AT|GC would span the boundary
		(2, 'AT', [b'ATGCa', b'nATcc'], [b'1', b'']),
		(1, 'A', [b'ggcA', b'Ctt', b''], [b'x y', b'>', b'e']),  # empty contig, '>' in a title
		(3, 'GA', [b'GAtTcNGA', b'TTCGAA'], [b't\t', b'u']),
	]
	if not ctx.quick:
		small += [(2, 'AC', [b'ACACAC', b'GTGT'], [b'', b'']), (5, 'AT', [b'ATGGCAT', b'ATGCCAT', b'AT'], [b'p', b'q', b'r'])]
	nsmall = 0
	for k, p, contigs, titles in small:
		n = len(contigs)
		mx = max(map(len, contigs))
		perms = [None] + list(range(1, 4 if n > 2 else 2))
		vs = []
		for omask in range(1 << n):
			for pseed in perms:
				for cseed in (None, 'u', 'l', 7):
					for w in range(1, mx + 2):
						for crlf in (False, True):
							for fnl in (True, False):
								for gz in (False, True):
									vs.append(dict(omask=omask, pseed=pseed, cseed=cseed, w=w, crlf=crlf, fnl=fnl, gz=gz,
									               ext=EXTS[((len(vs) * 2654435761) >> 9) % len(EXTS)]))
		nsmall += len(vs)
		for i in range(0, len(vs), 400):
			yield 'genome', dict(k=k, prefix=p, contigs=[s.hex() for s in contigs], titles=[t.hex() for t in titles],
			                     variants=vs[i:i + 400])
	ctx.count('stream:small-exhaustive-variants', nsmall)
	ctx.exhaustive = True
	ctx.extra['exhaustive_scope'] = (f'{len(small)} hand-built boundary-sensitive genomes x all orientation masks x identity + 1..3 shuffles x '
	                                 '{keep, upper, lower, mixed} case x every width 1..maxlen+1 x LF/CRLF x final newline x gzip, '
	                                 'extensions cycled over ' + ' '.join(repr(e) for e in EXTS))

	# ---- 2. zero contigs / single contig / empty sequences ---------------------------------------------------
	for contigs in ([], [b''], [b'', b''], [b'ATGGC'], [b'', b'CATGG', b'']):
		vs = [dict(omask=o, pseed=None, cseed=cs, w=w, crlf=crlf, fnl=fnl, gz=gz, ext=ext)
		      for o in (0, 3) for cs in (None, 'l') for w in (1, 5, 6) for crlf in (False, True) for fnl in (True, False)
		      for gz, ext in ((False, '.gz'), (True, '.fa'), (False, ''), (True, '.gz'))]
		ctx.count('stream:edge-genomes')
		yield 'genome', dict(k=2, prefix='AT', contigs=[s.hex() for s in contigs], titles=[], variants=vs)

	# ---- 3. random multi-contig genomes ------------------------------------------------------------------------
	for gi in range(ctx.pick(60, 400)):
		cli = rng.random() < 0.6
		k = rng.choice([5, 6, 7, 8, 11] if cli else [1, 2, 3, 4, 9, 12, 16])
		plen = rng.randint(2, 3) if cli else rng.randint(1, 4)
		p = bytes(rng.choice(b'ACGT') for _ in range(plen))
		n = rng.choice([2, 2, 3, 4, 5, 6, 8])
		contigs = []
		maxlen = ctx.pick(160, 300) if gi % 4 else 300
		for i in range(n):
			ln = rng.choice([0, 1, plen + k - 1, plen + k, plen + k + 1, rng.randint(10, 60), rng.randint(30, maxlen), maxlen])
			contigs.append(_rand_contig(rng, ln, p, k))
		# make the boundaries matter: contig i ends with the prefix, contig i+1 starts with k nucleotides
		for i in range(n - 1):
			if rng.random() < 0.6 and len(contigs[i]) >= plen and len(contigs[i + 1]) >= k:
				contigs[i] = contigs[i][:-plen] + p
				contigs[i + 1] = bytes(rng.choice(b'ACGT') for _ in range(k)) + contigs[i + 1][k:]
		titles = [_rand_title(rng) for _ in range(n)]
		full = (not ctx.quick) and gi % 5 == 0
		vs = _variants(ctx, rng, contigs, full=full, extra=ctx.pick(4, 12))
		ctx.count('stream:random-genomes')
		for i in range(0, len(vs), 200):
			yield 'genome', dict(k=k, prefix=p.decode(), contigs=[s.hex() for s in contigs], titles=[t.hex() for t in titles],
			                     variants=([vs[0]] if i else []) + vs[i:i + 200])

	# ---- 4. the text layer on well-formed and malformed text --------------------------------------------------
	fixed = [b'', b'\n', b'\r', b'\r\n', b'>', b'>\n', b'>a', b'>a\n', b'>a\r', b'ACGT', b'ACGT\n>a\nAC', b'\n>a\nAC', b' >a\nAC',
	         b';c\n>a\nAC', b'>a\nAC\n\n\nGT\n', b'>a\n\n>b\n\nAC\n', b'>a\nAC>b\nGT', b'>a\nAC\n >b\nGT', b'>a\rAC\rGT\r>b\rTT',
	         b'>a\r\nAC\r\nGT', b'>a\r\r\nAC\n\rGT', b'>a \t\nA C\tG T \n', b'>a\x0c\x1c\nAC\x0cGT\x0b\n', b'>a\nAC\x00GT\n',
	         b'>>a\n>\n>\nA\n', b'>a\nAC\r', b'>a\nAC\r\n\r\n', b'>a\n' + b'ACGT' * 100 + b'\n>b\n' + b'T' * 333]
	for t in fixed:
		for gz, ext in ((False, '.fa'), (True, '.fa'), (False, '.gz'), (True, '')):
			ctx.count('stream:parse-fixed')
			yield 'parse', dict(text=t.hex(), gz=gz, ext=ext)
	alpha = [b'>', b'\n', b'\r', b'\r\n', b' ', b'\t', b'A', b'c', b'N', b'>x', b'AC', b'\n>', b'\x0b', b'-']
	for _ in range(ctx.pick(1500, 12000)):
		t = b''.join(rng.choice(alpha) for _ in range(rng.randint(0, 14)))
		if rng.random() < 0.7:
			t = b'>' + t
		ctx.count('stream:parse-random')
		yield 'parse', dict(text=t.hex(), gz=rng.random() < 0.3, ext=rng.choice(EXTS))

	# ---- 5. compression detection under arbitrary names ----------------------------------------------------------
	fa = b'>s1 test\nACGTTGCA\nATAT\n'
	gzfa = gzip.compress(fa, mtime=0)
	blobs = [b'', b'\x1f', b'\x8b', b'\x1f\x8b', b'\x8b\x1f', b'\x1f\x8c', b'\x1e\x8b', b'\x1f\x8b\x08', b'\x1f\x8bjunk that is not gzip',
	         b'>\x1f\x8b', b'\x1f>\x8b', gzfa[:10], gzfa[:-3], gzfa + gzfa, b'BZh91AY', b'PK\x03\x04', b'\xfd7zXZ\x00']
	for d in blobs:
		for ext in ('', '.gz', '.fa'):
			ctx.count('stream:open-fixed')
			yield 'open', dict(data=d.hex(), ext=ext)
	for ext in EXTS + ['.gzip', '.GZ', '.fa.bz2', '.z']:
		ctx.count('stream:open-names')
		yield 'open', dict(data=fa.hex(), ext=ext, orig=fa.hex())
		yield 'open', dict(data=gzfa.hex(), ext=ext, orig=fa.hex())
	for _ in range(ctx.pick(300, 3000)):
		d = bytes(rng.choice([0x1f, 0x8b, 0x3e, 0x41, 0x0a, 0x08, rng.randrange(256)]) for _ in range(rng.randint(0, 6)))
		ctx.count('stream:open-random')
		yield 'open', dict(data=d.hex(), ext=rng.choice(EXTS))

	# ==== streams added by the coverage audit (see the table in the module docstring) ================================
	yield from _audit_streams(ctx, rng)

	# ---- J. long contigs: lengths crossing 2^16, 2^20, 2^21, 2^22 and multiples of 2^20, occurrences planted at every offset
	#         around every multiple of 2^16 / 10^6 from either end (see _long_contig); judged without the model ---------------------
	yield from _long_streams(ctx, rng)


def _long_variants(rng, lens, nv, gzms):
	n = len(lens)
	vs = [dict(CANON), dict(CANON, omask=(1 << n) - 1, w=80, ext='.fasta')]
	ws = [60, 61, 70, 4095, 8192, 65536, 1 << 20, (1 << 20) - 10, max(lens) + 1]
	rng.shuffle(ws)
	for i in range(nv):
		gzm = rng.choice(gzms)
		vs.append(dict(omask=rng.getrandbits(n), pseed=rng.randrange(1 << 30) if i % 3 != 2 else None,
		               cseed=[f'b{rng.randrange(1 << 30)}', 'l', None, 'u'][i % 4], w=ws[i % len(ws)], crlf=i % 2 == 0, fnl=i % 3 != 0,
		               gz=i % 2 == 1 or rng.random() < 0.3, gzm=gzm, gzseed=rng.randrange(1 << 30), ext=EXTS[(i + 2) % len(EXTS)]))
	return vs


def _long_case(rng, ln):
	"""case of the planted occurrences of a long contig: all upper, every third lower, lower from / up to an offset near a power of two"""
	r = rng.random()
	if r < 0.4:
		return {}
	if r < 0.6:
		return dict(lc=True)
	x = rng.choice([1 << 16, 1 << 20, (1 << 20) + 100, ln // 2, ln - 100, 1 << 17, 1 << 21])
	return dict(lcfrom=x) if r < 0.85 else dict(lcto=x)


def _long_streams(ctx, rng):
	M = 1 << 20
	# default k-mer spec, non-matching background: one contig per ladder phase b, every one crossing 2^20
	k, p = 11, b'ATGAC'
	T = len(p) + k
	# one contig per ladder phase (16 for the default spec), each more than 100 letters away from a multiple of 2^20 so that
	# neither the ladder across 2^20 nor its mirror image is displaced by another plant
	full = [M + 100, M + rng.randint(100, 5000), M + rng.randint(100, 5000), M + 4096 + rng.randint(0, 20), M + 8192 - rng.randint(0, 20), M + (1 << 16) - 1,
	        M + (1 << 16) + 1, M + (1 << 16) + T, M + (1 << 17) + rng.randint(0, 40), M + 3 * (1 << 16) - rng.randint(0, T), M + rng.randint(100, M - 100),
	        M + rng.randint(100, M - 100), 10 ** 6 + M + rng.randint(0, 20), M + 10 ** 6 - T - rng.randint(0, 5), M + 12345, M + 10 ** 5]
	cross = [M + 1, M + 2, M + T - 1, M + T, M + T + 1, M + 2 * T + 3, 2 * M - 1, 2 * M + 1]             # just across a multiple of 2^20
	if not ctx.quick:
		full += [4 * M + 101, 3 * M + rng.randint(100, 300), 5 * M + 333, 2 * M + 10 ** 6, 3 * M - 200] + [M + rng.randint(100, 3 * M) for _ in range(11)]
		cross += [M + 3, M + 5, M + 11, M + 2 * T, 2 * M, 2 * M + T + 3, 4 * M - 1, 4 * M + 1, 3 * M - 2, 2 * M - T]
	rng.shuffle(full)
	cross = full + cross
	r0 = rng.randrange(2 * T)
	descs = [dict(id=i, len=ln, b=(r0 + i) % (2 * T), bg=rng.choice(['N', 'N', 'n', 'A']), **_long_case(rng, ln)) for i, ln in enumerate(cross)]
	small = [(1 << 16) - 1, 1 << 16, (1 << 16) + 1, (1 << 16) + T, M, T, T - 1, 1, (1 << 17) + 3] + ([] if ctx.quick else [M - 1, M - T])
	descs += [dict(id=len(cross) + i, len=ln, b=rng.randrange(2 * T), bg=rng.choice(['N', 'A', 'rand']), seed=rng.randrange(1 << 30)) for i, ln in enumerate(small)]
	rng.shuffle(descs)
	ctx.count('stream:long-contigs')
	yield 'long', dict(k=k, prefix=p.decode(), long=descs, variants=_long_variants(rng, [d['len'] for d in descs], ctx.pick(3, 9), [None, 'l1', 'l0', 'multi']),
	                   cli=dict(cores=rng.choice([None, 1, 2]), defaults=True))
	# other k-mer specs (array accumulator up to k = 11, set accumulator above), matching (random) backgrounds, lower case
	for gi in range(ctx.pick(1, 3)):
		# (2-letter prefixes match 16 times as often in a random background: thorough only)
		k, p = rng.choice([(12, b'GAT'), (13, b'ACGT'), (16, b'TTG'), (11, b'ATGAC'), (20, b'ATGAC'), (11, b'CAG')] + ([] if ctx.quick else [(15, b'AC'), (11, b'CA')]))
		T = len(p) + k
		lens = [4 * M + rng.choice([-2, 0, 3, T]), 2 * M + rng.randint(0, 2 * T), M + rng.randint(1, 2 * T), 3 * M - rng.randint(0, 9), (1 << 16) + rng.randint(0, T), M]
		if not ctx.quick and gi == 1:
			lens += [8 * M + 1, 6 * M - 1]
		rng.shuffle(lens)
		descs = [dict(id=i, len=ln, b=rng.randrange(2 * T), bg=rng.choice(['rand', 'randl', 'A', 'n', 'N']), seed=rng.randrange(1 << 30), **_long_case(rng, ln))
		         for i, ln in enumerate(lens)]
		ctx.count('stream:long-contigs')
		yield 'long', dict(k=k, prefix=p.decode(), long=descs, variants=_long_variants(rng, lens, ctx.pick(2, 6), ['l1', 'l0']),
		                   cli=dict(cores=rng.choice([None, 1, 2])) if gi % 2 else None)


NAMES = ['my genome.fa', 'génome.fasta', 'ゲノム.fna.gz', 'a.gz.fa', 'x.fa.gz.txt', 'UPPER.FASTA.GZ', 'noext', '.hidden', '-dash.fa',
         'semi;colon&amp.fa', 'quo\'te".fa', 'tab\tname.fa', 'a,b.fasta', '#hash.fa', 'very' + 'long' * 40 + '.fa', 'dot.', '..fa', 'star*.fa',
         'percent%20.fa', '[brackets].fa', 'gz', '.gz', 'file.GZ', 'file.bz2', 'file.zip', 'file.xz', '$HOME.fa', '~tilde.fa', 'back\\slash.fa',
         'file.gzip', 'file.fa.gz.gz', '1f8b']
IUPAC_ALPHA = b'ACGTACGTACGTacgtRYKMSWBDHVNrykmswbdhvn-'


def _genome(rng, k, p, n=None, maxlen=200, alpha=None):
	"""random multi-contig genome with boundary-sensitive joints (like stream 3)"""
	plen = len(p)
	n = n or rng.choice([2, 2, 3, 4, 6])
	contigs = []
	for i in range(n):
		ln = rng.choice([0, 1, plen + k - 1, plen + k, plen + k + 1, rng.randint(10, 60), rng.randint(30, maxlen), maxlen])
		s = _rand_contig(rng, ln, p, k)
		if alpha is not None:
			b = bytearray(s)
			for _ in range(rng.randint(1, 1 + ln // 8)):
				if ln:
					b[rng.randrange(ln)] = rng.choice(alpha)
			s = bytes(b)
		contigs.append(s)
	for i in range(n - 1):
		if rng.random() < 0.6 and len(contigs[i]) >= plen and len(contigs[i + 1]) >= k:
			contigs[i] = contigs[i][:-plen] + p
			contigs[i + 1] = bytes(rng.choice(b'ACGT') for _ in range(k)) + contigs[i + 1][k:]
	return contigs, [_rand_title(rng) for _ in range(n)]


def _kp(rng, ks=(5, 6, 7, 8, 11), plens=(2, 3)):
	k = rng.choice(ks)
	return k, bytes(rng.choice(b'ACGT') for _ in range(rng.choice(plens)))


def _base_variant(rng, n, contigs, **kw):
	mx = max([len(s) for s in contigs] + [1])
	v = dict(omask=rng.getrandbits(max(n, 1)) if rng.random() < 0.8 else 0,
	         pseed=rng.randrange(1 << 30) if rng.random() < 0.8 else None,
	         cseed=rng.choice([None, 'u', 'l', rng.randrange(1 << 30), rng.randrange(1 << 30)]),
	         w=rng.choice([1, 2, 3, 60, 80, mx, mx + 1, rng.randint(1, mx + 1)]), crlf=rng.random() < 0.5, fnl=rng.random() < 0.5,
	         gz=rng.random() < 0.5, ext=rng.choice(EXTS))
	v.update(kw)
	return v


def _case(k, p, contigs, titles, vs, **kw):
	return dict(k=k, prefix=p.decode(), contigs=[s.hex() for s in contigs], titles=[t.hex() for t in titles], variants=vs, **kw)


def _rand_prefix(rng, n):
	return bytes(rng.choice(b'ACGT') for _ in range(n))


def _hist_step(rng, k, p):
	"""one earlier call: a well-formed or failing read of ANOTHER genome, with the k-mer spec of B or another one"""
	r = rng.random()
	if r < 0.7:
		sk, sp = k, p
	elif r < 0.82:
		sk, sp = k, _rand_prefix(rng, rng.choice([2, 3]))          # same k (same accumulator size), another prefix
	else:
		sk, sp = rng.choice([5, 7, 11, 12, 16]), (p if rng.random() < 0.5 else _rand_prefix(rng, rng.choice([2, 3])))
	via = rng.choice(['file', 'file', 'file', 'sig', 'files-none', 'files-none', 'files-threads1', 'files-exec', 'files-exec'])
	if rng.random() < 0.04:
		via = 'cli'
	st = dict(via=via, k=sk, prefix=sp.decode())
	fail = None
	if rng.random() < 0.62:
		if via == 'sig':
			mode = rng.choice(['interrupt', 'interrupt', 'bad-item'])
		else:
			mode = rng.choice(['gz-trunc'] * 5 + ['gz-crc', 'gz-crc', 'gz-flip', 'bad-byte', 'bad-byte', 'dir', 'missing']
			                  + (['interrupt'] * 3 if via != 'cli' else []))
		fail = dict(mode=mode)
	mode = fail and fail['mode']
	if mode == 'bad-byte' or (mode in GZ_FAILS and rng.random() < 0.15):
		# beyond the 8 KiB text chunk: a decoding error shows only after whole records were delivered
		lens = [rng.randint(1500, 4000) for _ in range(rng.randint(3, 5))]
		st['gen'] = dict(seed=rng.randrange(1 << 30), lens=lens, alpha=rng.choice(['ACGT', 'ACGTacgtN']))
		n = len(lens)
		contigs = [b'x' * 80] * n
	else:
		contigs, _ = _genome(rng, sk, sp, n=rng.choice([2, 3, 4, 6]), maxlen=200)
		st['contigs'] = [s.hex() for s in contigs]
		n = len(contigs)
	st['layout'] = _base_variant(rng, n, contigs, gzm=rng.choice([None, None, None, 'l1', 'l0', 'fname', 'multi', 'bgzf']), gzseed=rng.randrange(1 << 30))
	if mode == 'gz-trunc':
		fail['cut'] = rng.choice([round(rng.uniform(0.3, 0.99), 3)] * 3 + [-1, -4, -8, -9, -12])
	elif mode == 'gz-flip':
		fail['at'] = round(rng.random(), 3)
	elif mode == 'bad-byte':
		fail.update(at=round(rng.uniform(0.72, 0.999), 4), byte=rng.choice([0xff, 0xc3, 0x80, 0xfe, 0xe9]))
	elif mode in ('interrupt', 'bad-item'):
		fail.update(after=rng.choice([1, max(1, n - 1), rng.randint(0, n)]), exc=rng.choice(sorted(HIST_EXC)))
	st['fail'] = fail
	if via in ('file', 'sig') and rng.random() < 0.22:
		st['acc'] = 'array' if sk <= 11 and rng.random() < 0.6 else 'set'
	if via.startswith('files') or via == 'cli' or via == 'sig':
		st['lead'] = rng.choice([0, 0, 1, 2])
	if via != 'sig' and mode not in ('dir', 'missing') and rng.random() < 0.15:
		st['samepath'] = True
	return st


def _audit_streams(ctx, rng):
	cli_forms = [dict(mode=m, cores=c) for m in ('args', 'list', 'ldir') for c in (None, 1, 3)]

	# ---- A. gzip flavours: levels, stored, FNAME (gzip(1)), all header fields, multi-member, BGZF ------------------
	for gi in range(ctx.pick(14, 60)):
		k, p = _kp(rng)
		contigs, titles = _genome(rng, k, p)
		vs = [dict(CANON)]
		for m in GZMODES:
			for _ in range(2):
				vs.append(_base_variant(rng, len(contigs), contigs, gz=True, gzm=m, gzseed=rng.randrange(1 << 30)))
		ctx.count('stream:gzip-flavours')
		yield 'genome', _case(k, p, contigs, titles, vs, cli=cli_forms[gi % len(cli_forms)])
	fa = b'>s1 test\r\nACGTTGCA\r\nATAT\r\n>s2\r\nGGATGACCA\r\n'
	for m in GZMODES:
		for seed in range(ctx.pick(3, 12)):
			for ext in ('', '.fa', '.gz'):
				ctx.count('stream:open-flavours')
				yield 'open', dict(data=gz_blob(fa, m, seed).hex(), ext=ext, orig=fa.hex())

	# ---- B. ragged layouts: per-record or per-line widths and line endings ---------------------------------------------
	for gi in range(ctx.pick(14, 60)):
		k, p = _kp(rng, ks=(2, 3, 5, 6, 7, 9, 12), plens=(1, 2, 3))
		contigs, titles = _genome(rng, k, p)
		vs = [dict(CANON)]
		for i in range(10):
			vs.append(_base_variant(rng, len(contigs), contigs, rag=rng.randrange(1 << 30), ragmode=('rec', 'line')[i % 2],
			                        gzm=rng.choice([None, None] + GZMODES)))
		ctx.count('stream:ragged-layout')
		yield 'genome', _case(k, p, contigs, titles, vs)

	# ---- C. reverse complement as real tools write it (ambiguity codes complemented), rich alphabets -----------------
	for gi in range(ctx.pick(12, 50)):
		k, p = _kp(rng, ks=(3, 5, 6, 7, 8), plens=(1, 2, 3))
		contigs, titles = _genome(rng, k, p, alpha=IUPAC_ALPHA)
		n = len(contigs)
		vs = [dict(CANON)]
		for i in range(10):
			vs.append(_base_variant(rng, n, contigs, iupac=True, omask=(rng.getrandbits(n) or 1) if i else (1 << n) - 1))
		ctx.count('stream:iupac-revcomp')
		yield 'genome', _case(k, p, contigs, titles, vs)

	# ---- D. unusual file names (spaces, non-ASCII, misleading or upper-case extensions, shell characters) ---------------
	for gi in range(ctx.pick(8, 30)):
		k, p = _kp(rng)
		contigs, titles = _genome(rng, k, p)
		vs = [dict(CANON)]
		for name in rng.sample(NAMES, 12):
			vs.append(_base_variant(rng, len(contigs), contigs, name=name, ext=os.path.splitext(name)[1].lower() if name not in ('.gz', '.hidden') else name,
			                        gzm=rng.choice([None, 'fname', 'multi'])))
		ctx.count('stream:unusual-names')
		yield 'genome', _case(k, p, contigs, titles, vs, cli=cli_forms[(gi * 4 + 1) % len(cli_forms)])

	# ---- E. CLI forms: default k-mer spec (no -k/-p), k > 11 (set accumulator, uint32/uint64), longer prefixes,
	#         list files, --ldir, no -c / -c 1 / -c 3 (the CLI refuses k < 5 and 1-letter prefixes) ---------------------------------------------------------------------
	grid = [(11, b'ATGAC', True)] * 4 + [(k, None, False) for k in (5, 10, 12, 13, 16, 17, 20, 31, 32)]
	for gi, (k, p, dflt) in enumerate(grid * ctx.pick(1, 3)):
		if p is None:
			p = bytes(rng.choice(b'ACGT') for _ in range(rng.choice([2, 2, 3, 4, 6])))
		contigs, titles = _genome(rng, k, p, maxlen=300)
		vs = [dict(CANON)] + [_base_variant(rng, len(contigs), contigs, gzm=rng.choice([None, 'fname'])) for _ in range(7)]
		ctx.count('stream:cli-forms')
		yield 'genome', _case(k, p, contigs, titles, vs, cli=dict(cli_forms[(gi * 2) % len(cli_forms)], defaults=dflt))

	# ---- F. repeated contigs: duplicates, a contig together with its reverse complement, many contigs -------------------
	for gi in range(ctx.pick(10, 40)):
		k, p = _kp(rng)
		contigs, titles = _genome(rng, k, p, n=rng.choice([2, 3, 5]), maxlen=80)
		m = rng.choice([2, 3, 8, 30])
		for _ in range(m):
			s = rng.choice(contigs)
			r = rng.random()
			contigs.append(s if r < 0.4 else _rc(s) if r < 0.7 else s.swapcase() if r < 0.85 else s[:len(s) // 2])
			titles.append(rng.choice(titles) if rng.random() < 0.5 else _rand_title(rng))    # duplicate titles too
		vs = [dict(CANON)] + [_base_variant(rng, len(contigs), contigs) for _ in range(8)]
		ctx.count('stream:repeated-contigs')
		yield 'genome', _case(k, p, contigs, titles, vs)

	# ---- G. large genomes (beyond every I/O buffer; judged without the model): long contigs, many contigs ---------------
	big = [
		(7, b'AT', [70000, 20011, 8192, 300], 'ACGT'),
		(11, b'ATGAC', [131072 + 5, 4096, 65536], 'ACGTacgtN'),
		(9, b'GC', [rng.randint(40, 700) for _ in range(ctx.pick(150, 600))], 'ACGT'),
	]
	if not ctx.quick:
		big += [(11, b'ATGAC', [1 << 20, 300000], 'ACGT'), (5, b'T', [rng.randint(8000, 9000) for _ in range(40)], 'ACGTN')]
	for gi, (k, p, lens, alpha) in enumerate(big):
		n = len(lens)
		mx = max(lens)
		vs = [dict(CANON)]
		layouts = [(1, True, None), (1, False, 'l1'), (3, True, 'multi-eol'), (60, True, 'bgzf'), (61, True, None), (80, False, 'fname'),
		           (4095, True, 'multi'), (8190, True, None), (8191, True, 'l0'), (8192, False, None), (65536, True, 'multi-eol'), (mx + 1, True, 'hdr')]
		for i, (w, crlf, gzm) in enumerate(layouts):
			vs.append(dict(omask=rng.getrandbits(n), pseed=rng.randrange(1 << 30) if i % 3 else None,
			               cseed=rng.choice([None, 'u', 'l', rng.randrange(1 << 30)]), w=w, crlf=crlf, fnl=bool(i % 2),
			               gz=gzm is not None or i % 4 == 0, gzm=gzm, gzseed=rng.randrange(1 << 30), ext=EXTS[i % len(EXTS)]))
		vs.append(_base_variant(rng, n, [b'x' * 90], rag=rng.randrange(1 << 30), ragmode='line', gz=False))
		vs.append(_base_variant(rng, n, [b'x' * 90], rag=rng.randrange(1 << 30), ragmode='rec', gz=True, gzm='multi-eol'))
		ctx.count('stream:large-genomes')
		yield 'genome', dict(k=k, prefix=p.decode(), gen=dict(seed=rng.randrange(1 << 30), lens=lens, alpha=alpha), titles=[], variants=vs,
		                     cli=dict(cli_forms[gi % len(cli_forms)], defaults=(k, p) == (11, b'ATGAC')))

	# ---- H. call forms of the API and `gambit dist` on the same files ------------------------------------------------------
	for gi in range(ctx.pick(24, 100)):
		k, p = _kp(rng, ks=(1, 3, 5, 6, 7, 8, 9, 11, 12, 16, 17, 31, 32), plens=(1, 2, 3, 5))
		contigs, titles = _genome(rng, k, p)
		other, _ = _genome(rng, k, p, n=2, maxlen=120)
		vs = [dict(CANON)] + [_base_variant(rng, len(contigs), contigs, gzm=rng.choice([None, 'fname', 'multi', 'bgzf']),
		                                    **(dict(name=rng.choice(NAMES)) if rng.random() < 0.3 else {})) for _ in range(3)]
		ctx.count('stream:call-forms')
		yield 'forms', _case(k, p, contigs, titles, vs, other=[s.hex() for s in other], dist_cores=rng.choice([None, 1, 2]))

	# ---- I. history: genome B computed after earlier calls in the same process / thread (well-formed reads of other genomes,
	#         reads that fail part-way, caller accumulators left non-empty), through every entry point; both accumulator kinds ----
	for gi in range(ctx.pick(100, 500)):
		k = rng.choice([3, 5, 7, 8, 9, 11, 11] if gi % 2 == 0 else [12, 13, 16, 17, 31, 32])
		p = _rand_prefix(rng, rng.choice([1, 2, 2, 3, 3, 5]))
		contigs, titles = _genome(rng, k, p)
		vs = [dict(CANON), _base_variant(rng, len(contigs), contigs, gzm=rng.choice([None, 'fname', 'multi']))]
		history = [_hist_step(rng, k, p) for _ in range(rng.choice([1, 1, 2, 2, 3, 4, 5]))]
		entries = [e for e in HIST_ENTRIES if not e.startswith('cli') or gi % 5 == 0]
		ctx.count('stream:history')
		yield 'history', _case(k, p, contigs, titles, vs, history=history, entries=entries, min_contigs=min(2, len(contigs)))
