"""C06 -- a genome's signature depends only on its biological content.

Tie: B against gambit.sigs.calc.calc_file_signature (SequenceFile(path, 'fasta', 'auto'), the mode every CLI
command uses) and the CLI `gambit signatures create -k K -p PREFIX -o out.gs FILES...` on files the harness
writes: every variant (per-contig orientation x contig order x case pattern x line width x LF/CRLF x final
newline x gzip x file extension) of one genome must give the identical signature, equal to the extracted
specification [signature_spec] (op 103) of the contig list and to the union of the per-contig signatures.
The text layer of the model (universal newlines + FastaIterator, Model/C06Fasta.v) and the compression
detection (Model/C06Gzip.v) are compared with SequenceFile.parse / open_compressed on well-formed and
malformed content."""
import gzip
import io
import itertools
import os
import random

import numpy as np

PROP = 'C06'
RULE = ('genome: (k, prefix, contigs, variants) -> for every variant file calc_file_signature == signature_spec(contigs) '
        '== union of per-contig calc_signature (== model of the whole file pipeline), plus the CLI on the same files; '
        'non-trivial: >= 2 contigs, non-empty signature, and the variant differs from the canonical file in orientation, '
        'order, case, layout or compression | parse: model parse_fasta vs SequenceFile.parse sequences (or ValueError) | '
        'open: model is_gzip_magic/open_auto vs guess_compression/open_compressed(...,"auto") under arbitrary file names')
TRUSTED = ['hand model of io.TextIOWrapper(newline=None) and Biopython 1.88 FastaIterator on ASCII text (Model/C06Fasta.v), '
           'validated against SequenceFile.parse on every run, not verified',
           'zlib/gzip: Section variable gunzip with hypotheses gunzip(gzip x) = x and gzip x starts with 1f 8b; the '
           'harness checks both hypotheses on every compressed file it writes',
           'C01 (Props/C01.v): model of calc_signature = signature_spec; tools/pyx2v.py for the encoders']
ASSUMPTIONS = ['file content is ASCII (decoding is the identity; other bytes depend on the locale encoding)',
               'sequence bytes are not space/tab/CR/LF/">" and titles contain no CR/LF (wf_contig, checked on every generated genome)',
               'prefix is non-empty upper-case ACGT, k >= 1 (KmerSpec validates it); the CLI is exercised for k >= 5, prefix length >= 2',
               'the file is opened with compression="auto" as every CLI command does (SequenceFile\'s own default None means "none")']

_TR = bytes.maketrans(b'ACGTacgt', b'TGCAtgca')
EXTS = ['.fa', '.fasta', '.fasta.gz', '.gz', '', '.fna', '.txt', '.fa.gz']
_dir = None
_n = 0


def setup(ctx):
	global _dir
	from vf import impl
	impl.check_import()
	_dir = impl.scratch_dir('gambit-verif-c06-')


def _rc(b):
	return bytes(b).translate(_TR)[::-1]


def _recase(b, cseed):
	"""case pattern of a contig: None keep, 'u' upper, 'l' lower, int -> per-byte random choice"""
	if cseed is None:
		return b
	if cseed == 'u':
		return b.upper()
	if cseed == 'l':
		return b.lower()
	r = random.Random(cseed)
	return bytes((c ^ 0x20) if (65 <= (c & ~0x20) <= 90 and r.random() < 0.5) else c for c in b)


def apply_variant(contigs, titles, v):
	"""-> list of (title, seq) written for this variant"""
	out = []
	for i, (t, s) in enumerate(zip(titles, contigs)):
		if (v.get('omask', 0) >> i) & 1:
			s = _rc(s)
		cs = v.get('cseed')
		s = _recase(s, cs if not isinstance(cs, int) else cs + i)
		out.append((t, s))
	if v.get('pseed') is not None:
		random.Random(v['pseed']).shuffle(out)
	return out


def render(recs, w, crlf, fnl):
	"""the harness's own FASTA writer"""
	e = b'\r\n' if crlf else b'\n'
	lines = []
	for t, s in recs:
		lines.append(b'>' + t)
		lines.extend(s[i:i + w] for i in range(0, len(s), w))
	data = e.join(lines)
	if lines and fnl:
		data += e
	return data


def _wf(recs):
	return all(not (set(t) & {10, 13}) and not (set(s) & {32, 9, 13, 10, 62}) for t, s in recs)


def _path(ext):
	global _n
	_n += 1
	return os.path.join(_dir, f'g{_n:06d}{ext}')


def _msig(ans):
	"""model answer of op 606 -> (list, itemsize) or error name"""
	if ans[0] == 0:
		return (ans[1][0], ans[1][1][0] if ans[1][1] else None)
	return {3: 'ValueError', 10: 'BadGzip'}.get(ans[1], f'err{ans[1]}')


CANON = dict(omask=0, pseed=None, cseed=None, w=60, crlf=False, fnl=True, gz=False, ext='.fa')


def _vdesc(v):
	return {k: v.get(k) for k in ('omask', 'pseed', 'cseed', 'w', 'crlf', 'fnl', 'gz', 'ext')}


def k_genome(ctx, cases):
	from gambit.kmers import KmerSpec
	from gambit.seq import SequenceFile
	from gambit.sigs.calc import calc_file_signature, calc_signature
	from gambit.sigs.base import load_signatures
	from click.testing import CliRunner
	import gambit.cli

	reqs = []
	plan = []
	for c in cases:
		contigs = [bytes.fromhex(h) for h in c['contigs']]
		titles = [bytes.fromhex(h) for h in c.get('titles', [])]
		titles += [b'c%d' % i for i in range(len(titles), len(contigs))]
		titles = titles[:len(contigs)]
		p = c['prefix'].encode()
		k = c['k']
		base = len(reqs)
		reqs.append((103, [k, p, contigs]))
		reqs.append((103, [k, p, [b''.join(contigs)]]))
		for s in contigs:
			reqs.append((103, [k, p, [s]]))
		files = []
		for v in c['variants']:
			recs = apply_variant(contigs, titles, v)
			data = render(recs, v['w'], v['crlf'], v['fnl'])
			reqs.append((604, [v['w'], v['crlf'], v['fnl'], [[t, s] for t, s in recs]]))
			reqs.append((606, [0, k, p, data]))
			reqs.append((607, [[t, s] for t, s in recs]))
			blob = gzip.compress(data, mtime=0) if v['gz'] else data
			reqs.append((605, blob))
			files.append((v, recs, data, blob))
		plan.append((c, contigs, titles, base, files))
	ans = ctx.model(reqs) if ctx.model_ok else None

	for c, contigs, titles, base, files in plan:
		k, p = c['k'], c['prefix']
		kspec = KmerSpec(k, p)
		n = len(contigs)
		if ans is not None:
			spec = ans[base]
			joined = ans[base + 1]
			per = ans[base + 2:base + 2 + n]
			union = sorted(set(itertools.chain.from_iterable(per)))
			if union != spec:
				ctx.broke('specification: signature_spec(contigs) is the union of the per-contig sets (C06_union)',
				          f'{c}: union {union[:20]} spec {spec[:20]}')
		else:
			spec = joined = None
		# union of the implementation's per-contig signatures
		iu = np.array([], dtype=np.uint64)
		for s in contigs:
			iu = np.union1d(iu, calc_signature(kspec, s).astype(np.uint64))
		iu = [int(x) for x in iu]
		expect = spec if spec is not None else iu
		paths = []
		bad = False
		for j, (v, recs, data, blob) in enumerate(files):
			if v['gz'] and (blob[:2] != b'\x1f\x8b' or gzip.decompress(blob) != data):
				ctx.broke('assumption: gunzip(gzip x) = x and gzip x starts with 1f 8b', f'{len(data)} bytes')
			path = _path(v['ext'])
			with open(path, 'wb') as f:
				f.write(blob)
			paths.append(path)
			try:
				sig = calc_file_signature(kspec, SequenceFile(path, 'fasta', 'auto'))
				got = ([int(x) for x in sig], sig.dtype.itemsize if sig.dtype.kind == 'u' else -sig.dtype.itemsize)
			except Exception as e:  # noqa
				got = (type(e).__name__ + ': ' + str(e)[:80], None)
			nontriv = n >= 2 and len(expect) > 0 and _vdesc(v) != CANON
			ctx.case(dict(k=k, prefix=p, contigs=n, total=sum(map(len, contigs)), nsig=len(expect), **_vdesc(v),
			              boundary_sensitive=(joined != spec) if spec is not None else None),
			         nontrivial=nontriv)
			ctx.count('ext:' + (v['ext'] or '(none)') + (' gz' if v['gz'] else ' plain'))
			if spec is not None and joined != spec:
				ctx.count('boundary-sensitive variant')
			one = dict(c, variants=[v])
			if not _wf(recs):
				ctx.broke('harness: generated contigs are not well-formed', str(one)[:300])
				continue
			if got[0] != expect:
				what = (f'signature of the file written as {_vdesc(v)} is {str(got[0])[:120]} but the set of prefix-anchored '
				        f'k-mers of the {n} contigs is {expect[:30]}')
				ctx.violation('genome', one, what, impl=got[0], spec=expect, file=blob if len(blob) < 600 else blob[:600])
				bad = True
				continue
			if got[0] != iu:
				ctx.violation('genome', one, f'file signature {got[0][:30]} is not the union of the per-contig signatures {iu[:30]}',
				              impl=got[0], union=iu)
				bad = True
				continue
			if ans is not None:
				o = base + 2 + n + 4 * j
				if bytes(ans[o]) != data:
					ctx.broke('correspondence render (harness writer vs render_fasta)', f'{_vdesc(v)}: {data[:60]!r} vs {bytes(ans[o])[:60]!r}')
				if ans[o + 2] != 1:
					ctx.broke('model wf_contig rejects a generated genome', str(one)[:300])
				if ans[o + 3] != (1 if v['gz'] else 0):
					ctx.broke('correspondence open (is_gzip_magic on a written file)', f'{_vdesc(v)}')
				m = _msig(ans[o + 1])
				if m != got:
					ctx.broke('correspondence file (model text_signature vs calc_file_signature)', f'{one}: impl {str(got)[:200]} model {str(m)[:200]}')
		# the CLI on the same files
		if files and not bad and k >= 5 and len(p) >= 2:
			sel = list(range(len(paths)))
			if len(sel) > 48:
				sel = sel[:8] + sorted(random.Random(len(paths)).sample(sel[8:], 40))
			out = _path('.gs')
			r = CliRunner().invoke(gambit.cli.cli, ['signatures', 'create', '--no-progress', '-c', '2', '-k', str(k), '-p', p, '-o', out]
			                       + [paths[i] for i in sel])
			ctx.count('cli invocations')
			if r.exit_code != 0:
				ctx.violation('genome', dict(c, variants=[files[i][0] for i in sel]),
				              f'gambit signatures create failed on {len(sel)} variant files of one genome: {r.exception!r} {r.output[:200]}',
				              impl=repr(r.exception), spec=expect)
			else:
				sigs = load_signatures(out)
				for i, sig in zip(sel, sigs):
					ctx.count('cli signatures')
					lst = [int(x) for x in sig]
					if lst != expect:
						v = files[i][0]
						ctx.violation('genome', dict(c, variants=[v]),
						              f'gambit signatures create: signature of the file written as {_vdesc(v)} is {lst[:30]} but the '
						              f'k-mer set of the contigs is {expect[:30]}', impl=lst, spec=expect)
						break
				if hasattr(sigs, 'close'):
					sigs.close()
			try:
				os.unlink(out)
			except OSError:
				pass
		for path in paths:
			try:
				os.unlink(path)
			except OSError:
				pass


def _impl_parse(path):
	from gambit.seq import SequenceFile
	try:
		with SequenceFile(path, 'fasta', 'auto').parse() as recs:
			return [bytes(r.seq) for r in recs]
	except ValueError:
		return 'ValueError'
	except Exception:  # noqa  (OSError / EOFError / zlib.error from the decompressor)
		return 'BadGzip'


def k_parse(ctx, cases):
	reqs = [(603, bytes.fromhex(c['text'])) for c in cases]
	ans = ctx.model(reqs) if ctx.model_ok else None
	for i, c in enumerate(cases):
		text = bytes.fromhex(c['text'])
		blob = gzip.compress(text, mtime=0) if c.get('gz') else text
		path = _path(c.get('ext', '.fa'))
		with open(path, 'wb') as f:
			f.write(blob)
		got = _impl_parse(path)
		os.unlink(path)
		ctx.case(c if len(text) < 100 else dict(n=len(text), gz=c.get('gz'), ext=c.get('ext')),
		         nontrivial=isinstance(got, list) and len(got) >= 2 or got == 'ValueError')
		if ans is None:
			continue
		m = [bytes(r[1]) for r in ans[i][1]] if ans[i][0] == 0 else 'ValueError'
		if m != got:
			ctx.broke('correspondence parse (parse_fasta vs SequenceFile.parse sequences)',
			          f'{c}: impl {str(got)[:300]} model {str(m)[:300]}')


def k_open(ctx, cases):
	from gambit.util.io import guess_compression, open_compressed
	reqs = [(605, bytes.fromhex(c['data'])) for c in cases]
	ans = ctx.model(reqs) if ctx.model_ok else None
	for i, c in enumerate(cases):
		data = bytes.fromhex(c['data'])
		path = _path(c.get('ext', ''))
		with open(path, 'wb') as f:
			f.write(data)
		g = guess_compression(io.BytesIO(data))
		try:
			f = open_compressed(path, 'rb', 'auto')
			try:
				got = f.read()
			finally:
				f.close()
		except Exception:  # noqa  (OSError / EOFError / zlib.error from the decompressor)
			got = 'BadGzip'
		os.unlink(path)
		ctx.case(c if len(data) < 60 else dict(n=len(data), head=data[:4].hex(), ext=c.get('ext')), nontrivial=len(data) >= 2)
		if ans is None:
			continue
		magic = ans[i] == 1
		if (g == 'gzip') != magic:
			ctx.broke('correspondence open (guess_compression vs is_gzip_magic)', f'{c}: impl {g} model {magic}')
			continue
		# open_auto with gunzip := Python's gzip module
		if magic:
			try:
				want = gzip.decompress(data)
			except Exception:  # noqa
				want = 'BadGzip'
		else:
			want = data
		if got != want:
			what = f'content read through open_compressed(auto) from a file named *{c.get("ext", "")!r} differs from the model open_auto'
			if c.get('orig') is not None and want == bytes.fromhex(c['orig']):
				# a genuine FASTA (compressed or not) is not delivered as its content: the property fails
				ctx.violation('open', c, what, impl=got if isinstance(got, str) else got[:200], spec=want[:200])
			else:
				ctx.broke('correspondence open (open_compressed auto vs open_auto)', f'{c}: impl {str(got)[:100]} model {str(want)[:100]}')


KINDS = {'genome': k_genome, 'parse': k_parse, 'open': k_open}
BATCH = 12


# ---------------------------------------------------------------------------------------------------------
def _rand_title(rng):
	r = rng.random()
	if r < 0.15:
		return b''
	alpha = b'abcXYZ019 _|.:>-\t'
	t = bytes(rng.choice(alpha) for _ in range(rng.randint(1, 12)))
	if rng.random() < 0.3:
		t += rng.choice([b' ', b'\t', b'  ', b' \t '])
	return t


def _rand_contig(rng, ln, p, k):
	mode = rng.random()
	alpha = b'ACGT' if mode < 0.5 else (b'ACGTacgt' if mode < 0.75 else b'ACGTNacgtnRY-')
	b = bytearray(rng.choice(alpha) for _ in range(ln))
	# plant occurrences (either strand, either case), some flush with the ends
	for _ in range(rng.randint(0, 4)):
		if ln >= len(p):
			where = rng.choice([0, ln - len(p), rng.randrange(ln - len(p) + 1), max(0, ln - len(p) - k)])
			motif = p if rng.random() < 0.5 else _rc(p)
			if rng.random() < 0.3:
				motif = motif.lower()
			b[where:where + len(p)] = motif
	return bytes(b)


def _widths(ctx, rng, contigs, full):
	lens = sorted({len(s) for s in contigs if len(s)})
	mx = max(lens) if lens else 1
	if full:
		return list(range(1, mx + 2))
	ws = {1, 2, mx, mx + 1, 60, 80, max(1, mx - 1)}
	for ln in lens[:4]:
		for d in (2, 3, 4, 5, 7):
			if ln % d == 0:
				ws.add(ln // d)
				ws.add(d)
	ws.add(rng.randint(1, mx + 1))
	ws.add(rng.randint(1, mx + 1))
	return sorted(w for w in ws if w >= 1)


def _variants(ctx, rng, contigs, full=False, extra=0):
	n = len(contigs)
	vs = [dict(CANON)]
	ws = _widths(ctx, rng, contigs, full)
	for i, w in enumerate(ws + [rng.choice(ws) for _ in range(extra)]):
		vs.append(dict(
			omask=rng.getrandbits(max(n, 1)) if rng.random() < 0.8 else 0,
			pseed=rng.randrange(1 << 30) if rng.random() < 0.8 else None,
			cseed=rng.choice([None, 'u', 'l', rng.randrange(1 << 30), rng.randrange(1 << 30)]),
			w=w, crlf=rng.random() < 0.5, fnl=rng.random() < 0.5, gz=rng.random() < 0.5,
			ext=EXTS[(i + rng.randrange(2)) % len(EXTS)] if rng.random() < 0.9 else rng.choice(EXTS)))
	return vs


def generate(ctx):
	rng = ctx.rng
	ctx.rule(RULE)

	# ---- 1. small scope, exhaustive over the variant space -------------------------------------------------
	small = [
		(2, 'AT', [b'CAT', b'GCATtC'], [b'a', b'b ']),       # AT|GC would span the boundary
		(2, 'AT', [b'ATGCa', b'nATcc'], [b'1', b'']),
		(1, 'A', [b'ggcA', b'Ctt', b''], [b'x y', b'>', b'e']),  # empty contig, '>' in a title
		(3, 'GA', [b'GAtTcNGA', b'TTCGAA'], [b't\t', b'u']),
	]
	if not ctx.quick:
		small += [(2, 'AC', [b'ACACAC', b'GTGT'], [b'', b'']), (5, 'AT', [b'ATGGCAT', b'ATGCCAT', b'AT'], [b'p', b'q', b'r'])]
	nsmall = 0
	for k, p, contigs, titles in small:
		n = len(contigs)
		mx = max(map(len, contigs))
		perms = [None] + list(range(1, 4 if n > 2 else 2))
		vs = []
		for omask in range(1 << n):
			for pseed in perms:
				for cseed in (None, 'u', 'l', 7):
					for w in range(1, mx + 2):
						for crlf in (False, True):
							for fnl in (True, False):
								for gz in (False, True):
									vs.append(dict(omask=omask, pseed=pseed, cseed=cseed, w=w, crlf=crlf, fnl=fnl, gz=gz,
									               ext=EXTS[((len(vs) * 2654435761) >> 9) % len(EXTS)]))
		nsmall += len(vs)
		for i in range(0, len(vs), 400):
			yield 'genome', dict(k=k, prefix=p, contigs=[s.hex() for s in contigs], titles=[t.hex() for t in titles],
			                     variants=vs[i:i + 400])
	ctx.count('stream:small-exhaustive-variants', nsmall)
	ctx.exhaustive = True
	ctx.extra['exhaustive_scope'] = (f'{len(small)} hand-built boundary-sensitive genomes x all orientation masks x identity + 1..3 shuffles x '
	                                 '{keep, upper, lower, mixed} case x every width 1..maxlen+1 x LF/CRLF x final newline x gzip, '
	                                 'extensions cycled over ' + ' '.join(repr(e) for e in EXTS))

	# ---- 2. zero contigs / single contig / empty sequences ---------------------------------------------------
	for contigs in ([], [b''], [b'', b''], [b'ATGGC'], [b'', b'CATGG', b'']):
		vs = [dict(omask=o, pseed=None, cseed=cs, w=w, crlf=crlf, fnl=fnl, gz=gz, ext=ext)
		      for o in (0, 3) for cs in (None, 'l') for w in (1, 5, 6) for crlf in (False, True) for fnl in (True, False)
		      for gz, ext in ((False, '.gz'), (True, '.fa'), (False, ''), (True, '.gz'))]
		ctx.count('stream:edge-genomes')
		yield 'genome', dict(k=2, prefix='AT', contigs=[s.hex() for s in contigs], titles=[], variants=vs)

	# ---- 3. random multi-contig genomes ------------------------------------------------------------------------
	for gi in range(ctx.pick(60, 400)):
		cli = rng.random() < 0.6
		k = rng.choice([5, 6, 7, 8, 11] if cli else [1, 2, 3, 4, 9, 12, 16])
		plen = rng.randint(2, 3) if cli else rng.randint(1, 4)
		p = bytes(rng.choice(b'ACGT') for _ in range(plen))
		n = rng.choice([2, 2, 3, 4, 5, 6, 8])
		contigs = []
		maxlen = ctx.pick(160, 300) if gi % 4 else 300
		for i in range(n):
			ln = rng.choice([0, 1, plen + k - 1, plen + k, plen + k + 1, rng.randint(10, 60), rng.randint(30, maxlen), maxlen])
			contigs.append(_rand_contig(rng, ln, p, k))
		# make the boundaries matter: contig i ends with the prefix, contig i+1 starts with k nucleotides
		for i in range(n - 1):
			if rng.random() < 0.6 and len(contigs[i]) >= plen and len(contigs[i + 1]) >= k:
				contigs[i] = contigs[i][:-plen] + p
				contigs[i + 1] = bytes(rng.choice(b'ACGT') for _ in range(k)) + contigs[i + 1][k:]
		titles = [_rand_title(rng) for _ in range(n)]
		full = (not ctx.quick) and gi % 5 == 0
		vs = _variants(ctx, rng, contigs, full=full, extra=ctx.pick(4, 12))
		ctx.count('stream:random-genomes')
		for i in range(0, len(vs), 200):
			yield 'genome', dict(k=k, prefix=p.decode(), contigs=[s.hex() for s in contigs], titles=[t.hex() for t in titles],
			                     variants=([vs[0]] if i else []) + vs[i:i + 200])

	# ---- 4. the text layer on well-formed and malformed text --------------------------------------------------
	fixed = [b'', b'\n', b'\r', b'\r\n', b'>', b'>\n', b'>a', b'>a\n', b'>a\r', b'ACGT', b'ACGT\n>a\nAC', b'\n>a\nAC', b' >a\nAC',
	         b';c\n>a\nAC', b'>a\nAC\n\n\nGT\n', b'>a\n\n>b\n\nAC\n', b'>a\nAC>b\nGT', b'>a\nAC\n >b\nGT', b'>a\rAC\rGT\r>b\rTT',
	         b'>a\r\nAC\r\nGT', b'>a\r\r\nAC\n\rGT', b'>a \t\nA C\tG T \n', b'>a\x0c\x1c\nAC\x0cGT\x0b\n', b'>a\nAC\x00GT\n',
	         b'>>a\n>\n>\nA\n', b'>a\nAC\r', b'>a\nAC\r\n\r\n', b'>a\n' + b'ACGT' * 100 + b'\n>b\n' + b'T' * 333]
	for t in fixed:
		for gz, ext in ((False, '.fa'), (True, '.fa'), (False, '.gz'), (True, '')):
			ctx.count('stream:parse-fixed')
			yield 'parse', dict(text=t.hex(), gz=gz, ext=ext)
	alpha = [b'>', b'\n', b'\r', b'\r\n', b' ', b'\t', b'A', b'c', b'N', b'>x', b'AC', b'\n>', b'\x0b', b'-']
	for _ in range(ctx.pick(1500, 12000)):
		t = b''.join(rng.choice(alpha) for _ in range(rng.randint(0, 14)))
		if rng.random() < 0.7:
			t = b'>' + t
		ctx.count('stream:parse-random')
		yield 'parse', dict(text=t.hex(), gz=rng.random() < 0.3, ext=rng.choice(EXTS))

	# ---- 5. compression detection under arbitrary names ----------------------------------------------------------
	fa = b'>s1 test\nACGTTGCA\nATAT\n'
	gzfa = gzip.compress(fa, mtime=0)
	blobs = [b'', b'\x1f', b'\x8b', b'\x1f\x8b', b'\x8b\x1f', b'\x1f\x8c', b'\x1e\x8b', b'\x1f\x8b\x08', b'\x1f\x8bjunk that is not gzip',
	         b'>\x1f\x8b', b'\x1f>\x8b', gzfa[:10], gzfa[:-3], gzfa + gzfa, b'BZh91AY', b'PK\x03\x04', b'\xfd7zXZ\x00']
	for d in blobs:
		for ext in ('', '.gz', '.fa'):
			ctx.count('stream:open-fixed')
			yield 'open', dict(data=d.hex(), ext=ext)
	for ext in EXTS + ['.gzip', '.GZ', '.fa.bz2', '.z']:
		ctx.count('stream:open-names')
		yield 'open', dict(data=fa.hex(), ext=ext, orig=fa.hex())
		yield 'open', dict(data=gzfa.hex(), ext=ext, orig=fa.hex())
	for _ in range(ctx.pick(300, 3000)):
		d = bytes(rng.choice([0x1f, 0x8b, 0x3e, 0x41, 0x0a, 0x08, rng.randrange(256)]) for _ in range(rng.randint(0, 6)))
		ctx.count('stream:open-random')
		yield 'open', dict(data=d.hex(), ext=rng.choice(EXTS))
