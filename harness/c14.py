"""C14 -- signatures built with different k-mer parameters are never compared silently.

Tie: B.  The real command line (`gambit.cli.cli`, in process through click's CliRunner) is run over the
option space that brings two signature sources together -- `dist` (3 kinds of query source x 5 kinds of
reference source x {no -k/-p, one of them, both} x parameter sets differing in k / prefix / both), `query`
(files / list / -s signature file x databases with different parameters, among them the repository's test
database), `tree`, `signatures create` (--db-params) -- and `common.kspec_from_params` directly.  For every
case the harness observes the exit status, the class of the error text, whether the output file exists, and
*which parameters the written numbers were computed with*: it owns the genomes, computes their k-mer sets
under every candidate parameter set with a 15-line pure-Python oracle, and identifies the (query, reference)
parameter pair whose Jaccard distances reproduce the output.  That observation is (a) fed to the extracted
property predicate `run_ok` (Spec/C14.v: both sides of the comparison equal; an error means non-zero status,
nothing compared, nothing written) together with the extracted declarative spec (`spec_dist`/`spec_query`:
differing sources must be refused), and (b) compared with the extracted model of the command
(Model/C14.v).  The query command is compared with the REPAIRED model (repo_fixes/C14.diff): on the command as
found `query -s` with foreign parameters is a VIOLATION (theorem C14_query_sigfile_refuted is its witness)."""
import itertools
import os
import re

PROP = 'C14'
RULE = ('dist/query/tree/create: one command line = (kind of query source, kind of reference source, parameter '
        'sets stored in the pre-computed sources / the database, -k, --prefix[, --db-params]); kspec: one '
        '(k, prefix, default) triple.  non-trivial: dist/query: at least two parameter sources are present '
        '(pre-computed signatures, database in use, explicit options); tree/create: explicit options or --db-params '
        'are present; kspec: exactly one of -k/--prefix, or a value at a validation boundary')
TRUSTED = ['harness/c14.py: synthetic genomes, the pure-Python k-mer/Jaccard oracle used to recognise which parameters '
           'an output was computed with (tolerance 1.01e-4, candidates checked to be >= 1e-3 apart), construction of '
           'signature files (dump_signatures) and of small databases (SQLAlchemy models) from the harness\'s own k-mer sets',
           'the commands are run with -c 1 and os.cpu_count() patched to 1 (one worker process per pool instead of 16; '
           'pools are C13\'s subject)',
           'click: option parsing, CliRunner, ClickException -> exit status 1 with "Error: <message>"; lazy opening of '
           'the query command\'s -o file',
           'gambit.sigs.load_signatures returns the parameters stored in the file; calc_file_signatures computes with '
           'the parameters it is given (C01/C12/C13 are about those)']
ASSUMPTIONS = ['signature files and databases given on the command line are loadable (C12 covers foreign files); '
               '--prefix values are ASCII; k <= 32',
               'the repaired query command (repo_fixes/C14.diff: ClickException when the -s file\'s parameters differ '
               'from the database\'s) is the algorithm the query theorems and the model comparison are about; the '
               'command as found is kept as query_cmd false with C14_query_sigfile_refuted',
               '`gambit tree -s FILE -k K -p P` ignores the options without checking them: one source only, outside the '
               'property\'s statement (which names the distance command); modelled as such and counted, not flagged',
               'the error class is compared with the model, but only exit status / output / compared parameters decide '
               'a property violation']
CORRESPONDENCES = ['kspec', 'dist', 'query', 'tree', 'create']
SHRINK = False
BATCH = 400

TOL = 1.01e-4
SEP = 1e-3

#: parameter sets: 0 = the test database's; 1 differs in k, 2 in prefix, 3 in both; 4 default; 5 longer prefix
PARAMS = [(6, 'AT'), (7, 'AT'), (6, 'AC'), (7, 'AC'), (11, 'ATGAC'), (6, 'ATG')]
NCORE = 4   # PARAMS[:NCORE] have databases
NFIXED = len(PARAMS)   # PARAMS[:NFIXED] have signature files; further sets are registered from explicit options

ERRCLASS = {3: 'nodb', 4: 'needboth', 5: 'mink', 6: 'minprefix', 7: 'badnuc', 31: 'query-ref', 32: 'opt-query',
            33: 'opt-ref', 34: 'dbparams-excl', 35: 'sig-db'}
MISMATCH = {'query-ref', 'opt-query', 'opt-ref', 'sig-db'}

S = {}   # fixtures


def errclass_of_code(c):
	if c is None:
		return None
	if 10 < c < 20:
		return 'exclusive'
	if 20 < c < 30:
		return 'required'
	return ERRCLASS.get(c, f'code{c}')


def errclass_of_text(text):
	m = re.search(r'Error: (.*)', text or '', re.S)
	if not m:
		return 'other'
	t = m.group(1)
	if '--db-params options are mutually exclusive' in t:
		return 'dbparams-excl'
	if 'are mutually exclusive' in t:
		return 'exclusive'
	if re.match(r'One of .* is required', t):
		return 'required'
	if 'Must supply path to database' in t:
		return 'nodb'
	if 'Must specify values for both' in t:
		return 'needboth'
	if 'k must be at least' in t:
		return 'mink'
	if 'Prefix length must be at least' in t:
		return 'minprefix'
	if 'Invalid nucleotide codes in prefix' in t:
		return 'badnuc'
	if re.search(r'do(es)? not match', t):
		if 'command line options' in t:
			return 'opt-query' if 'query signatures' in t else 'opt-ref'
		if 'database' in t:
			return 'sig-db'
		return 'query-ref'
	return 'other'


# ---- the harness's own genomes, k-mers, distances ------------------------------------------------
COMP = {'A': 'T', 'C': 'G', 'G': 'C', 'T': 'A'}


def revcomp(s):
	return ''.join(COMP[c] for c in reversed(s))


def kmer_set(seq, k, prefix):
	"""indices (base 4, A<C<G<T, first nucleotide most significant) of the k-mers following `prefix` on either strand"""
	out = set()
	n = len(prefix)
	for s in (seq, revcomp(seq)):
		i = s.find(prefix)
		while i >= 0:
			km = s[i + n:i + n + k]
			if len(km) == k:
				v = 0
				for c in km:
					v = v * 4 + 'ACGT'.index(c)
				out.add(v)
			i = s.find(prefix, i + 1)
	return out


def jaccard(a, b):
	u = len(a | b)
	return 0.0 if u == 0 else 1.0 - len(a & b) / u


def sigs_of(side, pi):
	"""k-mer sets of the query ('q') or reference ('r') genomes under PARAMS[pi] (memoised)"""
	key = (side, pi)
	if key not in S['sigs']:
		k, p = PARAMS[pi]
		S['sigs'][key] = [kmer_set(s, k, p) for _, s in S['genomes'][side]]
	return S['sigs'][key]


def dmat(qsets, rsets):
	return [[jaccard(a, b) for b in rsets] for a in qsets]


def close(m1, m2):
	return len(m1) == len(m2) and all(len(r1) == len(r2) and all(abs(x - y) <= TOL for x, y in zip(r1, r2))
	                                  for r1, r2 in zip(m1, m2))


def candidates(c=None):
	"""candidate parameter sets for recognising an output: the fixed ones plus the case's explicit options"""
	out = list(range(NFIXED))
	if c is not None and c.get('k') is not None and c.get('prefix') is not None:
		k, p = c['k'], c['prefix'].upper()
		if 1 <= k <= 32 and len(p) >= 1 and all(ch in 'ACGT' for ch in p):
			i = param_index(k, p)
			if i not in out:
				out.append(i)
	return out


def param_index(k, p):
	if (k, p) not in PARAMS:
		PARAMS.append((k, p))
	return PARAMS.index((k, p))


def make_genomes(rng):
	def rseq(n):
		return ''.join(rng.choice('ACGT') for _ in range(n))

	def mutate(s, r):
		return ''.join(rng.choice('ACGT') if rng.random() < r else c for c in s)
	base = rseq(9000)
	q = [(f'q{i + 1}', mutate(base, 0.01 + 0.012 * i)) for i in range(2)]
	r = [(f'r{i + 1}', mutate(base, 0.02 + 0.015 * i)) for i in range(3)]
	return dict(q=q, r=r)


def separated():
	"""every observable used for recognition must tell a run with one parameter set on both sides apart from
	every other run (two mixed runs need not be told apart from each other: both violate the property)"""
	def far(m1, m2):
		return any(abs(x - y) >= SEP for r1, r2 in zip(m1, m2) for x, y in zip(r1, r2))
	qr, sq, vec = {}, {}, {}
	for a in candidates():
		sq[(a, a)] = dmat(sigs_of('q', a), sigs_of('q', a))
		for b in candidates():
			qr[(a, b)] = dmat(sigs_of('q', a), sigs_of('r', b))
			if b < NCORE:
				vec[(a, b)] = [[min(row)] for row in qr[(a, b)]]
	for mats in (qr, sq, vec):
		for k1 in mats:
			if k1[0] == k1[1]:
				for k2 in mats:
					if k2 != k1 and not far(mats[k1], mats[k2]):
						return False
	# the two-leaf tree: a leaf branch is d or d/2
	d = [jaccard(*sigs_of('q', a)) for a in candidates()]
	for i, j in itertools.permutations(range(len(d)), 2):
		if abs(d[i] - d[j]) < SEP or abs(d[i] - 2 * d[j]) < SEP:
			return False
	return all(len(s) > 0 for side in 'qr' for a in candidates() for s in sigs_of(side, a))


# ---- fixtures -----------------------------------------------------------------------------------
def setup(ctx):
	import random
	from vf import impl
	impl.check_import()
	import numpy as np
	from gambit.kmers import KmerSpec
	from gambit.sigs import SignatureList, AnnotatedSignatures, SignaturesMeta, dump_signatures
	from gambit.db.models import Base, ReferenceGenomeSet, Taxon, Genome, AnnotatedGenome
	from sqlalchemy import create_engine
	from sqlalchemy.orm import Session

	W = impl.scratch_dir('gambit-verif-c14-')
	S.clear()
	S['W'] = W
	S['n'] = 0
	for attempt in range(20):
		S['sigs'] = {}
		S['genomes'] = make_genomes(random.Random(1000 * ctx.seed + 14 + attempt))
		if separated():
			break
	else:
		raise RuntimeError('could not generate genomes whose distances tell the parameter sets apart')
	S['files'] = {}
	for side in 'qr':
		paths = []
		for name, seq in S['genomes'][side]:
			p = os.path.join(W, name + '.fasta')
			with open(p, 'w') as f:
				f.write(f'>{name} synthetic\n')
				for i in range(0, len(seq), 70):
					f.write(seq[i:i + 70] + '\n')
			paths.append(p)
		S['files'][side] = paths
		lp = os.path.join(W, side + '_list.txt')
		with open(lp, 'w') as f:
			f.write('\n'.join(paths) + '\n')
		S['files'][side + 'l'] = lp

	def dump(path, side, pi, meta):
		k, p = PARAMS[pi]
		ks = KmerSpec(k, p)
		arrs = [np.array(sorted(s), dtype=ks.index_dtype) for s in sigs_of(side, pi)]
		ids = [n for n, _ in S['genomes'][side]]
		dump_signatures(path, AnnotatedSignatures(SignatureList(arrs, ks), ids, meta), 'hdf5')

	S['sigfile'] = {}
	S['db'] = {}
	for pi in range(NFIXED):
		for side in 'qr':
			path = os.path.join(W, f'{side}sigs_{pi}.gs')
			dump(path, side, pi, SignaturesMeta())
			S['sigfile'][(side, pi)] = path
	for pi in range(NCORE):
		d = os.path.join(W, f'db_{pi}')
		os.makedirs(d)
		engine = create_engine('sqlite:///' + os.path.join(d, 'refs.gdb'))
		Base.metadata.create_all(engine)
		with Session(engine) as session:
			gset = ReferenceGenomeSet(key='c14', version='1', name='c14 harness')
			genus = Taxon(key='genus', name='Genus', rank='genus', distance_threshold=0.9, genome_set=gset)
			session.add(gset)
			for i, (name, _) in enumerate(S['genomes']['r']):
				sp = Taxon(key=f'sp{i}', name=f'Genus sp{i}', rank='species', distance_threshold=0.3, parent=genus, genome_set=gset)
				g = Genome(key=name, description=name)
				session.add(AnnotatedGenome(genome=g, genome_set=gset, taxon=sp, organism=name))
			session.commit()
		engine.dispose()
		dump(os.path.join(d, 'refs.gs'), 'r', pi, SignaturesMeta(id='c14', id_attr='key'))
		S['db'][pi] = d
	S['testdb'] = os.path.join(ctx.repo, 'tests', 'data', 'testdb_210818')
	ctx.rule(RULE)


def outpath():
	S['n'] += 1
	return os.path.join(S['W'], f'out_{S["n"]}')


def invoke(args):
	"""-> (exit status, error class or None, captured text)"""
	from click.testing import CliRunner
	from unittest import mock
	import gambit.cli
	# a one-CPU machine: the worker pools of calc_file_signatures (C13's subject) get one process instead of 16
	with mock.patch('os.cpu_count', return_value=1):
		r = CliRunner().invoke(gambit.cli.cli, [str(a) for a in args])
	text = r.output or ''
	S['last_cmd'] = 'gambit ' + ' '.join(os.path.basename(str(a)) if str(a).startswith(S['W']) else str(a) for a in args)
	if r.exit_code == 0:
		return 0, None, text
	if r.exception is not None and not isinstance(r.exception, SystemExit):
		return r.exit_code, 'exception:' + type(r.exception).__name__, text + repr(r.exception)
	return r.exit_code, errclass_of_text(text), text


# ---- wire ---------------------------------------------------------------------------------------
def w_ks(pi):
	k, p = PARAMS[pi]
	return [k, list(p.encode('ascii'))]


def w_ksopt(pi):
	return [] if pi is None else [w_ks(pi)]


def w_opt_k(k):
	return [] if k is None else [k]


def w_opt_p(p):
	return [] if p is None else [list(p.encode('ascii'))]


def ks_index(w):
	"""wire kspec -> index in PARAMS (or the raw value)"""
	k, p = w
	return param_index(k, bytes(p).decode('ascii'))


def dec_run(a):
	"""wire run -> dict(exit, err, steps) with steps as tuples over PARAMS indices"""
	ex, err, steps = a
	out = []
	for st in steps:
		if st[0] == 1:
			out.append(('calc', 'qr'[st[1]], ks_index(st[2])))
		elif st[0] == 2:
			out.append(('compare', ks_index(st[1]), ks_index(st[2])))
		else:
			out.append(('write',))
	return dict(exit=ex, err=errclass_of_code(err[0] if err else None), steps=out)


def w_obs(exit_status, steps):
	out = []
	for st in steps:
		if st[0] == 'calc':
			out.append([1, 'qr'.index(st[1]), w_ks(st[2])])
		elif st[0] == 'compare':
			out.append([2, w_ks(st[1]), w_ks(st[2])])
		else:
			out.append([3])
	return [exit_status, 0 if exit_status == 0 else 1, out]


def summarise(run):
	"""what is compared between model and implementation: status, error class, compared pair, computed sides, written"""
	def name(i):
		return f'{PARAMS[i][0]}/{PARAMS[i][1]}'
	cmp_ = [[name(i) for i in s[1:]] for s in run['steps'] if s[0] == 'compare']
	calc = sorted([s[1], name(s[2])] for s in run['steps'] if s[0] == 'calc')
	return dict(exit=0 if run['exit'] == 0 else 1, err=run['err'], compare=cmp_, calc=calc,
	            written=any(s[0] == 'write' for s in run['steps']))


def judge(pend, case, obs, unidentified, model_run, wf, spec, nontrivial, expect_refusal=None):
	pend.append((case, obs, unidentified, model_run, wf, spec, nontrivial, expect_refusal))


def judge_batch(ctx, kind, pend):
	"""obs: dict(exit, err, steps) observed on the implementation; the property predicate is the extracted run_ok"""
	import gc
	gc.collect()   # finalise the commands' SQLite sessions in this thread, not in a model-driver worker thread
	oks = ctx.model([(1408, w_obs(p[1]['exit'], p[1]['steps'])) for p in pend])
	for (case, obs, unidentified, model_run, wf, spec, nontrivial, expect_refusal), ok in zip(pend, oks):
		ctx.case(case, nontrivial=nontrivial)
		so, sm = summarise(obs), summarise(model_run)
		if obs['exit'] == 0 and (so['compare'] or so['calc']):
			ctx.count(kind + ':output-recognised')
		must_refuse = (bool(wf) and spec is None) if expect_refusal is None else expect_refusal
		if unidentified and obs['exit'] == 0:
			ctx.broke(f'{kind}: output not recognised',
			          f'case {case}: the written numbers match no candidate parameter pair; {unidentified}')
		elif ok != 1:
			ctx.violation(kind, case, 'status / output / compared parameters violate the property predicate run_ok '
			              '(parameters of the two sides differ, or an error left a result behind, or a failure without error)',
			              impl=dict(so, cmd=obs.get('cmd')), model=sm, spec=dict(wf=wf, use=None if spec is None else f'{PARAMS[spec][0]}/{PARAMS[spec][1]}'))
		elif must_refuse and obs['exit'] == 0:
			ctx.violation(kind, case, 'differing parameter sources were accepted (exit status 0, result written)',
			              impl=dict(so, cmd=obs.get('cmd')), model=sm, spec=dict(wf=wf, use=None if spec is None else f'{PARAMS[spec][0]}/{PARAMS[spec][1]}'))
		elif must_refuse and so['err'] not in MISMATCH and sm['err'] in MISMATCH:
			ctx.violation(kind, case, 'the mismatch of k-mer parameters is not what the error reports',
			              impl=dict(so, cmd=obs.get('cmd')), model=sm, spec=dict(wf=wf, use=None if spec is None else f'{PARAMS[spec][0]}/{PARAMS[spec][1]}'))
		elif so != sm:
			ctx.broke(f'{kind}: model/implementation correspondence', f'case {case}: impl {so} model {sm}')


# ---- kind: kspec --------------------------------------------------------------------------------
def run_kspec(ctx, cases):
	import click
	from gambit.cli.common import kspec_from_params
	ans = ctx.model([(1401, [w_opt_k(c['k']), w_opt_p(c['prefix']), bool(c['default'])]) for c in cases])
	for c, a in zip(cases, ans):
		try:
			r = kspec_from_params(c['k'], c['prefix'], c['default'])
			impl = ['ok', None if r is None else [int(r.k), r.prefix.decode('ascii')]]
		except click.ClickException as e:
			impl = ['err', errclass_of_text('Error: ' + e.format_message())]
		except Exception as e:
			impl = ['exception', type(e).__name__]
		if a[0] == 0:
			model = ['ok', None if not a[1] else [a[1][0][0], bytes(a[1][0][1]).decode('ascii')]]
		else:
			model = ['err', errclass_of_code(a[1])]
		nt = (c['k'] is None) != (c['prefix'] is None) or c['k'] in (4, 5) or (c['prefix'] is not None and len(c['prefix']) in (1, 2))
		ctx.case(c, nontrivial=nt)
		if impl != model:
			# what the property states: -k and --prefix only together; the accepted values ARE the parameter set.
			# The minimum k / prefix length and the nucleotide check are the code's own choices: correspondence only.
			alone = (c['k'] is None) != (c['prefix'] is None)
			wrong_value = impl[0] == 'ok' and impl[1] is not None and c['k'] is not None and c['prefix'] is not None and \
				impl[1] != [c['k'], c['prefix'].upper()]
			if (alone and impl[0] == 'ok') or wrong_value:
				ctx.violation('kspec', c, 'kspec_from_params accepts one of -k/--prefix alone or returns other parameters than given',
				              impl=impl, model=model, spec=model)
			else:
				ctx.broke('kspec: model/implementation correspondence', f'case {c}: impl {impl} model {model}')


# ---- kind: dist ---------------------------------------------------------------------------------
def dist_args(c, out):
	args = []
	if c.get('db') is not None:
		args += ['-d', S['testdb'] if c['db'] == 'testdb' else S['db'][c['db']]]
	args += ['dist', '-o', out, '--no-progress', '-c', 1]
	for src in c['q']:
		if src == 'q':
			for p in S['files']['q']:
				args += ['-q', p]
		elif src == 'ql':
			args += ['--ql', S['files']['ql']]
		else:
			args += ['--qs', S['sigfile'][('q', c['qp'])]]
	for src in c['r']:
		if src == 'r':
			for p in S['files']['r']:
				args += ['-r', p]
		elif src == 'rl':
			args += ['--rl', S['files']['rl']]
		elif src == 'rs':
			args += ['--rs', S['sigfile'][('r', c['rp'])]]
		elif src == 'db':
			args += ['--use-db']
		else:
			args += ['--square']
	if c.get('k') is not None:
		args += ['-k', c['k']]
	if c.get('prefix') is not None:
		args += ['-p', c['prefix']]
	return args


def dist_wire(c):
	q, r = c['q'], c['r']
	return ['q' in q, 'ql' in q, w_ksopt(c['qp'] if 'qs' in q else None),
	        'r' in r, 'rl' in r, w_ksopt(c['rp'] if 'rs' in r else None), 'db' in r, 'square' in r,
	        w_ksopt(c.get('db')), w_opt_k(c.get('k')), w_opt_p(c.get('prefix'))]


def parse_dmat(text):
	rows = [l.split(',') for l in text.strip('\n').split('\n')]
	return [[float(x) for x in row[1:]] for row in rows[1:]]


def observe_dist(c, exit_status, err, out, want):
	"""-> (obs, unidentified)"""
	steps, unid = [], None
	if os.path.exists(out):
		text = open(out).read()
		pair = None
		if text.strip():
			try:
				m = parse_dmat(text)
			except ValueError:
				m = None
			square = 'square' in c['r']
			qfix = c['qp'] if 'qs' in c['q'] else None
			rfix = c['rp'] if 'rs' in c['r'] else (c.get('db') if 'db' in c['r'] else None)
			found = []
			for a in ([qfix] if qfix is not None else candidates(c)):
				for b in ([a] if square else [rfix] if rfix is not None else candidates(c)):
					exp = dmat(sigs_of('q', a), sigs_of('q', a) if square else sigs_of('r', b))
					if m is not None and close(m, exp):
						found.append((a, b))
			if found:
				pair = want if want in found else found[0]
				if qfix is None:
					steps.append(('calc', 'q', pair[0]))
				if rfix is None and not square:
					steps.append(('calc', 'r', pair[1]))
				steps.append(('compare',) + pair)
			else:
				unid = f'output {text[:200]!r}'
		steps.append(('write',))
	return dict(exit=exit_status, err=err, steps=steps, cmd=S.get('last_cmd')), unid


def run_dist(ctx, cases):
	model = ctx.model([(1402, dist_wire(c)) for c in cases])
	spec = ctx.model([(1406, dist_wire(c)) for c in cases])
	pend = []
	for c, m, sp in zip(cases, model, spec):
		out = outpath()
		ex, err, text = invoke(dist_args(c, out))
		mr = dec_run(m)
		want = ([tuple(st[1:]) for st in mr['steps'] if st[0] == 'compare'] or [None])[0]
		obs, unid = observe_dist(c, ex, err, out, want)
		if os.path.exists(out):
			os.remove(out)
		nsrc = ('qs' in c['q']) + ('rs' in c['r'] or 'db' in c['r']) + (c.get('k') is not None or c.get('prefix') is not None)
		judge(pend, c, obs, unid, mr, bool(sp[0]), ks_index(sp[1][0]) if sp[1] else None, nsrc >= 2)
		ctx.count('dist:' + ('refused-mismatch' if obs['err'] in MISMATCH else 'refused-usage' if ex else 'ran'))
	judge_batch(ctx, 'dist', pend)


# ---- kind: query --------------------------------------------------------------------------------
def query_args(c, out):
	args = []
	if c.get('db') is not None:
		args += ['-d', S['testdb'] if c['db'] == 'testdb' else S['db'][c['db']]]
	args += ['query', '-o', out, '--no-progress', '-c', 1]
	for src in c['src']:
		if src == 'files':
			args += S['files']['q']
		elif src == 'list':
			args += ['-l', S['files']['ql']]
		else:
			args += ['-s', S['sigfile'][('q', c['sp'])]]
	return args


def db_index(c):
	return 0 if c.get('db') == 'testdb' else c.get('db')


def query_wire(c):
	return ['files' in c['src'], 'list' in c['src'], w_ksopt(c['sp'] if 'sig' in c['src'] else None), w_ksopt(db_index(c))]


def observe_query(c, exit_status, err, out):
	import csv
	steps, unid = [], None
	if os.path.exists(out) and open(out).read().strip():
		rows = list(csv.DictReader(open(out)))
		try:
			vec = [[float(r['closest.distance'])] for r in rows]
		except (KeyError, ValueError):
			vec = None
		sfix = c['sp'] if 'sig' in c['src'] else None
		b = db_index(c)
		found = []
		if c.get('db') == 'testdb':
			# the test database's signatures are not the harness's: the query side is known (a signature file),
			# the reference side is the database as stored
			if sfix is not None:
				found = [(sfix, 0)]
		elif b is not None:
			for a in ([sfix] if sfix is not None else candidates()):
				exp = [[min(row)] for row in dmat(sigs_of('q', a), sigs_of('r', b))]
				if vec is not None and close(vec, exp):
					found.append((a, b))
		if found:
			if sfix is None:
				steps.append(('calc', 'q', found[0][0]))
			steps.append(('compare',) + found[0])
		else:
			unid = f'closest distances {vec}'
		steps.append(('write',))
	return dict(exit=exit_status, err=err, steps=steps, cmd=S.get('last_cmd')), unid


def run_query(ctx, cases):
	model = ctx.model([(1403, [True] + query_wire(c)) for c in cases])
	spec = ctx.model([(1407, query_wire(c)) for c in cases])
	pend = []
	for c, m, sp in zip(cases, model, spec):
		out = outpath()
		ex, err, text = invoke(query_args(c, out))
		obs, unid = observe_query(c, ex, err, out)
		if os.path.exists(out):
			os.remove(out)
		nt = 'sig' in c['src'] and c.get('db') is not None
		judge(pend, c, obs, unid, dec_run(m), bool(sp[0]), ks_index(sp[1][0]) if sp[1] else None, nt)
		ctx.count('query:' + ('refused-mismatch' if obs['err'] in MISMATCH else 'refused-usage' if ex else 'ran'))
	judge_batch(ctx, 'query', pend)


# ---- kind: tree ---------------------------------------------------------------------------------
def tree_args(c):
	args = ['tree', '--no-progress', '-c', 1]
	for src in c['src']:
		if src == 'files':
			args += S['files']['q']
		elif src == 'list':
			args += ['-l', S['files']['ql']]
		else:
			args += ['-s', S['sigfile'][('q', c['sp'])]]
	if c.get('k') is not None:
		args += ['-k', c['k']]
	if c.get('prefix') is not None:
		args += ['-p', c['prefix']]
	return args


def run_tree(ctx, cases):
	model = ctx.model([(1404, ['files' in c['src'], 'list' in c['src'], w_ksopt(c['sp'] if 'sig' in c['src'] else None),
	                           w_opt_k(c.get('k')), w_opt_p(c.get('prefix'))]) for c in cases])
	pend = []
	for c, m in zip(cases, model):
		ex, err, text = invoke(tree_args(c))
		steps, unid = [], None
		mm = re.search(r'\(q1:([0-9.eE+-]+),q2:([0-9.eE+-]+)\)', text) or re.search(r'\(q2:([0-9.eE+-]+),q1:([0-9.eE+-]+)\)', text)
		if ex == 0:
			sfix = c['sp'] if 'sig' in c['src'] else None
			found = []
			if mm:
				length = float(mm.group(1))
				for a in ([sfix] if sfix is not None else candidates(c)):
					d = jaccard(*sigs_of('q', a))
					# which share of the distance a leaf branch carries is C17's business
					if abs(length - d) <= TOL or abs(2 * length - d) <= TOL:
						found.append(a)
			mr = dec_run(m)
			want = [s[1] for s in mr['steps'] if s[0] == 'compare']
			if found:
				a = want[0] if want and want[0] in found else found[0]
				if sfix is None:
					steps.append(('calc', 'q', a))
				steps.append(('compare', a, a))
			else:
				unid = f'newick {text[-120:]!r}'
			steps.append(('write',))
		obs = dict(exit=ex, err=err, steps=steps, cmd=S.get('last_cmd'))
		ignored = 'sig' in c['src'] and (c.get('k') is not None or c.get('prefix') is not None)
		if ignored:
			ctx.count('tree:options-ignored-with-sigfile')
		judge(pend, c, obs, unid, dec_run(m), False, None, c.get('k') is not None or c.get('prefix') is not None, expect_refusal=False)
	judge_batch(ctx, 'tree', pend)


# ---- kind: create -------------------------------------------------------------------------------
def create_args(c, out):
	args = []
	if c.get('db') is not None:
		args += ['-d', S['db'][c['db']]]
	args += ['signatures', 'create', '-o', out, '--no-progress', '-c', 1]
	for src in c['src']:
		if src == 'files':
			args += S['files']['q']
		else:
			args += ['-l', S['files']['ql']]
	if c.get('k') is not None:
		args += ['-k', c['k']]
	if c.get('prefix') is not None:
		args += ['-p', c['prefix']]
	if c.get('db_params'):
		args += ['--db-params']
	return args


def run_create(ctx, cases):
	import h5py
	model = ctx.model([(1405, ['files' in c['src'], 'list' in c['src'], w_opt_k(c.get('k')), w_opt_p(c.get('prefix')),
	                           bool(c.get('db_params')), w_ksopt(c.get('db'))]) for c in cases])
	pend = []
	for c, m in zip(cases, model):
		out = outpath()
		ex, err, text = invoke(create_args(c, out))
		steps, unid = [], None
		if os.path.exists(out):
			try:
				with h5py.File(out, 'r') as f:
					k = int(f.attrs['kmerspec_k'])
					p = f.attrs['kmerspec_prefix']
					p = p.decode('ascii') if isinstance(p, bytes) else str(p)
					values, bounds = f['values'][:], f['bounds'][:]
				got = [set(int(x) for x in values[bounds[i]:bounds[i + 1]]) for i in range(len(bounds) - 1)]
				if 1 <= k <= 32 and p and all(ch in 'ACGT' for ch in p) and got == sigs_of('q', param_index(k, p)):
					steps.append(('calc', 'q', param_index(k, p)))
				else:
					unid = f'file records parameters {(k, p)} but its signatures are not those of the genomes under them'
			except Exception as e:
				unid = f'unreadable output: {e!r}'
			steps.append(('write',))
			os.remove(out)
		obs = dict(exit=ex, err=err, steps=steps, cmd=S.get('last_cmd'))
		mr = dec_run(m)
		if unid and ex == 0:
			# the recorded parameters are not the ones the signatures were computed with: a later comparison
			# against this file would be a silent mismatch
			ctx.case(c, nontrivial=True)
			ctx.violation('create', c, 'the signature file does not contain the signatures of its recorded parameters: ' + unid,
			              impl=dict(summarise(obs), cmd=obs.get('cmd')), model=summarise(mr), spec=summarise(mr))
			continue
		nt = bool(c.get('db_params')) or c.get('k') is not None or c.get('prefix') is not None
		so, sm = summarise(obs), summarise(mr)
		if ex == 0 and sm['exit'] == 0 and so['calc'] != sm['calc']:
			ctx.case(c, nontrivial=nt)
			ctx.violation('create', c, 'signatures were computed with other parameters than the ones asked for '
			              '(--db-params: the database\'s; -k/--prefix; else the default)', impl=dict(so, cmd=obs.get('cmd')), model=sm, spec=sm)
			continue
		if ex == 0 and sm['err'] == 'dbparams-excl' and c.get('db') is not None and \
				(c['k'], c['prefix'].upper()) != PARAMS[c['db']]:
			ctx.case(c, nontrivial=nt)
			ctx.violation('create', c, '--db-params together with -k/--prefix that differ from the database\'s parameters was accepted',
			              impl=dict(so, cmd=obs.get('cmd')), model=sm, spec=sm)
			continue
		judge(pend, c, obs, None, mr, False, None, nt, expect_refusal=False)
	judge_batch(ctx, 'create', pend)


KINDS = {'kspec': run_kspec, 'dist': run_dist, 'query': run_query, 'tree': run_tree, 'create': run_create}


# ---- generators ---------------------------------------------------------------------------------
def option_modes():
	"""no -k/-p, one of them, both (every core parameter set)"""
	yield None, None
	yield 6, None
	yield None, 'AT'
	for k, p in PARAMS[:NCORE]:
		yield k, p


def gen_dist_exhaustive():
	qvars = [(['q'], None), (['ql'], None)] + [(['qs'], i) for i in range(NCORE)]
	rvars = [(['r'], None, None), (['rl'], None, None), (['square'], None, None)] + \
	        [(['rs'], i, None) for i in range(NCORE)] + [(['db'], None, i) for i in range(NCORE)]
	for (q, qp), (r, rp, db), (k, p) in itertools.product(qvars, rvars, option_modes()):
		yield dict(q=q, qp=qp, r=r, rp=rp, db=db, k=k, prefix=p)


def gen_dist_extra(ctx, n):
	rng = ctx.rng
	ks = [None, None, 4, 5, 6, 7, 11]
	ps = [None, None, 'A', 'AT', 'at', 'aC', 'AC', 'AN', 'ATGAC', 'atg', 'ATG']
	for _ in range(n):
		nq = rng.choice([1, 1, 1, 1, 0, 2])
		nr = rng.choice([1, 1, 1, 1, 0, 2])
		q = rng.sample(['q', 'ql', 'qs'], nq)
		r = rng.sample(['r', 'rl', 'rs', 'db', 'square'], nr)
		db = rng.choice([None, None] + list(range(NCORE)))
		if 'db' in r and rng.random() < 0.8 and db is None:
			db = rng.randrange(NCORE)
		yield dict(q=q, qp=rng.randrange(NFIXED) if 'qs' in q else None, r=r,
		           rp=rng.randrange(NFIXED) if 'rs' in r else None, db=db, k=rng.choice(ks), prefix=rng.choice(ps))


def gen_query():
	srcs = [(['files'], None), (['list'], None)] + [(['sig'], i) for i in range(NFIXED)]
	for (src, sp), db in itertools.product(srcs, [None] + list(range(NCORE))):
		yield dict(src=src, sp=sp, db=db)
	for sp in range(NFIXED):
		if sp != 0:
			yield dict(src=['sig'], sp=sp, db='testdb')
	yield dict(src=[], sp=None, db=0)
	yield dict(src=['files', 'sig'], sp=1, db=0)
	yield dict(src=['files', 'list'], sp=None, db=1)
	yield dict(src=['list', 'sig'], sp=0, db=0)


def gen_tree():
	srcs = [(['files'], None), (['list'], None)] + [(['sig'], i) for i in range(NFIXED)]
	modes = list(option_modes()) + [(11, 'ATGAC'), (6, 'ATG'), (4, 'AT'), (6, 'A'), (6, 'AN'), (6, 'at')]
	for (src, sp), (k, p) in itertools.product(srcs, modes):
		yield dict(src=src, sp=sp, k=k, prefix=p)
	yield dict(src=[], sp=None, k=None, prefix=None)
	yield dict(src=['files', 'sig'], sp=0, k=None, prefix=None)


def gen_create():
	modes = list(option_modes()) + [(11, 'ATGAC'), (6, 'ATG'), (4, 'AT'), (6, 'A'), (6, 'AN'), (7, 'ac')]
	for src, (k, p), dbp, db in itertools.product([['files'], ['list']], modes, [False, True], [None] + list(range(NCORE))):
		yield dict(src=src, k=k, prefix=p, db_params=dbp, db=db)
	yield dict(src=[], k=None, prefix=None, db_params=False, db=None)
	yield dict(src=['files', 'list'], k=None, prefix=None, db_params=True, db=0)


def gen_kspec(ctx, n):
	ks = [None, -3, 0, 1, 4, 5, 6, 11, 32]
	ps = [None, '', 'A', 'a', 'AT', 'at', 'aT', 'AC', 'GT', 'ATGAC', 'atgac', 'AN', 'A-', 'AU', 'NN', 'A T', 'ACGTX', 'zz', '@[', '`{']
	for k, p, d in itertools.product(ks, ps, [False, True]):
		yield dict(k=k, prefix=p, default=d)
	rng = ctx.rng
	for _ in range(n):
		ln = rng.choice([0, 1, 2, 2, 3, 5, 8])
		alpha = rng.choice(['ACGT', 'ACGTacgt', 'ACGTacgtNn-', ''.join(chr(i) for i in range(32, 127))])
		yield dict(k=rng.choice([None, rng.randrange(-2, 40)]), prefix=rng.choice([None, ''.join(rng.choice(alpha) for _ in range(ln))]),
		           default=rng.random() < 0.5)


def generate(ctx):
	for c in gen_kspec(ctx, ctx.pick(300, 3000)):
		ctx.count('stream:kspec')
		yield 'kspec', c
	for c in gen_query():
		ctx.count('stream:query-exhaustive')
		yield 'query', c
	for c in gen_dist_exhaustive():
		ctx.count('stream:dist-exhaustive')
		yield 'dist', c
	for c in gen_tree():
		ctx.count('stream:tree-exhaustive')
		yield 'tree', c
	for c in gen_create():
		ctx.count('stream:create-exhaustive')
		yield 'create', c
	for c in gen_dist_extra(ctx, ctx.pick(150, 1500)):
		ctx.count('stream:dist-random-malformed')
		yield 'dist', c
	ctx.exhaustive = True
	ctx.extra['exhaustive_scope'] = (
		'dist: {-q, --ql, --qs x 4 parameter sets} x {-r, --rl, --square, --rs x 4, --use-db x 4 databases} x '
		'{no -k/-p, -k only, -p only, both x 4}; query: {files, list, -s x 6 parameter sets} x {no database, 4 databases} '
		'+ the repository test database x 5 foreign signature files; tree and signatures create: every source x option mode '
		'(x --db-params x database).  Parameter sets (6,AT) (7,AT) (6,AC) (7,AC) differ pairwise in k, prefix, or both.')
