"""C14 -- signatures built with different k-mer parameters are never compared silently.

Tie: B.  The real command line (`gambit.cli.cli`, in process through click's CliRunner) is run over the
option space that brings two signature sources together -- `dist` (3 kinds of query source x 5 kinds of
reference source x {no -k/-p, one of them, both} x parameter sets differing in k / prefix / both), `query`
(files / list / -s signature file x databases with different parameters, among them the repository's test
database), `tree`, `signatures create` (--db-params) -- and `common.kspec_from_params` directly.  For every
case the harness observes the exit status, the class of the error text, whether the output file exists, and
*which parameters the written numbers were computed with*: it owns the genomes, computes their k-mer sets
under every candidate parameter set with a 15-line pure-Python oracle, and identifies the (query, reference)
parameter pair whose Jaccard distances reproduce the output.  That observation is (a) fed to the extracted
property predicate `run_ok` (Spec/C14.v: both sides of the comparison equal; an error means non-zero status,
nothing compared, nothing written) together with the extracted declarative spec (`spec_dist`/`spec_query`:
differing sources must be refused), and (b) compared with the extracted model of the command
(Model/C14.v).  The query command is compared with the REPAIRED model (repo_fixes/C14.diff): on the command as
found `query -s` with foreign parameters is a VIOLATION (theorem C14_query_sigfile_refuted is its witness).

Coverage of the property text (audit).  Every stream runs the IMPLEMENTATION; "P" = the extracted predicate run_ok and
the declarative spec (differing sources must be refused; agreeing sources -> the written numbers are the oracle's
distances under that one set) are judged there, "M" = the run is also compared with the extracted model.

  clause / quantifier element / entry point                      stream(s)                                       judged
  query -s FILE vs database (k / prefix / both differ)            query-exhaustive (6 sets x 4 db + test db)      P M
  dist --qs vs --rs, --qs vs --use-db                             dist-exhaustive (4 x 4 sets)                    P M
  dist -k/-p vs --qs, vs --rs, vs --use-db; all three together    dist-exhaustive, dist-random-malformed          P M
  parameters inferred (files vs --qs/--rs/--use-db; query files)  dist-exhaustive, query-exhaustive (oracle)      P M
  -k or -p alone, bounds, bad nucleotides; kspec_from_params      kspec, dist-random-malformed                    P M
  tree / signatures create (--db-params)                          tree-exhaustive, create-exhaustive              P M
  -- added by the audit --------------------------------------------------------------------------------------------
  "all pairs": arbitrary (k, prefix) pairs -- k+-1, other index   dist-random-parameter-pairs,                    P M
    width (8/9, 16/17), k+8, one prefix letter (first/middle/     query-random-parameter-pairs
    last), longer/shorter/reversed/reverse-complemented prefix,   (signature files and databases are built on
    same total length, the default set, sets -k/-p cannot name    demand from the harness's own k-mer sets)
  option spellings (--db, --db=, GAMBIT_DB_PATH, dist -d / -s,    dist-command-line-forms,                        P M
    --prefix[=], -pXX, -kN, --sigfile[=], --output), option       query-command-line-forms
    order, lower-case prefix, a database named but not used,
    -c absent / 2, --progress
  query -f json / archive, --strict; result to standard output    query-command-line-forms                        P M
    (-o -); "no result is written" over a PRE-EXISTING file       (both commands: out=existing)
  pre-computed signatures in other containers: written by         dist-sigfile-variants, query-sigfile-variants   P M
    `gambit signatures create` itself (pipeline), integer ids,                                                    (n0: P)
    kmerspec_k stored as int8 / int32 / uint8, prefix stored
    lower-case / as bytes, 64-bit values, gzip, metadata, 0 / 1 /
    12 signatures; database as refs.db + refs.h5, 32-bit k
  the real process: `python -m gambit`, its exit status, its      real-process (6 per quick run)                  P M
    stderr / stdout (query without -o), GAMBIT_DB_PATH
  kspec_from_params as Python calls it: NumPy-scalar k (9 types), kspec-call-forms                                P M
    keyword / reordered / two-argument calls; result == plain
  gambit.query.query_parse (what `query GENOMES` rests on): db    api-query_parse                                 P M
    loaded three ways, params / kwargs, file_labels, parse_kw
  one process serving many command lines with changing            all random streams (one process, random order)  -
    databases / files (stale state)
  NOT covered: `dist --dump-params` (hidden debugging option, writes no result); `gambit.query.query()` and
  `jaccarddist_matrix()` called directly with foreign signatures (no exit status: outside the statement -- they do not
  look at the parameters at all, the guard lives in the command line only); --qdir/--rdir/--ldir (C08's subject).
  FOUND (and repaired in /repo): see known_defect() -- a signature file whose kmerspec_k attribute is an unsigned 8-bit integer."""
import itertools
import os
import re

PROP = 'C14'
RULE = ('dist/query/tree/create: one command line = (kind of query source, kind of reference source, parameter '
        'sets stored in the pre-computed sources / the database, -k, --prefix[, --db-params]); kspec: one '
        '(k, prefix, default) triple.  non-trivial: dist/query: at least two parameter sources are present '
        '(pre-computed signatures, database in use, explicit options); tree/create: explicit options or --db-params '
        'are present; kspec: exactly one of -k/--prefix, or a value at a validation boundary.  A case may also carry: '
        'parameter sets by value ([k, prefix]: random pairs differing in k, one prefix letter, prefix length, both, same '
        'total length ...), qv/rv/sv/dbv = the container variant of a pre-computed source (written by `signatures create`, '
        'integer ids, k attribute as int8/int32/uint8, prefix lower-case/bytes, 64-bit values, gzip, metadata, 0/1/12 '
        'signatures; database with .db/.h5 extensions), form = spelling / order of the options, GAMBIT_DB_PATH, -f '
        'json/archive, --strict, output to a pre-existing file or standard output, a real `python -m gambit` process; '
        'kspec: ktype/call = NumPy-scalar k and keyword call forms; api: one direct call of gambit.query.query_parse '
        '(database loading path, params/kwargs, labels, parse_kw).  Same non-triviality rule; api: always')
TRUSTED = ['harness/c14.py: synthetic genomes, the pure-Python k-mer/Jaccard oracle used to recognise which parameters '
           'an output was computed with (tolerance 1.01e-4, candidates checked to be >= 1e-3 apart), construction of '
           'signature files (dump_signatures) and of small databases (SQLAlchemy models) from the harness\'s own k-mer sets',
           'the commands are run with -c 1 and os.cpu_count() patched to 1 (one worker process per pool instead of 16; '
           'pools are C13\'s subject)',
           'click: option parsing, CliRunner, ClickException -> exit status 1 with "Error: <message>"; lazy opening of '
           'the query command\'s -o file',
           'gambit.sigs.load_signatures returns the parameters stored in the file; calc_file_signatures computes with '
           'the parameters it is given (C01/C12/C13 are about those)',
           'h5py for rewriting the kmerspec_k / kmerspec_prefix attributes of the variant signature files; subprocess + '
           'PYTHONPATH (set by ./check) for the real-process stream']
ASSUMPTIONS = ['signature files and databases given on the command line are loadable (C12 covers foreign files); '
               '--prefix values are ASCII; k <= 32',
               'the repaired query command (repo_fixes/C14.diff: ClickException when the -s file\'s parameters differ '
               'from the database\'s) is the algorithm the query theorems and the model comparison are about; the '
               'command as found is kept as query_cmd false with C14_query_sigfile_refuted',
               '`gambit tree -s FILE -k K -p P` ignores the options without checking them: one source only, outside the '
               'property\'s statement (which names the distance command); modelled as such and counted, not flagged',
               'the error class is compared with the model, but only exit status / output / compared parameters decide '
               'a property violation',
               'signature files without signatures (variant n0) and pre-computed signatures with k <= 4 (8-bit indices, refused by the '
               'distance kernel with a ValueError) are outside the model: predicate and declarative spec only',
               'GENUINE DEFECT of the code as found, repaired by a fix: commit (repo_fixes/C14-uint8-k.diff; see known_defect()): '
               'a signature file whose kmerspec_k attribute is an unsigned 8-bit integer, parameters inferred, other side '
               'computed from genome files: `gambit dist --qs FILE -r genome.fasta` exited 0 with wrong distances '
               '(find_kmers: -uint8(k) wraps to 250); replay repo_fixes/C14-uint8-k.replay.json, corpus case; the input '
               'class is generated and judged like every other',
               'a pre-existing output file that is emptied but holds no result after an error counts as "no result written" '
               'for query (its -o file is opened lazily by click); for dist any file left behind counts as written']
CORRESPONDENCES = ['kspec', 'dist', 'query', 'tree', 'create', 'api']
SHRINK = False
BATCH = 400

TOL = 1.01e-4
SEP = 1e-3

#: parameter sets: 0 = the test database's; 1 differs in k, 2 in prefix, 3 in both; 4 default; 5 longer prefix
PARAMS = [(6, 'AT'), (7, 'AT'), (6, 'AC'), (7, 'AC'), (11, 'ATGAC'), (6, 'ATG')]
NCORE = 4   # PARAMS[:NCORE] have databases
NFIXED = len(PARAMS)   # PARAMS[:NFIXED] have signature files; further sets are registered from explicit options

ERRCLASS = {3: 'nodb', 4: 'needboth', 5: 'mink', 6: 'minprefix', 7: 'badnuc', 31: 'query-ref', 32: 'opt-query',
            33: 'opt-ref', 34: 'dbparams-excl', 35: 'sig-db'}
MISMATCH = {'query-ref', 'opt-query', 'opt-ref', 'sig-db'}

S = {}   # fixtures


def errclass_of_code(c):
	if c is None:
		return None
	if 10 < c < 20:
		return 'exclusive'
	if 20 < c < 30:
		return 'required'
	return ERRCLASS.get(c, f'code{c}')


def errclass_of_text(text):
	m = re.search(r'Error: (.*)', text or '', re.S)
	if not m:
		return 'other'
	t = m.group(1)
	if '--db-params options are mutually exclusive' in t:
		return 'dbparams-excl'
	if 'are mutually exclusive' in t:
		return 'exclusive'
	if re.match(r'One of .* is required', t):
		return 'required'
	if 'Must supply path to database' in t:
		return 'nodb'
	if 'Must specify values for both' in t:
		return 'needboth'
	if 'k must be at least' in t:
		return 'mink'
	if 'Prefix length must be at least' in t:
		return 'minprefix'
	if 'Invalid nucleotide codes in prefix' in t:
		return 'badnuc'
	if re.search(r'do(es)? not match', t):
		if 'command line options' in t:
			return 'opt-query' if 'query signatures' in t else 'opt-ref'
		if 'database' in t:
			return 'sig-db'
		return 'query-ref'
	return 'other'


# ---- the harness's own genomes, k-mers, distances ------------------------------------------------
COMP = {'A': 'T', 'C': 'G', 'G': 'C', 'T': 'A'}


def revcomp(s):
	return ''.join(COMP[c] for c in reversed(s))


def kmer_set(seq, k, prefix):
	"""indices (base 4, A<C<G<T, first nucleotide most significant) of the k-mers following `prefix` on either strand"""
	out = set()
	n = len(prefix)
	for s in (seq, revcomp(seq)):
		i = s.find(prefix)
		while i >= 0:
			km = s[i + n:i + n + k]
			if len(km) == k:
				v = 0
				for c in km:
					v = v * 4 + 'ACGT'.index(c)
				out.add(v)
			i = s.find(prefix, i + 1)
	return out


def jaccard(a, b):
	u = len(a | b)
	return 0.0 if u == 0 else 1.0 - len(a & b) / u


def sigs_of(side, pi):
	"""k-mer sets of the query ('q') or reference ('r') genomes under PARAMS[pi] (memoised)"""
	key = (side, pi)
	if key not in S['sigs']:
		k, p = PARAMS[pi]
		S['sigs'][key] = [kmer_set(s, k, p) for _, s in S['genomes'][side]]
	return S['sigs'][key]


def dmat(qsets, rsets):
	return [[jaccard(a, b) for b in rsets] for a in qsets]


def close(m1, m2):
	return len(m1) == len(m2) and all(len(r1) == len(r2) and all(abs(x - y) <= TOL for x, y in zip(r1, r2))
	                                  for r1, r2 in zip(m1, m2))


def candidates(c=None):
	"""candidate parameter sets for recognising an output: the fixed ones plus the case's explicit options"""
	out = list(range(NFIXED))
	if c is not None and c.get('k') is not None and c.get('prefix') is not None:
		k, p = c['k'], c['prefix'].upper()
		if 1 <= k <= 32 and len(p) >= 1 and all(ch in 'ACGT' for ch in p):
			i = param_index(k, p)
			if i not in out:
				out.append(i)
	if c is not None:
		# parameter sets outside the fixed ones that the case's own sources carry (random-parameter streams)
		for f in ('qp', 'rp', 'db', 'sp'):
			i = pidx(c.get(f))
			if isinstance(i, int) and i not in out:
				out.append(i)
	return out


def param_index(k, p):
	if (k, p) not in PARAMS:
		PARAMS.append((k, p))
	return PARAMS.index((k, p))


def pidx(x):
	"""a parameter reference in a case -> index into PARAMS.  Cases name a fixed set by its index (stable) and any
	other set by value, [k, 'PREFIX'] (registered on first use, so that a replay file is self-contained)"""
	if x is None or isinstance(x, (int, str)):
		return x   # str: 'testdb'
	return param_index(int(x[0]), str(x[1]))


def resolved(c):
	r = dict(c)
	for f in ('qp', 'rp', 'db', 'sp'):
		if f in r:
			r[f] = pidx(r[f])
	return r


def fopt(c, name, default=None):
	"""an entry of the case's optional 'form' (spelling / order / channel of the command line; absent = the plain form)"""
	return (c.get('form') or {}).get(name, default)


def make_genomes(rng):
	def rseq(n):
		return ''.join(rng.choice('ACGT') for _ in range(n))

	def mutate(s, r):
		return ''.join(rng.choice('ACGT') if rng.random() < r else c for c in s)
	base = rseq(9000)
	q = [(f'q{i + 1}', mutate(base, 0.01 + 0.012 * i)) for i in range(2)]
	r = [(f'r{i + 1}', mutate(base, 0.02 + 0.015 * i)) for i in range(3)]
	return dict(q=q, r=r)


def separated():
	"""every observable used for recognition must tell a run with one parameter set on both sides apart from
	every other run (two mixed runs need not be told apart from each other: both violate the property)"""
	def far(m1, m2):
		return any(abs(x - y) >= SEP for r1, r2 in zip(m1, m2) for x, y in zip(r1, r2))
	qr, sq, vec = {}, {}, {}
	for a in candidates():
		sq[(a, a)] = dmat(sigs_of('q', a), sigs_of('q', a))
		for b in candidates():
			qr[(a, b)] = dmat(sigs_of('q', a), sigs_of('r', b))
			if b < NCORE:
				vec[(a, b)] = [[min(row)] for row in qr[(a, b)]]
	for mats in (qr, sq, vec):
		for k1 in mats:
			if k1[0] == k1[1]:
				for k2 in mats:
					if k2 != k1 and not far(mats[k1], mats[k2]):
						return False
	# the two-leaf tree: a leaf branch is d or d/2
	d = [jaccard(*sigs_of('q', a)) for a in candidates()]
	for i, j in itertools.permutations(range(len(d)), 2):
		if abs(d[i] - d[j]) < SEP or abs(d[i] - 2 * d[j]) < SEP:
			return False
	return all(len(s) > 0 for side in 'qr' for a in candidates() for s in sigs_of(side, a))


# ---- signature files and databases, built on demand ---------------------------------------------
#: how a pre-computed signature file differs from the plain one the harness writes with dump_signatures
#: (same k-mer sets, same recorded parameters up to what KmerSpec canonicalises; n0/n1/many: another number of signatures)
VARIANTS = ('plain', 'created', 'intids', 'k_i1', 'k_i4', 'k_u1', 'p_lower', 'p_bytes', 'wide', 'gzip', 'meta', 'n0', 'n1', 'many')
#: variants of a database directory: other accepted file extensions, k stored as a 32-bit integer
DB_VARIANTS = ('plain', 'altext', 'k_i4')


def sel_sets(sets, variant, side):
	"""the k-mer sets a signature-file variant holds, in file order"""
	if variant == 'n0':
		return []
	if variant == 'n1':
		return sets[:1]
	if variant == 'many':
		return sets * (6 if side == 'q' else 4)
	return sets


def write_sigfile(path, side, pi, variant='plain', meta=None):
	import numpy as np
	import h5py
	from gambit.kmers import KmerSpec
	from gambit.sigs import SignatureList, AnnotatedSignatures, SignaturesMeta, dump_signatures
	k, p = PARAMS[pi]
	ks = KmerSpec(k, p)
	dt = np.dtype('u8') if variant == 'wide' else ks.index_dtype
	names = [n for n, _ in S['genomes'][side]]
	sets = sel_sets(sigs_of(side, pi), variant, side)
	ids = sel_sets(names, variant, side)
	if variant == 'many':
		ids = [f'{n}_{j}' for j, n in enumerate(ids)]
	arrs = [np.array(sorted(x), dtype=dt) for x in sets]
	if variant == 'intids':
		ids = np.arange(len(arrs))
	elif variant == 'n0':
		ids = np.array([], dtype='U1')
	if meta is None:
		meta = SignaturesMeta(id='v', name='variant', version='1.0', id_attr='key', description='c14', extra=dict(a=1)) \
			if variant == 'meta' else SignaturesMeta()
	kw = dict(compression='gzip', compression_opts=4) if variant == 'gzip' else {}
	dump_signatures(path, AnnotatedSignatures(SignatureList(arrs, ks, dtype=dt), ids, meta), 'hdf5', **kw)
	attrs = {'k_i1': ('kmerspec_k', np.int8(k)), 'k_i4': ('kmerspec_k', np.int32(k)), 'k_u1': ('kmerspec_k', np.uint8(k)),
	         'p_lower': ('kmerspec_prefix', p.lower()), 'p_bytes': ('kmerspec_prefix', np.bytes_(p.encode('ascii')))}
	if variant in attrs:
		with h5py.File(path, 'r+') as f:
			name, value = attrs[variant]
			del f.attrs[name]
			f.attrs[name] = value


def sigfile(side, pi, variant='plain'):
	"""path of the signature file of the query / reference genomes under PARAMS[pi] (None: it could not be made)"""
	key = (side, pi) if variant in (None, 'plain') else (side, pi, variant)
	if key not in S['sigfile']:
		path = os.path.join(S['W'], f'{side}sigs_{pi}' + ('' if len(key) == 2 else '_' + variant) + '.gs')
		if variant == 'created':
			# the real pipeline: the file is the output of `gambit signatures create` on the genome files
			k, p = PARAMS[pi]
			if pi == 4:
				args = []
			elif pi < NCORE and side == 'q':
				args = ['--db-params']
			else:
				args = ['-k', k, '--prefix', p]
			pre = ['-d', S['db'][pi]] if args == ['--db-params'] else []
			ex, err, text = invoke(pre + ['signatures', 'create', '-o', path, '--no-progress', '-c', 1] + args + S['files'][side])
			if ex != 0 or not os.path.exists(path):
				S['sigfile'][key] = None
				S['create_failed'] = f'{S.get("last_cmd")}: exit {ex} {err} {text[-200:]!r}'
				return None
		else:
			write_sigfile(path, side, pi, variant or 'plain')
		S['sigfile'][key] = path
	return S['sigfile'][key]


def db_dir(pi, variant='plain'):
	"""a database directory whose reference signatures are those of the reference genomes under PARAMS[pi]"""
	import shutil
	from gambit.sigs import SignaturesMeta
	if pi == 'testdb':
		return S['testdb']
	key = pi if variant in (None, 'plain') else (pi, variant)
	if key not in S['db']:
		d = os.path.join(S['W'], f'db_{pi}' + ('' if key == pi else '_' + variant))
		os.makedirs(d)
		shutil.copy(os.path.join(S['db'][0], 'refs.gdb'), os.path.join(d, 'refs.db' if variant == 'altext' else 'refs.gdb'))
		write_sigfile(os.path.join(d, 'refs.h5' if variant == 'altext' else 'refs.gs'), 'r', pi,
		              'k_i4' if variant == 'k_i4' else 'plain', SignaturesMeta(id='c14', id_attr='key'))
		S['db'][key] = d
	return S['db'][key]


# ---- fixtures -----------------------------------------------------------------------------------
def setup(ctx):
	import random
	from vf import impl
	impl.check_import()
	from gambit.sigs import SignaturesMeta
	from gambit.db.models import Base, ReferenceGenomeSet, Taxon, Genome, AnnotatedGenome
	from sqlalchemy import create_engine
	from sqlalchemy.orm import Session

	W = impl.scratch_dir('gambit-verif-c14-')
	S.clear()
	S['W'] = W
	S['n'] = 0
	for attempt in range(20):
		S['sigs'] = {}
		S['genomes'] = make_genomes(random.Random(1000 * ctx.seed + 14 + attempt))
		if separated():
			break
	else:
		raise RuntimeError('could not generate genomes whose distances tell the parameter sets apart')
	S['files'] = {}
	for side in 'qr':
		paths = []
		for name, seq in S['genomes'][side]:
			p = os.path.join(W, name + '.fasta')
			with open(p, 'w') as f:
				f.write(f'>{name} synthetic\n')
				for i in range(0, len(seq), 70):
					f.write(seq[i:i + 70] + '\n')
			paths.append(p)
		S['files'][side] = paths
		lp = os.path.join(W, side + '_list.txt')
		with open(lp, 'w') as f:
			f.write('\n'.join(paths) + '\n')
		S['files'][side + 'l'] = lp

	S['sigfile'] = {}
	S['db'] = {}
	for pi in range(NFIXED):
		for side in 'qr':
			sigfile(side, pi)
	for pi in range(NCORE):
		d = os.path.join(W, f'db_{pi}')
		os.makedirs(d)
		engine = create_engine('sqlite:///' + os.path.join(d, 'refs.gdb'))
		Base.metadata.create_all(engine)
		with Session(engine) as session:
			gset = ReferenceGenomeSet(key='c14', version='1', name='c14 harness')
			genus = Taxon(key='genus', name='Genus', rank='genus', distance_threshold=0.9, genome_set=gset)
			session.add(gset)
			for i, (name, _) in enumerate(S['genomes']['r']):
				sp = Taxon(key=f'sp{i}', name=f'Genus sp{i}', rank='species', distance_threshold=0.3, parent=genus, genome_set=gset)
				g = Genome(key=name, description=name)
				session.add(AnnotatedGenome(genome=g, genome_set=gset, taxon=sp, organism=name))
			session.commit()
		engine.dispose()
		write_sigfile(os.path.join(d, 'refs.gs'), 'r', pi, 'plain', SignaturesMeta(id='c14', id_attr='key'))
		S['db'][pi] = d
	S['testdb'] = os.path.join(ctx.repo, 'tests', 'data', 'testdb_210818')
	ctx.rule(RULE)


def outpath():
	S['n'] += 1
	return os.path.join(S['W'], f'out_{S["n"]}')


def invoke(args, env=None, proc=False):
	"""-> (exit status, error class or None, captured text); S['stdout'] holds what went to standard output.
	proc: a real `python -m gambit` process (its exit status, its standard streams) instead of click's CliRunner"""
	from click.testing import CliRunner
	from unittest import mock
	import gambit.cli
	args = [str(a) for a in args]
	S['last_cmd'] = ' '.join(f'{k}={os.path.basename(v)}' for k, v in (env or {}).items()) + (' ' if env else '') + \
		('python -m gambit ' if proc else 'gambit ') + ' '.join(a.replace(S['W'] + os.sep, '') for a in args)
	if proc:
		import subprocess
		import sys
		e = dict(os.environ)
		e.pop('GAMBIT_DB_PATH', None)
		e.update(env or {})
		r = subprocess.run([sys.executable, '-m', 'gambit'] + args, env=e, capture_output=True, text=True, timeout=300,
		                   stdin=subprocess.DEVNULL)
		S['stdout'] = r.stdout
		if r.returncode == 0:
			return 0, None, r.stderr
		if 'Error: ' in r.stderr and 'Traceback' not in r.stderr:
			return r.returncode, errclass_of_text(r.stderr), r.stderr
		last = ([l for l in r.stderr.strip().split('\n') if l.strip()] or ['?'])[-1]
		return r.returncode, 'exception:' + last.split(':')[0].strip(), r.stderr[-600:]
	# a one-CPU machine: the worker pools of calc_file_signatures (C13's subject) get one process instead of 16
	with mock.patch('os.cpu_count', return_value=1):
		r = CliRunner().invoke(gambit.cli.cli, args, env=env)
	text = r.output or ''
	try:
		S['stdout'] = r.stdout
	except Exception:
		S['stdout'] = text
	if r.exit_code == 0:
		return 0, None, text
	if r.exception is not None and not isinstance(r.exception, SystemExit):
		return r.exit_code, 'exception:' + type(r.exception).__name__, text + repr(r.exception)
	return r.exit_code, errclass_of_text(text), text


# ---- the command line in its other forms ---------------------------------------------------------
SENTINEL = 'c14-sentinel,this,file,was,here,before\n'


def root_tokens(c, default_variant='plain'):
	"""the root option naming the database -> (tokens, environment)"""
	if c.get('db') is None:
		return [], None
	path = db_dir(c['db'], c.get('dbv') or default_variant)
	how = fopt(c, 'db_opt', '-d')
	if how == 'env':
		return [], {'GAMBIT_DB_PATH': path}
	if how == '--db=':
		return ['--db=' + path], None
	return [how, path], None


def kp_groups(c):
	out = []
	if c.get('k') is not None:
		out.append([f'-k{c["k"]}'] if fopt(c, 'k_opt') == 'attached' and c['k'] >= 0 else ['-k', c['k']])
	if c.get('prefix') is not None:
		how = fopt(c, 'p_opt', '-p')
		p = c['prefix']
		if how == '--prefix=':
			out.append(['--prefix=' + p])
		elif how == 'attached' and p:
			out.append(['-p' + p])
		else:
			out.append(['--prefix' if how == '--prefix' else '-p', p])
	return out


def common_groups(c, cmd):
	"""-o / -c / progress option groups; -> (groups, path of the output file or None for standard output)"""
	mode = fopt(c, 'out', 'fresh')
	groups, out = [], None
	if mode in ('fresh', 'existing'):
		out = outpath()
		if mode == 'existing':
			with open(out, 'w') as f:
				f.write(SENTINEL)
		groups.append(['-o', out] if fopt(c, 'o_opt', '-o') == '-o' or cmd == 'dist' else ['--output', out])
	elif mode == 'stdout':
		groups.append(['-o', '-'])
	# mode 'default': no -o at all (query writes to standard output; only with a real process)
	groups.append(['--progress'] if fopt(c, 'progress', False) else ['--no-progress'])
	if fopt(c, 'cores', 1) is not None:
		groups.append(['-c', fopt(c, 'cores', 1)])
	return groups, out


def assemble(c, root, cmd, groups):
	order = fopt(c, 'order')
	if order is not None:
		import random
		random.Random(order).shuffle(groups)
	return root + [cmd] + [t for g in groups for t in g]


def written_text(c, out):
	"""what the command left as its result: text, or None when nothing was written (an untouched pre-existing file
	counts as nothing written)"""
	if out is None:
		t = S.get('stdout') or ''
		return t if t.strip() else None
	if not os.path.exists(out):
		return None
	t = open(out).read()
	os.remove(out)
	if fopt(c, 'out') == 'existing' and t == SENTINEL:
		return None
	return t


# ---- wire ---------------------------------------------------------------------------------------
def w_ks(pi):
	k, p = PARAMS[pi]
	return [k, list(p.encode('ascii'))]


def w_ksopt(pi):
	return [] if pi is None else [w_ks(pi)]


def w_opt_k(k):
	return [] if k is None else [k]


def w_opt_p(p):
	return [] if p is None else [list(p.encode('ascii'))]


def ks_index(w):
	"""wire kspec -> index in PARAMS (or the raw value)"""
	k, p = w
	return param_index(k, bytes(p).decode('ascii'))


def dec_run(a):
	"""wire run -> dict(exit, err, steps) with steps as tuples over PARAMS indices"""
	ex, err, steps = a
	out = []
	for st in steps:
		if st[0] == 1:
			out.append(('calc', 'qr'[st[1]], ks_index(st[2])))
		elif st[0] == 2:
			out.append(('compare', ks_index(st[1]), ks_index(st[2])))
		else:
			out.append(('write',))
	return dict(exit=ex, err=errclass_of_code(err[0] if err else None), steps=out)


def w_obs(exit_status, steps):
	out = []
	for st in steps:
		if st[0] == 'calc':
			out.append([1, 'qr'.index(st[1]), w_ks(st[2])])
		elif st[0] == 'compare':
			out.append([2, w_ks(st[1]), w_ks(st[2])])
		else:
			out.append([3])
	return [exit_status, 0 if exit_status == 0 else 1, out]


def summarise(run):
	"""what is compared between model and implementation: status, error class, compared pair, computed sides, written"""
	def name(i):
		return f'{PARAMS[i][0]}/{PARAMS[i][1]}'
	cmp_ = [[name(i) for i in s[1:]] for s in run['steps'] if s[0] == 'compare']
	calc = sorted([s[1], name(s[2])] for s in run['steps'] if s[0] == 'calc')
	return dict(exit=0 if run['exit'] == 0 else 1, err=run['err'], compare=cmp_, calc=calc,
	            written=any(s[0] == 'write' for s in run['steps']))


def judge(pend, case, obs, unidentified, model_run, wf, spec, nontrivial, expect_refusal=None, domain=True):
	pend.append((case, obs, unidentified, model_run, wf, spec, nontrivial, expect_refusal, domain))


def judge_batch(ctx, kind, pend):
	"""obs: dict(exit, err, steps) observed on the implementation; the property predicate is the extracted run_ok.
	domain=False: the input is outside what the model of the commands describes -- it is judged by the predicate and
	the declarative specification alone (no comparison with the model's run)"""
	import gc
	gc.collect()   # finalise the commands' SQLite sessions in this thread, not in a model-driver worker thread
	oks = ctx.model([(1408, w_obs(p[1]['exit'], p[1]['steps'])) for p in pend])
	for (case, obs, unidentified, model_run, wf, spec, nontrivial, expect_refusal, domain), ok in zip(pend, oks):
		ctx.case(case, nontrivial=nontrivial)
		so, sm = summarise(obs), summarise(model_run)
		if obs['exit'] == 0 and (so['compare'] or so['calc']):
			ctx.count(kind + ':output-recognised')
		must_refuse = (bool(wf) and spec is None) if expect_refusal is None else expect_refusal
		vals = dict(impl=dict(so, cmd=obs.get('cmd')), model=sm, spec=dict(wf=wf, use=None if spec is None else f'{PARAMS[spec][0]}/{PARAMS[spec][1]}'))
		if unidentified and obs['exit'] == 0 and spec is not None and bool(wf):
			# every source agrees on one parameter set: the result is determined (the distances of the harness's own
			# k-mer sets under that set on both sides) and the written numbers are something else
			ctx.violation(kind, case, f'exit status 0, but the written numbers are not the distances with {PARAMS[spec][0]}/{PARAMS[spec][1]} '
			              f'on both sides (nor with any other candidate pair): {unidentified}', **vals)
		elif unidentified and obs['exit'] == 0:
			ctx.broke(f'{kind}: output not recognised',
			          f'case {case}: the written numbers match no candidate parameter pair; {unidentified}')
		elif ok != 1:
			ctx.violation(kind, case, 'status / output / compared parameters violate the property predicate run_ok '
			              '(parameters of the two sides differ, or an error left a result behind, or a failure without error)', **vals)
		elif must_refuse and obs['exit'] == 0:
			ctx.violation(kind, case, 'differing parameter sources were accepted (exit status 0, result written)', **vals)
		elif must_refuse and so['err'] not in MISMATCH and sm['err'] in MISMATCH:
			ctx.violation(kind, case, 'the mismatch of k-mer parameters is not what the error reports', **vals)
		elif domain and so != sm:
			ctx.broke(f'{kind}: model/implementation correspondence', f'case {case}: impl {so} model {sm}')


# ---- kind: kspec --------------------------------------------------------------------------------
def run_kspec(ctx, cases):
	import click
	from gambit.cli.common import kspec_from_params
	ans = ctx.model([(1401, [w_opt_k(c['k']), w_opt_p(c['prefix']), bool(c['default'])]) for c in cases])
	for c, a in zip(cases, ans):
		try:
			k = c['k']
			if c.get('ktype') and k is not None:
				import numpy as np
				k = getattr(np, c['ktype'])(k)   # a NumPy scalar, as read from an HDF5 attribute or an array
			call = c.get('call', 'pos')
			if call == 'kw':
				r = kspec_from_params(k=k, prefix=c['prefix'], default=c['default'])
			elif call == 'kw-swapped':
				r = kspec_from_params(default=c['default'], prefix=c['prefix'], k=k)
			elif call == 'short' and not c['default']:
				r = kspec_from_params(k, c['prefix'])
			else:
				r = kspec_from_params(k, c['prefix'], c['default'])
			impl = ['ok', None if r is None else [int(r.k), r.prefix.decode('ascii')]]
			if r is not None and c['k'] is not None and c['prefix'] is not None:
				# the returned object must BE the parameter set for every later comparison: equal to the plain one
				from gambit.kmers import KmerSpec
				if not (r == KmerSpec(int(r.k), r.prefix) and hash(r) == hash(KmerSpec(int(r.k), r.prefix))):
					impl = ['ok', ['unequal-to-its-own-parameters', int(r.k), r.prefix.decode('ascii')]]
		except click.ClickException as e:
			impl = ['err', errclass_of_text('Error: ' + e.format_message())]
		except Exception as e:
			impl = ['exception', type(e).__name__]
		if a[0] == 0:
			model = ['ok', None if not a[1] else [a[1][0][0], bytes(a[1][0][1]).decode('ascii')]]
		else:
			model = ['err', errclass_of_code(a[1])]
		nt = (c['k'] is None) != (c['prefix'] is None) or c['k'] in (4, 5) or (c['prefix'] is not None and len(c['prefix']) in (1, 2))
		ctx.case(c, nontrivial=nt)
		if impl != model:
			# what the property states: -k and --prefix only together; the accepted values ARE the parameter set.
			# The minimum k / prefix length and the nucleotide check are the code's own choices: correspondence only.
			alone = (c['k'] is None) != (c['prefix'] is None)
			wrong_value = impl[0] == 'ok' and impl[1] is not None and c['k'] is not None and c['prefix'] is not None and \
				impl[1] != [c['k'], c['prefix'].upper()]
			if (alone and impl[0] == 'ok') or wrong_value:
				ctx.violation('kspec', c, 'kspec_from_params accepts one of -k/--prefix alone or returns other parameters than given',
				              impl=impl, model=model, spec=model)
			else:
				ctx.broke('kspec: model/implementation correspondence', f'case {c}: impl {impl} model {model}')


# ---- kind: dist ---------------------------------------------------------------------------------
def dist_args(c):
	"""c: resolved case -> (args, environment, output path); None when a signature file could not be made"""
	root, env = root_tokens(c)
	groups, out = common_groups(c, 'dist')
	for src in c['q']:
		if src == 'q':
			groups.append([t for p in S['files']['q'] for t in ('-q', p)])
		elif src == 'ql':
			groups.append(['--ql', S['files']['ql']])
		else:
			groups.append(['--qs', sigfile('q', c['qp'], c.get('qv'))])
	for src in c['r']:
		if src == 'r':
			groups.append([t for p in S['files']['r'] for t in ('-r', p)])
		elif src == 'rl':
			groups.append(['--rl', S['files']['rl']])
		elif src == 'rs':
			groups.append(['--rs', sigfile('r', c['rp'], c.get('rv'))])
		elif src == 'db':
			groups.append([fopt(c, 'usedb_opt', '--use-db')])
		else:
			groups.append([fopt(c, 'square_opt', '--square')])
	groups += kp_groups(c)
	args = assemble(c, root, 'dist', groups)
	return (None if None in args else args), env, out


def dist_wire(c):
	q, r = c['q'], c['r']
	return ['q' in q, 'ql' in q, w_ksopt(c['qp'] if 'qs' in q else None),
	        'r' in r, 'rl' in r, w_ksopt(c['rp'] if 'rs' in r else None), 'db' in r, 'square' in r,
	        w_ksopt(c.get('db')), w_opt_k(c.get('k')), w_opt_p(c.get('prefix'))]


def parse_dmat(text):
	rows = [l.split(',') for l in text.strip('\n').split('\n')]
	return [[float(x) for x in row[1:]] for row in rows[1:]]


def observe_dist(c, exit_status, err, text, want):
	"""text: what was written (None: nothing) -> (obs, unidentified)"""
	steps, unid = [], None
	if text is not None:
		pair = None
		if text.strip():
			try:
				m = parse_dmat(text)
			except ValueError:
				m = None
			square = 'square' in c['r']
			qfix = c['qp'] if 'qs' in c['q'] else None
			rfix = c['rp'] if 'rs' in c['r'] else (c.get('db') if 'db' in c['r'] else None)
			qv = c.get('qv') if 'qs' in c['q'] else None
			rv = c.get('rv') if 'rs' in c['r'] else None
			found = []
			for a in ([qfix] if qfix is not None else candidates(c)):
				for b in ([a] if square else [rfix] if rfix is not None else candidates(c)):
					qsets = sel_sets(sigs_of('q', a), qv, 'q')
					exp = dmat(qsets, qsets if square else sel_sets(sigs_of('r', b), rv, 'r'))
					if m is not None and close(m, exp):
						found.append((a, b))
			if found:
				pair = want if want in found else found[0]
				if qfix is None:
					steps.append(('calc', 'q', pair[0]))
				if rfix is None and not square:
					steps.append(('calc', 'r', pair[1]))
				steps.append(('compare',) + pair)
			else:
				unid = f'output {text[:200]!r}'
		steps.append(('write',))
	return dict(exit=exit_status, err=err, steps=steps, cmd=S.get('last_cmd')), unid


def out_of_model(c):
	"""inputs the model of the commands does not describe (judged by the property predicate and the declarative
	specification only): signature files without signatures; pre-computed signatures with k <= 4, whose 8-bit k-mer
	indices the distance kernel refuses with a ValueError when a comparison is attempted (C02's subject)"""
	if 'n0' in (c.get('qv'), c.get('rv'), c.get('sv')):
		return True
	return any(isinstance(c.get(f), int) and PARAMS[c[f]][0] <= 4 for f in ('qp', 'rp', 'db', 'sp'))


def run_dist(ctx, cases):
	rcs = [resolved(c) for c in cases]
	model = ctx.model([(1402, dist_wire(c)) for c in rcs])
	spec = ctx.model([(1406, dist_wire(c)) for c in rcs])
	pend = []
	for c0, c, m, sp in zip(cases, rcs, model, spec):
		args, env, out = dist_args(c)
		if args is None:
			ctx.case(c0, nontrivial=False)
			ctx.broke('dist: pipeline', f'case {c0}: gambit signatures create did not produce the signature file: {S.get("create_failed")}')
			continue
		ex, err, text = invoke(args, env=env, proc=bool(fopt(c, 'proc')))
		mr = dec_run(m)
		want = ([tuple(st[1:]) for st in mr['steps'] if st[0] == 'compare'] or [None])[0]
		obs, unid = observe_dist(c, ex, err, written_text(c, out), want)
		nsrc = ('qs' in c['q']) + ('rs' in c['r'] or 'db' in c['r']) + (c.get('k') is not None or c.get('prefix') is not None)
		judge(pend, c0, obs, unid, mr, bool(sp[0]), ks_index(sp[1][0]) if sp[1] else None, nsrc >= 2, domain=not out_of_model(c))
		outcome = 'refused-mismatch' if obs['err'] in MISMATCH else 'refused-usage' if ex else 'ran'
		ctx.count('dist:' + outcome)
		if c.get('st'):
			ctx.count(f'dist[{c["st"]}]:' + (outcome if ex or not unid else 'ran-unrecognised'))
	judge_batch(ctx, 'dist', pend)


# ---- kind: query --------------------------------------------------------------------------------
def query_args(c):
	root, env = root_tokens(c)
	groups, out = common_groups(c, 'query')
	for src in c['src']:
		if src == 'files':
			groups.append(list(S['files']['q']))
		elif src == 'list':
			groups.append(['-l', S['files']['ql']])
		else:
			path = sigfile('q', c['sp'], c.get('sv'))
			if path is None:
				return None, env, out
			how = fopt(c, 'sig_opt', '-s')
			groups.append(['--sigfile=' + path] if how == '--sigfile=' else [how, path])
	if fopt(c, 'outfmt') is not None:
		groups.append(['-f', fopt(c, 'outfmt')])
	if fopt(c, 'strict') is not None:
		groups.append(['--strict' if fopt(c, 'strict') else '--no-strict'])
	return assemble(c, root, 'query', groups), env, out


def db_index(c):
	return 0 if c.get('db') == 'testdb' else c.get('db')


def query_wire(c):
	return ['files' in c['src'], 'list' in c['src'], w_ksopt(c['sp'] if 'sig' in c['src'] else None), w_ksopt(db_index(c))]


def closest_distances(text, outfmt):
	"""the closest-genome distance of every query in a result written as csv / json / archive -> [[d], ...] or None"""
	import csv
	import io
	import json
	try:
		if outfmt in (None, 'csv'):
			return [[float(r['closest.distance'])] for r in csv.DictReader(io.StringIO(text))]
		return [[float(it['closest_genomes'][0]['distance'])] for it in json.loads(text)['items']]
	except (KeyError, ValueError, IndexError, TypeError):
		return None


def recognise_query(c, vec):
	"""vec: closest distances reported -> (steps, unidentified)"""
	steps, unid = [], None
	sfix = c['sp'] if 'sig' in c['src'] else None
	b = db_index(c)
	found = []
	if c.get('db') == 'testdb':
		# the test database's signatures are not the harness's: the query side is known (a signature file),
		# the reference side is the database as stored
		if sfix is not None:
			found = [(sfix, 0)]
	elif b is not None:
		for a in ([sfix] if sfix is not None else candidates(c)):
			qsets = sel_sets(sigs_of('q', a), c.get('sv') if sfix is not None else None, 'q')
			exp = [[min(row)] for row in dmat(qsets, sigs_of('r', b))]
			if vec is not None and close(vec, exp):
				found.append((a, b))
	if found:
		pair = (b, b) if (b, b) in found else found[0]
		if sfix is None:
			steps.append(('calc', 'q', pair[0]))
		steps.append(('compare',) + pair)
	else:
		unid = f'closest distances {vec}'
	steps.append(('write',))
	return steps, unid


def observe_query(c, exit_status, err, text):
	steps, unid = [], None
	if text is not None and text.strip():
		steps, unid = recognise_query(c, closest_distances(text, fopt(c, 'outfmt')))
	return dict(exit=exit_status, err=err, steps=steps, cmd=S.get('last_cmd')), unid


def run_query(ctx, cases):
	rcs = [resolved(c) for c in cases]
	model = ctx.model([(1403, [True] + query_wire(c)) for c in rcs])
	spec = ctx.model([(1407, query_wire(c)) for c in rcs])
	pend = []
	for c0, c, m, sp in zip(cases, rcs, model, spec):
		args, env, out = query_args(c)
		if args is None:
			ctx.case(c0, nontrivial=False)
			ctx.broke('query: pipeline', f'case {c0}: gambit signatures create did not produce the signature file: {S.get("create_failed")}')
			continue
		ex, err, text = invoke(args, env=env, proc=bool(fopt(c, 'proc')))
		obs, unid = observe_query(c, ex, err, written_text(c, out))
		nt = 'sig' in c['src'] and c.get('db') is not None
		judge(pend, c0, obs, unid, dec_run(m), bool(sp[0]), ks_index(sp[1][0]) if sp[1] else None, nt, domain=not out_of_model(c))
		outcome = 'refused-mismatch' if obs['err'] in MISMATCH else 'refused-usage' if ex else 'ran'
		ctx.count('query:' + outcome)
		if c.get('st'):
			ctx.count(f'query[{c["st"]}]:' + (outcome if ex or not unid else 'ran-unrecognised'))
	judge_batch(ctx, 'query', pend)


# ---- kind: tree ---------------------------------------------------------------------------------
def tree_args(c):
	args = ['tree', '--no-progress', '-c', 1]
	for src in c['src']:
		if src == 'files':
			args += S['files']['q']
		elif src == 'list':
			args += ['-l', S['files']['ql']]
		else:
			args += ['-s', S['sigfile'][('q', c['sp'])]]
	if c.get('k') is not None:
		args += ['-k', c['k']]
	if c.get('prefix') is not None:
		args += ['-p', c['prefix']]
	return args


def run_tree(ctx, cases):
	model = ctx.model([(1404, ['files' in c['src'], 'list' in c['src'], w_ksopt(c['sp'] if 'sig' in c['src'] else None),
	                           w_opt_k(c.get('k')), w_opt_p(c.get('prefix'))]) for c in cases])
	pend = []
	for c, m in zip(cases, model):
		ex, err, text = invoke(tree_args(c))
		steps, unid = [], None
		mm = re.search(r'\(q1:([0-9.eE+-]+),q2:([0-9.eE+-]+)\)', text) or re.search(r'\(q2:([0-9.eE+-]+),q1:([0-9.eE+-]+)\)', text)
		if ex == 0:
			sfix = c['sp'] if 'sig' in c['src'] else None
			found = []
			if mm:
				length = float(mm.group(1))
				for a in ([sfix] if sfix is not None else candidates(c)):
					d = jaccard(*sigs_of('q', a))
					# which share of the distance a leaf branch carries is C17's business
					if abs(length - d) <= TOL or abs(2 * length - d) <= TOL:
						found.append(a)
			mr = dec_run(m)
			want = [s[1] for s in mr['steps'] if s[0] == 'compare']
			if found:
				a = want[0] if want and want[0] in found else found[0]
				if sfix is None:
					steps.append(('calc', 'q', a))
				steps.append(('compare', a, a))
			else:
				unid = f'newick {text[-120:]!r}'
			steps.append(('write',))
		obs = dict(exit=ex, err=err, steps=steps, cmd=S.get('last_cmd'))
		ignored = 'sig' in c['src'] and (c.get('k') is not None or c.get('prefix') is not None)
		if ignored:
			ctx.count('tree:options-ignored-with-sigfile')
		judge(pend, c, obs, unid, dec_run(m), False, None, c.get('k') is not None or c.get('prefix') is not None, expect_refusal=False)
	judge_batch(ctx, 'tree', pend)


# ---- kind: create -------------------------------------------------------------------------------
def create_args(c, out):
	args = []
	if c.get('db') is not None:
		args += ['-d', S['db'][c['db']]]
	args += ['signatures', 'create', '-o', out, '--no-progress', '-c', 1]
	for src in c['src']:
		if src == 'files':
			args += S['files']['q']
		else:
			args += ['-l', S['files']['ql']]
	if c.get('k') is not None:
		args += ['-k', c['k']]
	if c.get('prefix') is not None:
		args += ['-p', c['prefix']]
	if c.get('db_params'):
		args += ['--db-params']
	return args


def run_create(ctx, cases):
	import h5py
	model = ctx.model([(1405, ['files' in c['src'], 'list' in c['src'], w_opt_k(c.get('k')), w_opt_p(c.get('prefix')),
	                           bool(c.get('db_params')), w_ksopt(c.get('db'))]) for c in cases])
	pend = []
	for c, m in zip(cases, model):
		out = outpath()
		ex, err, text = invoke(create_args(c, out))
		steps, unid = [], None
		if os.path.exists(out):
			try:
				with h5py.File(out, 'r') as f:
					k = int(f.attrs['kmerspec_k'])
					p = f.attrs['kmerspec_prefix']
					p = p.decode('ascii') if isinstance(p, bytes) else str(p)
					values, bounds = f['values'][:], f['bounds'][:]
				got = [set(int(x) for x in values[bounds[i]:bounds[i + 1]]) for i in range(len(bounds) - 1)]
				if 1 <= k <= 32 and p and all(ch in 'ACGT' for ch in p) and got == sigs_of('q', param_index(k, p)):
					steps.append(('calc', 'q', param_index(k, p)))
				else:
					unid = f'file records parameters {(k, p)} but its signatures are not those of the genomes under them'
			except Exception as e:
				unid = f'unreadable output: {e!r}'
			steps.append(('write',))
			os.remove(out)
		obs = dict(exit=ex, err=err, steps=steps, cmd=S.get('last_cmd'))
		mr = dec_run(m)
		if unid and ex == 0:
			# the recorded parameters are not the ones the signatures were computed with: a later comparison
			# against this file would be a silent mismatch
			ctx.case(c, nontrivial=True)
			ctx.violation('create', c, 'the signature file does not contain the signatures of its recorded parameters: ' + unid,
			              impl=dict(summarise(obs), cmd=obs.get('cmd')), model=summarise(mr), spec=summarise(mr))
			continue
		nt = bool(c.get('db_params')) or c.get('k') is not None or c.get('prefix') is not None
		so, sm = summarise(obs), summarise(mr)
		if ex == 0 and sm['exit'] == 0 and so['calc'] != sm['calc']:
			ctx.case(c, nontrivial=nt)
			ctx.violation('create', c, 'signatures were computed with other parameters than the ones asked for '
			              '(--db-params: the database\'s; -k/--prefix; else the default)', impl=dict(so, cmd=obs.get('cmd')), model=sm, spec=sm)
			continue
		if ex == 0 and sm['err'] == 'dbparams-excl' and c.get('db') is not None and \
				(c['k'], c['prefix'].upper()) != PARAMS[c['db']]:
			ctx.case(c, nontrivial=nt)
			ctx.violation('create', c, '--db-params together with -k/--prefix that differ from the database\'s parameters was accepted',
			              impl=dict(so, cmd=obs.get('cmd')), model=sm, spec=sm)
			continue
		judge(pend, c, obs, None, mr, False, None, nt, expect_refusal=False)
	judge_batch(ctx, 'create', pend)


# ---- kind: api ----------------------------------------------------------------------------------
def run_api(ctx, cases):
	"""gambit.query.query_parse called directly -- the function `gambit query GENOMES...` rests on, in its other call
	forms: the query files' signatures must be computed with the parameters of the database they are compared with"""
	from unittest import mock
	from gambit.db import ReferenceDatabase, load_genomeset
	from gambit.sigs import load_signatures
	from gambit.query import query_parse, QueryParams
	from gambit.seq import SequenceFile
	rcs = [resolved(c) for c in cases]
	model = ctx.model([(1403, [True, True, False, [], w_ksopt(c['db'])]) for c in rcs])
	pend = []
	for c0, c, m in zip(cases, rcs, model):
		d = db_dir(c['db'], c.get('dbv'))
		db = None
		steps, unid, ex, err = [], None, 0, None
		try:
			if c.get('load') == 'files':
				db = ReferenceDatabase.load(*ReferenceDatabase.locate_files(d))
			elif c.get('load') == 'ctor':
				gdb, gs = ReferenceDatabase.locate_files(d)
				session, gset = load_genomeset(gdb)
				db = ReferenceDatabase(gset, load_signatures(gs))
			else:
				db = ReferenceDatabase.load_from_dir(d)
			files = SequenceFile.from_paths(S['files']['q'], 'fasta', 'auto')
			if c.get('files_as') == 'tuple':
				files = tuple(files)
			kw = {}
			args = [db, files]
			if c.get('params') == 'obj':
				args.append(QueryParams(chunksize=1, report_closest=1))
			elif c.get('params') == 'objkw':
				kw['params'] = QueryParams(classify_strict=True, chunksize=None)
			elif c.get('params') == 'kw':
				kw.update(classify_strict=True, chunksize=2)
			if c.get('labels'):
				kw['file_labels'] = [f'label{i}' for i in range(len(files))]
			if c.get('parse_kw') == 'serial':
				kw['parse_kw'] = dict(concurrency=None)
			elif c.get('parse_kw') == 'threads':
				kw['parse_kw'] = dict(concurrency='threads', max_workers=2)
			elif c.get('parse_kw') == 'empty':
				kw['parse_kw'] = {}
			with mock.patch('os.cpu_count', return_value=1):
				res = query_parse(*args, **kw)
			vec = [[float(it.classifier_result.closest_match.distance)] for it in res.items]
			steps, unid = recognise_query(dict(src=['files'], sp=None, db=c['db']), vec)
		except Exception as e:
			ex, err = 1, 'exception:' + type(e).__name__
		finally:
			if db is not None:
				try:
					db.session.close()
					db.signatures.close()
				except Exception:
					pass
		obs = dict(exit=ex, err=err, steps=steps, cmd='query_parse(' + ', '.join(f'{k}={c.get(k)}' for k in ('load', 'params', 'labels', 'parse_kw', 'files_as')) + ')')
		judge(pend, c0, obs, unid, dec_run(m), True, c['db'], True)
	judge_batch(ctx, 'api', pend)


KINDS = {'kspec': run_kspec, 'dist': run_dist, 'query': run_query, 'tree': run_tree, 'create': run_create, 'api': run_api}


# ---- generators ---------------------------------------------------------------------------------
def option_modes():
	"""no -k/-p, one of them, both (every core parameter set)"""
	yield None, None
	yield 6, None
	yield None, 'AT'
	for k, p in PARAMS[:NCORE]:
		yield k, p


def gen_dist_exhaustive():
	qvars = [(['q'], None), (['ql'], None)] + [(['qs'], i) for i in range(NCORE)]
	rvars = [(['r'], None, None), (['rl'], None, None), (['square'], None, None)] + \
	        [(['rs'], i, None) for i in range(NCORE)] + [(['db'], None, i) for i in range(NCORE)]
	for (q, qp), (r, rp, db), (k, p) in itertools.product(qvars, rvars, option_modes()):
		yield dict(q=q, qp=qp, r=r, rp=rp, db=db, k=k, prefix=p)


def gen_dist_extra(ctx, n):
	rng = ctx.rng
	ks = [None, None, 4, 5, 6, 7, 11]
	ps = [None, None, 'A', 'AT', 'at', 'aC', 'AC', 'AN', 'ATGAC', 'atg', 'ATG']
	for _ in range(n):
		nq = rng.choice([1, 1, 1, 1, 0, 2])
		nr = rng.choice([1, 1, 1, 1, 0, 2])
		q = rng.sample(['q', 'ql', 'qs'], nq)
		r = rng.sample(['r', 'rl', 'rs', 'db', 'square'], nr)
		db = rng.choice([None, None] + list(range(NCORE)))
		if 'db' in r and rng.random() < 0.8 and db is None:
			db = rng.randrange(NCORE)
		yield dict(q=q, qp=rng.randrange(NFIXED) if 'qs' in q else None, r=r,
		           rp=rng.randrange(NFIXED) if 'rs' in r else None, db=db, k=rng.choice(ks), prefix=rng.choice(ps))


def gen_query():
	srcs = [(['files'], None), (['list'], None)] + [(['sig'], i) for i in range(NFIXED)]
	for (src, sp), db in itertools.product(srcs, [None] + list(range(NCORE))):
		yield dict(src=src, sp=sp, db=db)
	for sp in range(NFIXED):
		if sp != 0:
			yield dict(src=['sig'], sp=sp, db='testdb')
	yield dict(src=[], sp=None, db=0)
	yield dict(src=['files', 'sig'], sp=1, db=0)
	yield dict(src=['files', 'list'], sp=None, db=1)
	yield dict(src=['list', 'sig'], sp=0, db=0)


def gen_tree():
	srcs = [(['files'], None), (['list'], None)] + [(['sig'], i) for i in range(NFIXED)]
	modes = list(option_modes()) + [(11, 'ATGAC'), (6, 'ATG'), (4, 'AT'), (6, 'A'), (6, 'AN'), (6, 'at')]
	for (src, sp), (k, p) in itertools.product(srcs, modes):
		yield dict(src=src, sp=sp, k=k, prefix=p)
	yield dict(src=[], sp=None, k=None, prefix=None)
	yield dict(src=['files', 'sig'], sp=0, k=None, prefix=None)


def gen_create():
	modes = list(option_modes()) + [(11, 'ATGAC'), (6, 'ATG'), (4, 'AT'), (6, 'A'), (6, 'AN'), (7, 'ac')]
	for src, (k, p), dbp, db in itertools.product([['files'], ['list']], modes, [False, True], [None] + list(range(NCORE))):
		yield dict(src=src, k=k, prefix=p, db_params=dbp, db=db)
	yield dict(src=[], k=None, prefix=None, db_params=False, db=None)
	yield dict(src=['files', 'list'], k=None, prefix=None, db_params=True, db=0)


def gen_kspec(ctx, n):
	ks = [None, -3, 0, 1, 4, 5, 6, 11, 32]
	ps = [None, '', 'A', 'a', 'AT', 'at', 'aT', 'AC', 'GT', 'ATGAC', 'atgac', 'AN', 'A-', 'AU', 'NN', 'A T', 'ACGTX', 'zz', '@[', '`{']
	for k, p, d in itertools.product(ks, ps, [False, True]):
		yield dict(k=k, prefix=p, default=d)
	rng = ctx.rng
	for _ in range(n):
		ln = rng.choice([0, 1, 2, 2, 3, 5, 8])
		alpha = rng.choice(['ACGT', 'ACGTacgt', 'ACGTacgtNn-', ''.join(chr(i) for i in range(32, 127))])
		yield dict(k=rng.choice([None, rng.randrange(-2, 40)]), prefix=rng.choice([None, ''.join(rng.choice(alpha) for _ in range(ln))]),
		           default=rng.random() < 0.5)


# ---- generators added by the coverage audit --------------------------------------------------------
def rand_params(rng):
	k = rng.choice([5, 6, 7, 8, 8, 9, 10, 11, 12, 15, 16, 17, 21])
	return k, ''.join(rng.choice('ACGT') for _ in range(rng.choice([2, 2, 3, 3, 4])))


def neighbour(rng, k, p):
	"""a parameter set that differs from (k, p) in k, in the prefix, or in both -- in the ways a comparison by length,
	by width, by a part of the prefix or by one field only would miss"""
	def other(ch):
		return rng.choice([x for x in 'ACGT' if x != ch])
	how = rng.choice(['k+1', 'k-1', 'k-far', 'k-width', 'k+8', 'p-last', 'p-first', 'p-mid', 'p-longer', 'p-shorter', 'p-revcomp',
	                  'p-reversed', 'same-total', 'same-total2', 'both', 'both-far', 'default', 'tiny'])
	i = rng.randrange(len(p))
	r = {'k+1': (k + 1, p), 'k-1': (max(1, k - 1), p), 'k-far': (rng.choice([5, 9, 13, 19, 32]), p),
	     'k-width': ({4: 5, 8: 9, 16: 17}.get(k, 8 if k > 8 else 9), p), 'k+8': (k + 8, p),
	     'p-last': (k, p[:-1] + other(p[-1])), 'p-first': (k, other(p[0]) + p[1:]), 'p-mid': (k, p[:i] + other(p[i]) + p[i + 1:]),
	     'p-longer': (k, p + rng.choice('ACGT')), 'p-shorter': (k, p[:-1]), 'p-revcomp': (k, revcomp(p)), 'p-reversed': (k, p[::-1]),
	     'same-total': (k + 1, p[:-1]), 'same-total2': (max(1, k - 1), p + rng.choice('ACGT')),
	     'both': (k + rng.choice([-1, 1]), p[:-1] + other(p[-1])), 'both-far': rand_params(rng), 'default': (11, 'ATGAC'),
	     'tiny': (rng.choice([1, 3, 4]), p[:rng.choice([1, 2])])}[how]
	if r == (k, p) or r[0] > 32 or r[0] < 1 or not r[1]:
		r = (k + 1, p)
	return r


def gen_dist_params(ctx, n):
	"""random parameter pairs (and a third set for the options) on every combination of sources"""
	rng = ctx.rng
	made = 0
	while made < n:
		A = rand_params(rng)
		B = A if rng.random() < 0.3 else neighbour(rng, *A)
		C = rng.choice([A, A, B, neighbour(rng, *A)])
		q = rng.choice([['qs'], ['qs'], ['qs'], ['q'], ['ql']])
		r = rng.choice([['rs'], ['rs'], ['db'], ['db'], ['r'], ['rl'], ['square']])
		opts = rng.choice([None, None, None, C, C])
		if ('qs' in q) + ('rs' in r or 'db' in r) + (opts is not None) < 2 and rng.random() < 0.85:
			continue
		made += 1
		k, prefix = (None, None) if opts is None else (opts[0], opts[1].lower() if rng.random() < 0.25 else opts[1])
		yield dict(q=q, qp=list(A) if 'qs' in q else None, r=r, rp=list(B) if 'rs' in r else None,
		           db=list(B) if 'db' in r else rng.choice([None, None, list(C)]), k=k, prefix=prefix)


def gen_query_params(ctx, n):
	rng = ctx.rng
	for _ in range(n):
		A = rand_params(rng)
		B = A if rng.random() < 0.35 else neighbour(rng, *A)
		src = rng.choice([['sig'], ['sig'], ['sig'], ['files'], ['list']])
		yield dict(src=src, sp=list(B) if 'sig' in src else None, db=list(A))


def rand_form(rng, cmd):
	f = {}
	def maybe(name, values, p=0.6):
		if rng.random() < p:
			f[name] = rng.choice(values)
	maybe('db_opt', ['-d', '--db', '--db=', 'env', 'env'], 0.8)
	maybe('order', [rng.randrange(10 ** 6)], 0.7)
	maybe('out', ['existing', 'existing', 'fresh'] + (['stdout', 'stdout'] if cmd == 'query' else []), 0.6)
	maybe('cores', [None, 1, 2], 0.3)
	maybe('progress', [True], 0.2)
	if cmd == 'dist':
		maybe('usedb_opt', ['-d', '--use-db'], 0.7)
		maybe('square_opt', ['-s', '--square'], 0.7)
		maybe('k_opt', ['attached', '-k'], 0.6)
		maybe('p_opt', ['--prefix', '--prefix=', 'attached', '-p'], 0.8)
	else:
		maybe('sig_opt', ['--sigfile', '--sigfile=', '-s'], 0.7)
		maybe('outfmt', ['json', 'archive', 'csv', 'json', 'archive'], 0.8)
		maybe('strict', [True, False], 0.4)
		maybe('o_opt', ['--output', '-o'], 0.5)
	return f


def gen_dist_forms(ctx, n):
	"""the comparisons of the exhaustive stream, each under another spelling / order / channel of the same command line"""
	rng = ctx.rng
	base = [c for c in gen_dist_exhaustive()
	        if ('qs' in c['q']) + ('rs' in c['r'] or 'db' in c['r']) + (c['k'] is not None and c['prefix'] is not None) >= 2]
	for _ in range(n):
		c = dict(rng.choice(base))
		if c['prefix'] is not None and rng.random() < 0.3:
			c['prefix'] = c['prefix'].lower()
		if rng.random() < 0.3:
			c['dbv'] = rng.choice(DB_VARIANTS)
		if c['db'] is None and rng.random() < 0.3:
			c['db'] = rng.randrange(NCORE)   # a database that is named but not used must not matter
		c['form'] = rand_form(rng, 'dist')
		yield c


def gen_query_forms(ctx, n):
	rng = ctx.rng
	for _ in range(n):
		src = rng.choice([['sig'], ['sig'], ['sig'], ['sig'], ['files'], ['list']])
		c = dict(src=src, sp=rng.randrange(NFIXED) if 'sig' in src else None,
		         db=rng.choice(list(range(NCORE)) * 3 + ['testdb']), form=rand_form(rng, 'query'))
		if c['db'] == 'testdb' and 'sig' not in src:
			c['db'] = 0
		if c['db'] != 'testdb' and rng.random() < 0.3:
			c['dbv'] = rng.choice(DB_VARIANTS)
		yield c


def known_defect(c):
	"""GENUINE DEFECT found by this audit (repaired in /repo by a fix: commit; the input class is generated and judged
	like every other, this predicate only counts it): a signature file whose
	kmerspec_k attribute is an unsigned 8-bit integer, whose parameters are inferred (no -k/--prefix) and used to compute
	the other side from genome files.  KmerSpec kept the NumPy scalar, find_kmers' `-kmerspec.k` wrapped to 250 and the
	forward strand of every contig was only searched in its first 250 bytes: `gambit dist --qs FILE -r genome.fasta` exited 0
	with distances that were not those of the file's parameters.  Repair: repo_fixes/C14-uint8-k.diff
	(KmerSpec.__init__: k = int(k)).  Replay: repo_fixes/C14-uint8-k.replay.json."""
	if c.get('k') is not None or c.get('prefix') is not None:
		return False
	return ('qs' in c['q'] and c.get('qv') == 'k_u1' and ('r' in c['r'] or 'rl' in c['r'])) or \
	       ('rs' in c['r'] and c.get('rv') == 'k_u1' and ('q' in c['q'] or 'ql' in c['q']))


def gen_dist_variants(ctx, n):
	"""pre-computed signatures in other containers (see VARIANTS) on one or both sides"""
	rng = ctx.rng
	made = 0
	while made < n:
		a = rng.randrange(NFIXED)
		b = a if rng.random() < 0.4 else rng.randrange(NFIXED)
		side = rng.choice(['q', 'q', 'r', 'both'])
		q = ['qs'] if side in ('q', 'both') else rng.choice([['q'], ['ql'], ['qs']])
		r = ['rs'] if side in ('r', 'both') else rng.choice([['rs'], ['db'], ['r'], ['square']])
		c = dict(q=q, qp=a if 'qs' in q else None, r=r, rp=b if 'rs' in r else None, db=None, k=None, prefix=None)
		if 'qs' in q:
			c['qv'] = rng.choice(VARIANTS) if side in ('q', 'both') else 'plain'
		if 'rs' in r:
			c['rv'] = rng.choice(VARIANTS) if side in ('r', 'both') else 'plain'
		if 'db' in r:
			c['db'] = b if b < NCORE else rng.randrange(NCORE)
			c['dbv'] = rng.choice(DB_VARIANTS)
		if rng.random() < 0.3:
			c['k'], c['prefix'] = PARAMS[rng.choice([a, b])]
		if known_defect(c):
			ctx.count('former-defect:uint8-k-attribute (judged like every other case)')
		made += 1
		yield c


def gen_query_variants(ctx, n):
	rng = ctx.rng
	for _ in range(n):
		a = rng.randrange(NCORE)
		sp = a if rng.random() < 0.4 else rng.randrange(NFIXED)
		c = dict(src=['sig'], sp=sp, sv=rng.choice(VARIANTS), db=a, dbv=rng.choice(DB_VARIANTS))
		if rng.random() < 0.4:
			c['form'] = dict(outfmt=rng.choice(['json', 'archive']))
		yield c


def gen_proc(ctx, n):
	"""a real `python -m gambit` process: its exit status and standard streams (query without -o writes to standard output)"""
	rng = ctx.rng
	def two():
		a = rng.randrange(NCORE)
		return a, rng.choice([i for i in range(NCORE) if i != a])
	for i in range(n):
		a, b = two()
		t = i % 6
		if t == 0:
			yield 'query', dict(src=['sig'], sp=b, db=a, form=dict(proc=True, out='default'))
		elif t == 1:
			yield 'dist', dict(q=['qs'], qp=a, r=['rs'], rp=b, db=None, k=None, prefix=None, form=dict(proc=True))
		elif t == 2:
			yield 'query', dict(src=['sig'], sp=a, db=a, form=dict(proc=True, out='default', db_opt='env'))
		elif t == 3:
			k, p = PARAMS[b]
			yield 'dist', dict(q=['qs'], qp=a, r=['db'], rp=None, db=a, k=k, prefix=p, form=dict(proc=True, db_opt='env', usedb_opt='-d'))
		elif t == 4:
			yield 'query', dict(src=['sig'], sp=b, db=a, form=dict(proc=True, out=rng.choice(['fresh', 'existing', 'stdout']),
			                                                       outfmt=rng.choice(['json', 'archive'])))
		else:
			yield 'dist', dict(q=['qs'], qp=a, r=rng.choice([['db'], ['rs']]), rp=a, db=a, k=None, prefix=None, form=dict(proc=True))


def gen_kspec_forms(ctx, n):
	"""kspec_from_params called the way Python code calls it: NumPy-scalar k, keyword arguments"""
	rng = ctx.rng
	signed, unsigned = ['int8', 'int16', 'int32', 'int64', 'intp'], ['uint8', 'uint16', 'uint32', 'uint64']
	for _ in range(n):
		k = rng.choice([None, -3, 0, 1, 4, 5, 6, 7, 11, 16, 17, 32, 33])
		p = rng.choice([None, '', 'A', 'AT', 'at', 'aC', 'ATGAC', 'AN', 'ATG'])
		yield dict(k=k, prefix=p, default=rng.random() < 0.4, ktype=rng.choice(signed + (unsigned if k is None or k >= 0 else []) + [None]),
		           call=rng.choice(['pos', 'kw', 'kw-swapped', 'short']))


def gen_api(ctx, n):
	rng = ctx.rng
	for i in range(n):
		db = i % NCORE if i < NCORE else list(rand_params(rng))
		yield dict(db=db, dbv=rng.choice(DB_VARIANTS), load=rng.choice(['dir', 'files', 'ctor']),
		           params=rng.choice([None, 'obj', 'objkw', 'kw']), labels=rng.random() < 0.5,
		           parse_kw=rng.choice([None, 'serial', 'serial', 'threads', 'empty']), files_as=rng.choice(['list', 'tuple']))


def generate(ctx):
	for c in gen_kspec(ctx, ctx.pick(300, 3000)):
		ctx.count('stream:kspec')
		yield 'kspec', c
	for c in gen_query():
		ctx.count('stream:query-exhaustive')
		yield 'query', c
	for c in gen_dist_exhaustive():
		ctx.count('stream:dist-exhaustive')
		yield 'dist', c
	for c in gen_tree():
		ctx.count('stream:tree-exhaustive')
		yield 'tree', c
	for c in gen_create():
		ctx.count('stream:create-exhaustive')
		yield 'create', c
	for c in gen_dist_extra(ctx, ctx.pick(150, 1500)):
		ctx.count('stream:dist-random-malformed')
		yield 'dist', c
	# ---- streams added by the coverage audit (see the table in the module docstring) ----
	for c in gen_kspec_forms(ctx, ctx.pick(150, 1500)):
		ctx.count('stream:kspec-call-forms')
		yield 'kspec', c
	for c in gen_dist_params(ctx, ctx.pick(110, 1200)):
		ctx.count('stream:dist-random-parameter-pairs')
		c['st'] = 'params'
		yield 'dist', c
	for c in gen_query_params(ctx, ctx.pick(45, 500)):
		ctx.count('stream:query-random-parameter-pairs')
		c['st'] = 'params'
		yield 'query', c
	for c in gen_dist_forms(ctx, ctx.pick(70, 800)):
		ctx.count('stream:dist-command-line-forms')
		c['st'] = 'forms'
		yield 'dist', c
	for c in gen_query_forms(ctx, ctx.pick(60, 700)):
		ctx.count('stream:query-command-line-forms')
		c['st'] = 'forms'
		yield 'query', c
	for c in gen_dist_variants(ctx, ctx.pick(60, 700)):
		ctx.count('stream:dist-sigfile-variants')
		c['st'] = 'variants'
		yield 'dist', c
	for c in gen_query_variants(ctx, ctx.pick(40, 500)):
		ctx.count('stream:query-sigfile-variants')
		c['st'] = 'variants'
		yield 'query', c
	for c in gen_api(ctx, ctx.pick(14, 150)):
		ctx.count('stream:api-query_parse')
		yield 'api', c
	for kind, c in gen_proc(ctx, ctx.pick(6, 48)):
		ctx.count('stream:real-process')
		c['st'] = 'process'
		yield kind, c
	ctx.exhaustive = True
	ctx.extra['exhaustive_scope'] = (
		'dist: {-q, --ql, --qs x 4 parameter sets} x {-r, --rl, --square, --rs x 4, --use-db x 4 databases} x '
		'{no -k/-p, -k only, -p only, both x 4}; query: {files, list, -s x 6 parameter sets} x {no database, 4 databases} '
		'+ the repository test database x 5 foreign signature files; tree and signatures create: every source x option mode '
		'(x --db-params x database).  Parameter sets (6,AT) (7,AT) (6,AC) (7,AC) differ pairwise in k, prefix, or both.')
