"""C14 -- signatures built with different k-mer parameters are never compared silently.

Tie: B.  The real command line (`gambit.cli.cli`, in process through click's CliRunner) is run over the
option space that brings two signature sources together -- `dist` (3 kinds of query source x 5 kinds of
reference source x {no -k/-p, one of them, both} x parameter sets differing in k / prefix / both), `query`
(files / list / -s signature file x databases with different parameters, among them the repository's test
database), `tree`, `signatures create` (--db-params) -- and `common.kspec_from_params` directly.  For every
case the harness observes the exit status, the class of the error text, whether the output file exists, and
*which parameters the written numbers were computed with*: it owns the genomes, computes their k-mer sets
under every candidate parameter set with a 15-line pure-Python oracle, and identifies the (query, reference)
parameter pair whose Jaccard distances reproduce the output.  That observation is (a) fed to the extracted
property predicate `run_ok` (Spec/C14.v: both sides of the comparison equal; an error means non-zero status,
nothing compared, nothing written) together with the extracted declarative spec (`spec_dist`/`spec_query`:
differing sources must be refused), and (b) compared with the extracted model of the command
(Model/C14.v).  The query command is compared with the REPAIRED model (repo_fixes/C14.diff): on the command as
found `query -s` with foreign parameters is a VIOLATION (theorem C14_query_sigfile_refuted is its witness).

Coverage of the property text (audit).  Every stream runs the IMPLEMENTATION; "P" = the extracted predicate run_ok and
the declarative spec (differing sources must be refused; agreeing sources -> the written numbers are the oracle's
distances under that one set) are judged there, "M" = the run is also compared with the extracted model.

  clause / quantifier element / entry point                      stream(s)                                       judged
  query -s FILE vs database (k / prefix / both differ)            query-exhaustive (6 sets x 4 db + test db)      P M
  dist --qs vs --rs, --qs vs --use-db                             dist-exhaustive (4 x 4 sets)                    P M
  dist -k/-p vs --qs, vs --rs, vs --use-db; all three together    dist-exhaustive, dist-random-malformed          P M
  parameters inferred (files vs --qs/--rs/--use-db; query files)  dist-exhaustive, query-exhaustive (oracle)      P M
  -k or -p alone, bounds, bad nucleotides; kspec_from_params      kspec, dist-random-malformed                    P M
  tree / signatures create (--db-params)                          tree-exhaustive, create-exhaustive              P M
  -- added by the audit --------------------------------------------------------------------------------------------
  "all pairs": arbitrary (k, prefix) pairs -- k+-1, other index   dist-random-parameter-pairs,                    P M
    width (8/9, 16/17), k+8, one prefix letter (first/middle/     query-random-parameter-pairs
    last), longer/shorter/reversed/reverse-complemented prefix,   (signature files and databases are built on
    same total length, the default set, sets -k/-p cannot name    demand from the harness's own k-mer sets)
  option spellings (--db, --db=, GAMBIT_DB_PATH, dist -d / -s,    dist-command-line-forms,                        P M
    --prefix[=], -pXX, -kN, --sigfile[=], --output), option       query-command-line-forms
    order, lower-case prefix, a database named but not used,
    -c absent / 2, --progress
  query -f json / archive, --strict; result to standard output    query-command-line-forms                        P M
    (-o -); "no result is written" over a PRE-EXISTING file       (both commands: out=existing)
  pre-computed signatures in other containers: written by         dist-sigfile-variants, query-sigfile-variants   P M
    `gambit signatures create` itself (pipeline), integer ids,                                                    (n0: P)
    kmerspec_k stored as int8 / int32 / uint8, prefix stored
    lower-case / as bytes, 64-bit values, gzip, metadata, 0 / 1 /
    12 signatures; database as refs.db + refs.h5, 32-bit k
  pre-computed signatures SAVED BY ANOTHER PROGRAM through the    dist-api-written-signatures,                    P M
    public API (gambit.sigs), every writing form: container       query-api-written-signatures                    (save refused:
    {SignatureList, SignatureArray, from_arrays, copy of a        (40 forms x 2 of 9 scenarios quick, x 9         P; the command
    container, selection} x its OPTIONAL kmerspec argument        thorough: vs genome files = parameters          is run on what
    {given, not given} x {bare, AnnotatedSignatures} x            inferred from the file, vs a plain file, vs a   the failed call
    {dump_signatures, HDF5Signatures.create}.  The case names     database, with -k/-p, --square, both sides      left behind)
    what the signatures were BUILT with (the harness's k-mer      API-written, query -s)
    sets); as found a container that was not told its
    parameters cannot be saved (AttributeError): no file, no
    comparison.  A file that claims other parameters than its
    signatures were built with makes the command compare
    differing sides silently -> run_ok false
  the real process: `python -m gambit`, its exit status, its      real-process (6 per quick run)                  P M
    stderr / stdout (query without -o), GAMBIT_DB_PATH
  kspec_from_params as Python calls it: NumPy-scalar k (9 types), kspec-call-forms                                P M
    keyword / reordered / two-argument calls; result == plain
  gambit.query.query_parse (what `query GENOMES` rests on): db    api-query_parse                                 P M
    loaded three ways, params / kwargs, file_labels, parse_kw
  one process serving many command lines with changing            seq-command-lines-over-shared-files,            P M
    databases / files (stale state)                               seq-query_parse-over-shared-objects (see "state and aliasing")
  NOT covered: `dist --dump-params` (hidden debugging option, writes no result); `gambit.query.query()` and
  `jaccarddist_matrix()` called directly with foreign signatures (no exit status: outside the statement -- they do not
  look at the parameters at all, the guard lives in the command line only); --qdir/--rdir/--ldir (C08's subject).
  FOUND (and repaired in /repo): see known_defect() -- a signature file whose kmerspec_k attribute is an unsigned 8-bit integer.

State and aliasing (audit).  A single call on fresh objects cannot see a cache keyed too coarsely, a value written back
into an object of the caller, state a failed call leaves behind.  Entry points the property is observed through, and every
object they receive or create that can outlive one call:

  entry point                          long-lived / caller-supplied object                          a  b  c  d  e   stream
  gambit.cli.cli: dist, query, tree,   the click command objects (module globals) and the declared  S  S  S  S  -   seq
    signatures create  (in process;      defaults / envvars of their options
    `python -m gambit` = one call per  DEFAULT_KMERSPEC as bound in gambit.kmers, cli.common,        S  S  S  S  -   seq
    process: real-process stream)        cli.dist, cli.signatures ("parameters not given")
                                       CLIContext (ctx.obj: lazily opened engine / sessionmaker /    S  -  S  S  -   seq (two databases per script,
                                         signatures; one per invocation as found)                                      directory rewritten in place)
                                       module / class / function-attribute state of cli.common,      S  -  S  S  -   seq
                                         cli.dist, cli.query, cli.tree, cli.signatures, gambit.query
                                         (none as found: whatever a change adds)
                                       os.environ (GAMBIT_DB_PATH), the env mapping and the           S  S  S  S  -   seq
                                         argument list handed to the command, the working directory
                                       signature files (--qs/--rs/-s; HDF5, the handle is never      S  S  S  S  -   seq (ONE path per side,
                                         closed by the command), the database directory (SQLite +                      rewritten in place with other
                                         refs.gs), genome files, list files (click.File handles)                       parameters / container)
                                       the output file (-o)                                           documented to be written: judged per step as before
                                       OpenMP thread count (set by -c, process-wide)                  not a source of k-mer parameters: not judged
                                       worker processes of calc_file_signatures (pool per call)      -  -  -  -  S   seq (forked after earlier steps ran)
  common.kspec_from_params             its result (DEFAULT_KMERSPEC itself, or a new frozen          S  S  S  S  -   seq (kspec steps; every -k/-p)
                                         KmerSpec); arguments are immutable
  gambit.query.query_parse             db (ReferenceDatabase: ORM objects in a session, HDF5-backed  A  A  A  A  A   apiseq
                                         signatures, sig_indices), files (list / tuple / caller's
                                         own sequence), file_labels (list), params (QueryParams,
                                         a mutable attrs object), parse_kw (dict), the QueryResults
                                         it returned earlier
  gambit.sigs.dump_signatures /        the caller's container (SignatureList / SignatureArray /      -  -  -  -  -   api-written (one fresh container and
    HDF5Signatures.create (writer of     AnnotatedSignatures and its optional kmerspec), the h5py                        one new file per writing form; the
    a pre-computed source, run before    file it writes; module state of gambit.sigs / gambit.kmers                      FILE is then shared by every command
    the command line reads the file)     (DEFAULT_KMERSPEC) it may fall back on                                          line that names it)
  a = reused by >= 2 calls whose other arguments differ (other database / parameters / size: the 'extra' database variant
  holds two more signatures than genomes), in both orders (scripts are also run reversed);  b = compared after every call
  with a copy taken before (files: sha1; objects: vars() / observable fields; process-wide state: process_state());
  c = calls that fail part-way (refused mismatch, signature file / database cut in the middle, a genome that does not exist
  in the middle of a list, a caller's sequence that raises while iterated, labels that do not fit) followed by a good call --
  the one that ran before the failure or another -- on the same objects;  d = a step repeated later in the script must have
  the same outcome (status, error class, recognised parameters, numbers);  e = 30% of the query_parse scripts run in a second
  thread, parse_kw asks for threads / processes (fork after earlier calls); the command line is not advertised as callable
  from threads.  S = stream seq, A = stream apiseq; before the audit all of a-d were '-' (every case built its own objects;
  the process was shared by all cases, so hidden state could fail a LATER single-call case whose replay did not reproduce).
  A script is 2-6 steps over three parameter sets, two of which differ in one prefix letter only; every step is judged by
  the evaluator and verdict() of its single-call kind (predicate run_ok, declarative spec, model).  Every script runs in a
  fork of a template process that has imported the implementation but never run it (start_template_process): the script
  carries its whole history, in the campaign as in a replay.  The sequence streams run first.
  Code as found: query_parse adds a 'progress' entry to the caller's parse_kw (parse_kw.setdefault) -- not a k-mer
  parameter, nothing of the property follows from it: counted, not judged (every other change of parse_kw is); a
  one-line repair of that piece of API hygiene is proposed in repo_fixes/C14-parse_kw-alias.diff (not a C14 defect)."""
import itertools
import os
import re

PROP = 'C14'
RULE = ('dist/query/tree/create: one command line = (kind of query source, kind of reference source, parameter '
        'sets stored in the pre-computed sources / the database, -k, --prefix[, --db-params]); kspec: one '
        '(k, prefix, default) triple.  non-trivial: dist/query: at least two parameter sources are present '
        '(pre-computed signatures, database in use, explicit options); tree/create: explicit options or --db-params '
        'are present; kspec: exactly one of -k/--prefix, or a value at a validation boundary.  A case may also carry: '
        'parameter sets by value ([k, prefix]: random pairs differing in k, one prefix letter, prefix length, both, same '
        'total length ...), qv/rv/sv/dbv = the container variant of a pre-computed source (written by `signatures create`, '
        'integer ids, k attribute as int8/int32/uint8, prefix lower-case/bytes, 64-bit values, gzip, metadata, 0/1/12 '
        'signatures; database with .db/.h5 extensions), form = spelling / order of the options, GAMBIT_DB_PATH, -f '
        'json/archive, --strict, output to a pre-existing file or standard output, a real `python -m gambit` process; '
        'qv/rv/sv = api:<container>:<ks|none>:<bare|annot>:<dump|create>: the file was saved through gambit.sigs from that '
        'container, with / without its optional kmerspec argument (qp/rp/sp = what the signatures were built with); '
        'kspec: ktype/call = NumPy-scalar k and keyword call forms; api: one direct call of gambit.query.query_parse '
        '(database loading path, params/kwargs, labels, parse_kw).  Same non-triviality rule; api: always.  '
        'seq: one script = 2-6 steps {cmd: dist|query|tree|create|kspec, c: a case of that kind; qslot/rslot/sslot/dbslot: the '
        'source is read from one shared path that is rewritten in place; bad: an input cut in the middle / a missing genome in '
        'a list} run in one fresh process; apiseq: one script = 2-3 databases + 2-6 query_parse calls {db, p/pas: shared '
        'QueryParams object, pk: shared parse_kw dict, labels, files: list|tuple|missing|raises} over shared objects, optionally '
        'in a second thread.  non-trivial: at least two steps, one of which is non-trivial by the rule of its kind (apiseq: at '
        'least two calls)')
TRUSTED = ['harness/c14.py: synthetic genomes, the pure-Python k-mer/Jaccard oracle used to recognise which parameters '
           'an output was computed with (tolerance 1.01e-4, candidates checked to be >= 1e-3 apart), construction of '
           'signature files (dump_signatures) and of small databases (SQLAlchemy models) from the harness\'s own k-mer sets '
           '(the api-written streams put every other public writing form of gambit.sigs under test instead of trusting it)',
           'the commands are run with -c 1 and os.cpu_count() patched to 1 (one worker process per pool instead of 16; '
           'pools are C13\'s subject)',
           'click: option parsing, CliRunner, ClickException -> exit status 1 with "Error: <message>"; lazy opening of '
           'the query command\'s -o file',
           'gambit.sigs.load_signatures returns the parameters stored in the file; calc_file_signatures computes with '
           'the parameters it is given (C01/C12/C13 are about those)',
           'h5py for rewriting the kmerspec_k / kmerspec_prefix attributes of the variant signature files; subprocess + '
           'PYTHONPATH (set by ./check) for the real-process stream',
           'sequence streams: os.fork / pipes / pickle (one process per script, forked from a template process that has '
           'imported the implementation and never run it), hashlib.sha1 of the input files, vars() / repr of the '
           'caller\'s objects, shutil for rewriting a shared path in place']
ASSUMPTIONS = ['signature files and databases given on the command line are loadable (C12 covers foreign files); '
               '--prefix values are ASCII; k <= 32',
               'the parameters of a pre-computed source are those its signatures were BUILT with (the harness builds them from its '
               'own k-mer sets), also when the file was saved through the public API from a container that was not told them '
               '(api:...:none:... forms); when the API refuses to save such a container (code as found: AttributeError) there is '
               'nothing to compare: the command is run on whatever was left at the path and judged by the predicate alone; '
               'a container that WAS told its parameters is expected to be saved (else: correspondence broken, not a violation)',
               'the repaired query command (repo_fixes/C14.diff: ClickException when the -s file\'s parameters differ '
               'from the database\'s) is the algorithm the query theorems and the model comparison are about; the '
               'command as found is kept as query_cmd false with C14_query_sigfile_refuted',
               '`gambit tree -s FILE -k K -p P` ignores the options without checking them: one source only, outside the '
               'property\'s statement (which names the distance command); modelled as such and counted, not flagged',
               'the error class is compared with the model, but only exit status / output / compared parameters decide '
               'a property violation',
               'signature files without signatures (variant n0) and pre-computed signatures with k <= 4 (8-bit indices, refused by the '
               'distance kernel with a ValueError) are outside the model: predicate and declarative spec only',
               'GENUINE DEFECT of the code as found, repaired by a fix: commit (repo_fixes/C14-uint8-k.diff; see known_defect()): '
               'a signature file whose kmerspec_k attribute is an unsigned 8-bit integer, parameters inferred, other side '
               'computed from genome files: `gambit dist --qs FILE -r genome.fasta` exited 0 with wrong distances '
               '(find_kmers: -uint8(k) wraps to 250); replay repo_fixes/C14-uint8-k.replay.json, corpus case; the input '
               'class is generated and judged like every other',
               'a pre-existing output file that is emptied but holds no result after an error counts as "no result written" '
               'for query (its -o file is opened lazily by click); for dist any file left behind counts as written',
               'sequence streams: hidden state is looked for within one script (2-6 calls in one fresh process), not across '
               'scripts; a step on an unreadable input (signature file / database cut in the middle, missing genome, a '
               'sequence of files that raises, labels that do not fit) is judged by the predicate alone (error -> non-zero, '
               'nothing written); "unmodified" covers the argument list, the env mapping, os.environ, the working directory, '
               'the bytes of every input file, the default parameter set and the declared option defaults of every command, '
               'and for query_parse the files / labels / QueryParams (vars) / parse_kw / observable fields of the databases / '
               'earlier results; the OpenMP thread count set by -c and the \'progress\' entry query_parse adds to the caller\'s '
               'parse_kw (code as found) are not sources of k-mer parameters and are not judged']
CORRESPONDENCES = ['kspec', 'dist', 'query', 'tree', 'create', 'api', 'seq', 'apiseq']
SHRINK = False
BATCH = 400

TOL = 1.01e-4
SEP = 1e-3

#: parameter sets: 0 = the test database's; 1 differs in k, 2 in prefix, 3 in both; 4 default; 5 longer prefix
PARAMS = [(6, 'AT'), (7, 'AT'), (6, 'AC'), (7, 'AC'), (11, 'ATGAC'), (6, 'ATG')]
NCORE = 4   # PARAMS[:NCORE] have databases
NFIXED = len(PARAMS)   # PARAMS[:NFIXED] have signature files; further sets are registered from explicit options

ERRCLASS = {3: 'nodb', 4: 'needboth', 5: 'mink', 6: 'minprefix', 7: 'badnuc', 31: 'query-ref', 32: 'opt-query',
            33: 'opt-ref', 34: 'dbparams-excl', 35: 'sig-db'}
MISMATCH = {'query-ref', 'opt-query', 'opt-ref', 'sig-db'}

S = {}   # fixtures


def errclass_of_code(c):
	if c is None:
		return None
	if 10 < c < 20:
		return 'exclusive'
	if 20 < c < 30:
		return 'required'
	return ERRCLASS.get(c, f'code{c}')


def errclass_of_text(text):
	m = re.search(r'Error: (.*)', text or '', re.S)
	if not m:
		return 'other'
	t = m.group(1)
	if '--db-params options are mutually exclusive' in t:
		return 'dbparams-excl'
	if 'are mutually exclusive' in t:
		return 'exclusive'
	if re.match(r'One of .* is required', t):
		return 'required'
	if 'Must supply path to database' in t:
		return 'nodb'
	if 'Must specify values for both' in t:
		return 'needboth'
	if 'k must be at least' in t:
		return 'mink'
	if 'Prefix length must be at least' in t:
		return 'minprefix'
	if 'Invalid nucleotide codes in prefix' in t:
		return 'badnuc'
	if re.search(r'do(es)? not match', t):
		if 'command line options' in t:
			return 'opt-query' if 'query signatures' in t else 'opt-ref'
		if 'database' in t:
			return 'sig-db'
		return 'query-ref'
	return 'other'


# ---- the harness's own genomes, k-mers, distances ------------------------------------------------
COMP = {'A': 'T', 'C': 'G', 'G': 'C', 'T': 'A'}


def revcomp(s):
	return ''.join(COMP[c] for c in reversed(s))


def kmer_set(seq, k, prefix):
	"""indices (base 4, A<C<G<T, first nucleotide most significant) of the k-mers following `prefix` on either strand"""
	out = set()
	n = len(prefix)
	for s in (seq, revcomp(seq)):
		i = s.find(prefix)
		while i >= 0:
			km = s[i + n:i + n + k]
			if len(km) == k:
				v = 0
				for c in km:
					v = v * 4 + 'ACGT'.index(c)
				out.add(v)
			i = s.find(prefix, i + 1)
	return out


def jaccard(a, b):
	u = len(a | b)
	return 0.0 if u == 0 else 1.0 - len(a & b) / u


def sigs_of(side, pi):
	"""k-mer sets of the query ('q') or reference ('r') genomes under PARAMS[pi] (memoised)"""
	key = (side, pi)
	if key not in S['sigs']:
		k, p = PARAMS[pi]
		S['sigs'][key] = [kmer_set(s, k, p) for _, s in S['genomes'][side]]
	return S['sigs'][key]


def dmat(qsets, rsets):
	return [[jaccard(a, b) for b in rsets] for a in qsets]


def close(m1, m2):
	return len(m1) == len(m2) and all(len(r1) == len(r2) and all(abs(x - y) <= TOL for x, y in zip(r1, r2))
	                                  for r1, r2 in zip(m1, m2))


def candidates(c=None):
	"""candidate parameter sets for recognising an output: the fixed ones plus the case's explicit options"""
	out = list(range(NFIXED))
	if c is not None and c.get('k') is not None and c.get('prefix') is not None:
		k, p = c['k'], c['prefix'].upper()
		if 1 <= k <= 32 and len(p) >= 1 and all(ch in 'ACGT' for ch in p):
			i = param_index(k, p)
			if i not in out:
				out.append(i)
	if c is not None:
		# parameter sets outside the fixed ones that the case's own sources carry (random-parameter streams)
		for f in ('qp', 'rp', 'db', 'sp'):
			i = pidx(c.get(f))
			if isinstance(i, int) and i not in out:
				out.append(i)
	return out


def param_index(k, p):
	if (k, p) not in PARAMS:
		PARAMS.append((k, p))
	return PARAMS.index((k, p))


def pidx(x):
	"""a parameter reference in a case -> index into PARAMS.  Cases name a fixed set by its index (stable) and any
	other set by value, [k, 'PREFIX'] (registered on first use, so that a replay file is self-contained)"""
	if x is None or isinstance(x, (int, str)):
		return x   # str: 'testdb'
	return param_index(int(x[0]), str(x[1]))


def resolved(c):
	r = dict(c)
	for f in ('qp', 'rp', 'db', 'sp'):
		if f in r:
			r[f] = pidx(r[f])
	return r


def fopt(c, name, default=None):
	"""an entry of the case's optional 'form' (spelling / order / channel of the command line; absent = the plain form)"""
	return (c.get('form') or {}).get(name, default)


def make_genomes(rng):
	def rseq(n):
		return ''.join(rng.choice('ACGT') for _ in range(n))

	def mutate(s, r):
		return ''.join(rng.choice('ACGT') if rng.random() < r else c for c in s)
	base = rseq(9000)
	q = [(f'q{i + 1}', mutate(base, 0.01 + 0.012 * i)) for i in range(2)]
	r = [(f'r{i + 1}', mutate(base, 0.02 + 0.015 * i)) for i in range(3)]
	return dict(q=q, r=r)


def separated():
	"""every observable used for recognition must tell a run with one parameter set on both sides apart from
	every other run (two mixed runs need not be told apart from each other: both violate the property)"""
	def far(m1, m2):
		return any(abs(x - y) >= SEP for r1, r2 in zip(m1, m2) for x, y in zip(r1, r2))
	qr, sq, vec = {}, {}, {}
	for a in candidates():
		sq[(a, a)] = dmat(sigs_of('q', a), sigs_of('q', a))
		for b in candidates():
			qr[(a, b)] = dmat(sigs_of('q', a), sigs_of('r', b))
			if b < NCORE:
				vec[(a, b)] = [[min(row)] for row in qr[(a, b)]]
	for mats in (qr, sq, vec):
		for k1 in mats:
			if k1[0] == k1[1]:
				for k2 in mats:
					if k2 != k1 and not far(mats[k1], mats[k2]):
						return False
	# the two-leaf tree: a leaf branch is d or d/2
	d = [jaccard(*sigs_of('q', a)) for a in candidates()]
	for i, j in itertools.permutations(range(len(d)), 2):
		if abs(d[i] - d[j]) < SEP or abs(d[i] - 2 * d[j]) < SEP:
			return False
	return all(len(s) > 0 for side in 'qr' for a in candidates() for s in sigs_of(side, a))


# ---- signature files and databases, built on demand ---------------------------------------------
#: how a pre-computed signature file differs from the plain one the harness writes with dump_signatures
#: (same k-mer sets, same recorded parameters up to what KmerSpec canonicalises; n0/n1/many: another number of signatures)
VARIANTS = ('plain', 'created', 'intids', 'k_i1', 'k_i4', 'k_u1', 'p_lower', 'p_bytes', 'wide', 'gzip', 'meta', 'n0', 'n1', 'many')
#: variants of a database directory: other accepted file extensions, k stored as a 32-bit integer
DB_VARIANTS = ('plain', 'altext', 'k_i4')


#: how ANOTHER PROGRAM writes a file of pre-computed signatures through the public API of gambit.sigs (the harness's plain
#: file is one of these forms: list / ks / annot / dump): 'api:<container>:<ks|none>:<bare|annot>:<dump|create>' =
#: the in-memory container the signatures are collected in x whether its OPTIONAL kmerspec argument is given x bare or
#: wrapped in AnnotatedSignatures (string ids) x written with dump_signatures() or HDF5Signatures.create().
#: The signatures are the harness's own k-mer sets under PARAMS[pi] in every form: what the file holds was built with
#: PARAMS[pi] whatever the container was told.
API_CONTAINERS = ('list', 'array', 'arrays', 'copy', 'subset')
API_FORMS = tuple(f'api:{c}:{s}:{w}:{f}' for c in API_CONTAINERS for s in ('ks', 'none') for w in ('bare', 'annot')
                  for f in ('dump', 'create'))


def is_api_form(variant):
	return isinstance(variant, str) and variant.startswith('api:')


def write_api_sigfile(path, side, pi, variant):
	"""save the k-mer sets of one side under PARAMS[pi] the way `variant` says (may raise: the API refuses)"""
	import numpy as np
	import h5py
	from gambit.kmers import KmerSpec
	from gambit.sigs import SignatureList, SignatureArray, AnnotatedSignatures, dump_signatures
	from gambit.sigs.base import BOUNDS_DTYPE
	from gambit.sigs.hdf5 import HDF5Signatures
	_, cont, stated, wrap, writer = variant.split(':')
	k, p = PARAMS[pi]
	ks = KmerSpec(k, p)
	given = ks if stated == 'ks' else None
	arrs = [np.array(sorted(x), dtype=ks.index_dtype) for x in sigs_of(side, pi)]
	if cont == 'list':
		sigs = SignatureList(arrs, given)
	elif cont == 'array':
		sigs = SignatureArray(arrs, given)
	elif cont == 'arrays':
		bounds = np.cumsum([0] + [len(a) for a in arrs]).astype(BOUNDS_DTYPE)
		sigs = SignatureArray.from_arrays(np.concatenate(arrs), bounds, given)
	elif cont == 'copy':
		sigs = SignatureArray(SignatureList(arrs, given))   # the parameters are taken over from the wrapped container
	else:
		sigs = SignatureArray(arrs + arrs[:1], given)[list(range(len(arrs)))]   # a selection keeps its parent's parameters
	if wrap == 'annot':
		sigs = AnnotatedSignatures(sigs, [n for n, _ in S['genomes'][side]])
	if writer == 'dump':
		dump_signatures(path, sigs)
	else:
		with h5py.File(path, 'w') as f:
			HDF5Signatures.create(f, sigs)


def unsaved(c):
	"""the API refused to save a source of the case (a container that was not told its parameters): there are no pre-computed
	signatures to compare; the command is still run on whatever the failed call left at the path and judged by the
	property predicate alone (an error, nothing written -- or the sides that WERE compared agree)"""
	refused = S.get('save_refused') or {}
	for on, pkey, vkey, side in (('qs' in c.get('q', ()), 'qp', 'qv', 'q'), ('rs' in c.get('r', ()), 'rp', 'rv', 'r'),
	                             ('sig' in c.get('src', ()), 'sp', 'sv', 'q')):
		if on and is_api_form(c.get(vkey)) and (side, c[pkey], c[vkey]) in refused:
			return True
	return False


def sel_sets(sets, variant, side):
	"""the k-mer sets a signature-file variant holds, in file order"""
	if variant == 'n0':
		return []
	if variant == 'n1':
		return sets[:1]
	if variant == 'many':
		return sets * (6 if side == 'q' else 4)
	return sets


def write_sigfile(path, side, pi, variant='plain', meta=None):
	import numpy as np
	import h5py
	from gambit.kmers import KmerSpec
	from gambit.sigs import SignatureList, AnnotatedSignatures, SignaturesMeta, dump_signatures
	k, p = PARAMS[pi]
	ks = KmerSpec(k, p)
	dt = np.dtype('u8') if variant == 'wide' else ks.index_dtype
	names = [n for n, _ in S['genomes'][side]]
	sets = sel_sets(sigs_of(side, pi), variant, side)
	ids = sel_sets(names, variant, side)
	if variant == 'many':
		ids = [f'{n}_{j}' for j, n in enumerate(ids)]
	arrs = [np.array(sorted(x), dtype=dt) for x in sets]
	if variant == 'extra':
		# two signatures no genome of the database refers to, in front: the database's index array is not 0..n-1
		arrs = [np.array(sorted(x), dtype=dt) for x in sigs_of('q', pi)] + arrs
		ids = ['x1', 'x2'] + list(ids)
	if variant == 'intids':
		ids = np.arange(len(arrs))
	elif variant == 'n0':
		ids = np.array([], dtype='U1')
	if meta is None:
		meta = SignaturesMeta(id='v', name='variant', version='1.0', id_attr='key', description='c14', extra=dict(a=1)) \
			if variant == 'meta' else SignaturesMeta()
	kw = dict(compression='gzip', compression_opts=4) if variant == 'gzip' else {}
	dump_signatures(path, AnnotatedSignatures(SignatureList(arrs, ks, dtype=dt), ids, meta), 'hdf5', **kw)
	attrs = {'k_i1': ('kmerspec_k', np.int8(k)), 'k_i4': ('kmerspec_k', np.int32(k)), 'k_u1': ('kmerspec_k', np.uint8(k)),
	         'p_lower': ('kmerspec_prefix', p.lower()), 'p_bytes': ('kmerspec_prefix', np.bytes_(p.encode('ascii')))}
	if variant in attrs:
		with h5py.File(path, 'r+') as f:
			name, value = attrs[variant]
			del f.attrs[name]
			f.attrs[name] = value


def sigfile(side, pi, variant='plain'):
	"""path of the signature file of the query / reference genomes under PARAMS[pi] (None: it could not be made)"""
	key = (side, pi) if variant in (None, 'plain') else (side, pi, variant)
	if key not in S['sigfile']:
		path = os.path.join(S['W'], f'{side}sigs_{pi}' + ('' if len(key) == 2 else '_' + variant.replace(':', '-')) + '.gs')
		if is_api_form(variant):
			try:
				write_api_sigfile(path, side, pi, variant)
			except Exception as e:
				if variant.split(':')[2] == 'ks':
					# the container was told its parameters: the public API is expected to save it
					S['sigfile'][key] = None
					S['create_failed'] = f'gambit.sigs ({variant}): {type(e).__name__}: {e}'
					return None
				# not told: refusing to write a file that would have to claim SOME parameters is the correct outcome
				S['save_refused'][key] = f'{type(e).__name__}: {e}'
		elif variant == 'created':
			# the real pipeline: the file is the output of `gambit signatures create` on the genome files
			k, p = PARAMS[pi]
			if pi == 4:
				args = []
			elif pi < NCORE and side == 'q':
				args = ['--db-params']
			else:
				args = ['-k', k, '--prefix', p]
			pre = ['-d', S['db'][pi]] if args == ['--db-params'] else []
			ex, err, text = invoke(pre + ['signatures', 'create', '-o', path, '--no-progress', '-c', 1] + args + S['files'][side])
			if ex != 0 or not os.path.exists(path):
				S['sigfile'][key] = None
				S['create_failed'] = f'{S.get("last_cmd")}: exit {ex} {err} {text[-200:]!r}'
				return None
		else:
			write_sigfile(path, side, pi, variant or 'plain')
		S['sigfile'][key] = path
	return S['sigfile'][key]


def db_dir(pi, variant='plain'):
	"""a database directory whose reference signatures are those of the reference genomes under PARAMS[pi]"""
	import shutil
	from gambit.sigs import SignaturesMeta
	if pi == 'testdb':
		return S['testdb']
	key = pi if variant in (None, 'plain') else (pi, variant)
	if key not in S['db']:
		d = os.path.join(S['W'], f'db_{pi}' + ('' if key == pi else '_' + variant))
		os.makedirs(d, exist_ok=True)
		shutil.copy(os.path.join(S['db'][0], 'refs.gdb'), os.path.join(d, 'refs.db' if variant == 'altext' else 'refs.gdb'))
		write_sigfile(os.path.join(d, 'refs.h5' if variant == 'altext' else 'refs.gs'), 'r', pi,
		              variant if variant in ('k_i4', 'extra') else 'plain', SignaturesMeta(id='c14', id_attr='key'))
		S['db'][key] = d
	return S['db'][key]


# ---- shared objects of the sequence streams: files that are REWRITTEN IN PLACE, inputs that fail part-way -------------
def _replace_file(src, dst):
	"""dst becomes a copy of src under a new inode (a handle a former command left open on the old file stays valid)"""
	import gc
	import shutil
	gc.collect()
	if os.path.exists(dst):
		os.remove(dst)
	shutil.copyfile(src, dst)


def slot_sigfile(side, slot, pi, variant):
	"""ONE path per (side, slot) whose content follows the step that uses it: same path, other parameters / container"""
	src = sigfile(side, pi, variant)
	if src is None:
		return None
	key = ('sig', side, slot)
	path = os.path.join(S['W'], f'slot_{side}{slot}.gs')
	if S['slots'].get(key) != (pi, variant or 'plain'):
		if key in S['slots']:
			S['rewrites'] = S.get('rewrites', 0) + 1
		_replace_file(src, path)
		S['slots'][key] = (pi, variant or 'plain')
	return path


def slot_db(slot, pi, variant):
	"""ONE database directory per slot whose files follow the step that uses it"""
	src = db_dir(pi, variant)
	key = ('db', slot)
	d = os.path.join(S['W'], f'slot_db{slot}')
	if S['slots'].get(key) != (pi, variant or 'plain'):
		import gc
		import shutil
		gc.collect()
		if key in S['slots']:
			S['rewrites'] = S.get('rewrites', 0) + 1
		shutil.rmtree(d, ignore_errors=True)
		os.makedirs(d)
		for fn in sorted(os.listdir(src)):
			shutil.copyfile(os.path.join(src, fn), os.path.join(d, fn))
		S['slots'][key] = (pi, variant or 'plain')
	return d


def src_sigfile(c, side, pkey, vkey, slotkey):
	"""the pre-computed signature file a case names: the fixed file of its parameters / variant, or a shared slot"""
	if c.get(slotkey) is None:
		return sigfile(side, c[pkey], c.get(vkey))
	return slot_sigfile(side, c[slotkey], c[pkey], c.get(vkey))


def db_path(c, default_variant='plain'):
	if c.get('dbslot') is not None and c['db'] != 'testdb':
		return slot_db(c['dbslot'], c['db'], c.get('dbv') or default_variant)
	return db_dir(c['db'], c.get('dbv') or default_variant)


def truncated(path):
	"""a copy of a signature file cut in the middle (it cannot be loaded: the command fails after what came before it)"""
	if path is None:
		return None
	key = ('trunc', path)
	if key not in S['bad']:
		data = open(path, 'rb').read()
		out = os.path.join(S['W'], f'trunc_{len(S["bad"])}.gs')
		with open(out, 'wb') as f:
			f.write(data[:max(64, len(data) // 2)])
		S['bad'][key] = out
	return S['bad'][key]


def truncated_db(path):
	"""a copy of a database directory whose signature file is cut in the middle"""
	import shutil
	key = ('truncdb', path)
	if key not in S['bad']:
		d = os.path.join(S['W'], f'truncdb_{len(S["bad"])}')
		os.makedirs(d)
		for fn in sorted(os.listdir(path)):
			src = os.path.join(path, fn)
			if fn.endswith(('.gs', '.h5')):
				data = open(src, 'rb').read()
				with open(os.path.join(d, fn), 'wb') as f:
					f.write(data[:max(64, len(data) // 2)])
			else:
				shutil.copyfile(src, os.path.join(d, fn))
		S['bad'][key] = d
	return S['bad'][key]


def missing_list(side):
	"""a list file that names a genome file that does not exist BETWEEN the real ones: signatures are being computed
	when the command fails"""
	key = ('missing', side)
	if key not in S['bad']:
		paths = list(S['files'][side])
		paths.insert(1, os.path.join(S['W'], f'no_such_genome_{side}.fasta'))
		out = os.path.join(S['W'], f'{side}_list_missing.txt')
		with open(out, 'w') as f:
			f.write('\n'.join(paths) + '\n')
		S['bad'][key] = out
	return S['bad'][key]


# ---- fixtures -----------------------------------------------------------------------------------
def setup(ctx):
	import random
	from vf import impl
	impl.check_import()
	from gambit.sigs import SignaturesMeta
	from gambit.db.models import Base, ReferenceGenomeSet, Taxon, Genome, AnnotatedGenome
	from sqlalchemy import create_engine
	from sqlalchemy.orm import Session

	W = impl.scratch_dir('gambit-verif-c14-')
	S.clear()
	S['W'] = W
	S['n'] = 0
	for attempt in range(20):
		S['sigs'] = {}
		S['genomes'] = make_genomes(random.Random(1000 * ctx.seed + 14 + attempt))
		if separated():
			break
	else:
		raise RuntimeError('could not generate genomes whose distances tell the parameter sets apart')
	S['files'] = {}
	for side in 'qr':
		paths = []
		for name, seq in S['genomes'][side]:
			p = os.path.join(W, name + '.fasta')
			with open(p, 'w') as f:
				f.write(f'>{name} synthetic\n')
				for i in range(0, len(seq), 70):
					f.write(seq[i:i + 70] + '\n')
			paths.append(p)
		S['files'][side] = paths
		lp = os.path.join(W, side + '_list.txt')
		with open(lp, 'w') as f:
			f.write('\n'.join(paths) + '\n')
		S['files'][side + 'l'] = lp

	S['sigfile'] = {}
	S['save_refused'] = {}
	S['db'] = {}
	S['slots'] = {}
	S['bad'] = {}
	S['watch'] = None
	for pi in range(NFIXED):
		for side in 'qr':
			sigfile(side, pi)
	for pi in range(NCORE):
		d = os.path.join(W, f'db_{pi}')
		os.makedirs(d)
		engine = create_engine('sqlite:///' + os.path.join(d, 'refs.gdb'))
		Base.metadata.create_all(engine)
		with Session(engine) as session:
			gset = ReferenceGenomeSet(key='c14', version='1', name='c14 harness')
			genus = Taxon(key='genus', name='Genus', rank='genus', distance_threshold=0.9, genome_set=gset)
			session.add(gset)
			for i, (name, _) in enumerate(S['genomes']['r']):
				sp = Taxon(key=f'sp{i}', name=f'Genus sp{i}', rank='species', distance_threshold=0.3, parent=genus, genome_set=gset)
				g = Genome(key=name, description=name)
				session.add(AnnotatedGenome(genome=g, genome_set=gset, taxon=sp, organism=name))
			session.commit()
		engine.dispose()
		write_sigfile(os.path.join(d, 'refs.gs'), 'r', pi, 'plain', SignaturesMeta(id='c14', id_attr='key'))
		S['db'][pi] = d
	S['testdb'] = os.path.join(ctx.repo, 'tests', 'data', 'testdb_210818')
	ctx.rule(RULE)
	S['template'] = start_template_process()


def outpath():
	S['n'] += 1
	return os.path.join(S['W'], f'out_{S["n"]}')


def invoke(args, env=None, proc=False):
	"""-> (exit status, error class or None, captured text); S['stdout'] holds what went to standard output.
	proc: a real `python -m gambit` process (its exit status, its standard streams) instead of click's CliRunner"""
	from click.testing import CliRunner
	from unittest import mock
	import gambit.cli
	args = [str(a) for a in args]
	S['last_cmd'] = ' '.join(f'{k}={os.path.basename(v)}' for k, v in (env or {}).items()) + (' ' if env else '') + \
		('python -m gambit ' if proc else 'gambit ') + ' '.join(a.replace(S['W'] + os.sep, '') for a in args)
	if proc:
		import subprocess
		import sys
		e = dict(os.environ)
		e.pop('GAMBIT_DB_PATH', None)
		e.update(env or {})
		r = subprocess.run([sys.executable, '-m', 'gambit'] + args, env=e, capture_output=True, text=True, timeout=300,
		                   stdin=subprocess.DEVNULL)
		S['stdout'] = r.stdout
		if r.returncode == 0:
			return 0, None, r.stderr
		if 'Error: ' in r.stderr and 'Traceback' not in r.stderr:
			return r.returncode, errclass_of_text(r.stderr), r.stderr
		last = ([l for l in r.stderr.strip().split('\n') if l.strip()] or ['?'])[-1]
		return r.returncode, 'exception:' + last.split(':')[0].strip(), r.stderr[-600:]
	watch = S.get('watch')
	if watch is not None:
		before = (list(args), None if env is None else dict(env), snapshot_inputs(args, env))
	# a one-CPU machine: the worker pools of calc_file_signatures (C13's subject) get one process instead of 16
	with mock.patch('os.cpu_count', return_value=1):
		r = CliRunner().invoke(gambit.cli.cli, args, env=env)
	if watch is not None:
		after = (list(args), None if env is None else dict(env), snapshot_inputs(before[0], before[1]))
		for name, b, a in zip(('the argument list', 'the environment mapping', 'input files'), before, after):
			if a != b:
				if isinstance(b, dict) and isinstance(a, dict):
					diff = {k: [b.get(k), a.get(k)] for k in sorted(set(a) | set(b)) if a.get(k) != b.get(k)}
				else:
					diff = [b, a]
				watch.append(f'{name} handed to the command were changed by it: {str(diff)[:400]}')
	text = r.output or ''
	try:
		S['stdout'] = r.stdout
	except Exception:
		S['stdout'] = text
	if r.exit_code == 0:
		return 0, None, text
	if r.exception is not None and not isinstance(r.exception, SystemExit):
		return r.exit_code, 'exception:' + type(r.exception).__name__, text + repr(r.exception)
	return r.exit_code, errclass_of_text(text), text


# ---- what a command must leave as it found it -----------------------------------------------------
def snapshot_inputs(args, env):
	"""sha1 of every input file a command line names (genome files, list files and what they list, signature files,
	database directories) -- not of its output file"""
	import hashlib
	paths = set(S['files']['q'] + S['files']['r'] + [S['files']['ql'], S['files']['rl']])
	toks = [str(a) for a in args] + [str(v) for v in (env or {}).values()]
	for i, t in enumerate(toks):
		if i > 0 and toks[i - 1] in ('-o', '--output') or t.startswith('--output='):
			continue
		for pre in ('--db=', '--sigfile='):
			if t.startswith(pre):
				t = t[len(pre):]
		if os.path.isdir(t):
			paths.update(os.path.join(t, fn) for fn in os.listdir(t))
		elif os.path.isfile(t):
			paths.add(t)
			if t.endswith('.txt'):
				paths.update(l.strip() for l in open(t) if l.strip())
	out = {}
	for q in sorted(paths):
		if os.path.isfile(q):
			with open(q, 'rb') as f:
				out[q.replace(S['W'] + os.sep, '')] = hashlib.sha1(f.read()).hexdigest()
	return out


def process_state():
	"""the long-lived objects the commands read their defaults from: the default parameter set as every command module
	sees it, the declared defaults / environment variables of every option, the environment, the working directory"""
	import gambit.kmers
	import gambit.cli
	import gambit.cli.common as cm
	import gambit.cli.dist as cd
	import gambit.cli.signatures as cs
	import gambit.cli.query as cq
	import gambit.cli.tree as ct
	out = {}
	for mod in (gambit.kmers, cm, cd, cs):
		ks = mod.DEFAULT_KMERSPEC
		out[mod.__name__ + '.DEFAULT_KMERSPEC'] = [repr(ks.k), repr(ks.prefix), ks.prefix_str, repr(ks.prefix_len), repr(ks.total_len),
		                                           repr(ks.nkmers), str(ks.index_dtype)]
	for cmd in (gambit.cli.cli, cd.dist_cmd, cq.query_cmd, ct.tree_cmd, cs.create):
		for prm in cmd.params:
			if prm.name != 'output':
				out[f'{cmd.name}.{prm.name}'] = [repr(prm.default), repr(getattr(prm, 'envvar', None)), repr(getattr(prm, 'is_flag', None))]
	out['cwd'] = os.getcwd()
	out['environ'] = dict(os.environ)
	return out


# ---- the command line in its other forms ---------------------------------------------------------
SENTINEL = 'c14-sentinel,this,file,was,here,before\n'


def root_tokens(c, default_variant='plain'):
	"""the root option naming the database -> (tokens, environment)"""
	if c.get('db') is None:
		return [], None
	path = db_path(c, default_variant)
	if c.get('bad') == 'db-trunc':
		path = truncated_db(path)
	how = fopt(c, 'db_opt', '-d')
	if how == 'env':
		return [], {'GAMBIT_DB_PATH': path}
	if how == '--db=':
		return ['--db=' + path], None
	return [how, path], None


def kp_groups(c):
	out = []
	if c.get('k') is not None:
		out.append([f'-k{c["k"]}'] if fopt(c, 'k_opt') == 'attached' and c['k'] >= 0 else ['-k', c['k']])
	if c.get('prefix') is not None:
		how = fopt(c, 'p_opt', '-p')
		p = c['prefix']
		if how == '--prefix=':
			out.append(['--prefix=' + p])
		elif how == 'attached' and p:
			out.append(['-p' + p])
		else:
			out.append(['--prefix' if how == '--prefix' else '-p', p])
	return out


def common_groups(c, cmd):
	"""-o / -c / progress option groups; -> (groups, path of the output file or None for standard output)"""
	mode = fopt(c, 'out', 'fresh')
	groups, out = [], None
	if mode in ('fresh', 'existing'):
		out = outpath()
		if mode == 'existing':
			with open(out, 'w') as f:
				f.write(SENTINEL)
		groups.append(['-o', out] if fopt(c, 'o_opt', '-o') == '-o' or cmd == 'dist' else ['--output', out])
	elif mode == 'stdout':
		groups.append(['-o', '-'])
	# mode 'default': no -o at all (query writes to standard output; only with a real process)
	groups.append(['--progress'] if fopt(c, 'progress', False) else ['--no-progress'])
	if fopt(c, 'cores', 1) is not None:
		groups.append(['-c', fopt(c, 'cores', 1)])
	return groups, out


def assemble(c, root, cmd, groups):
	order = fopt(c, 'order')
	if order is not None:
		import random
		random.Random(order).shuffle(groups)
	return root + [cmd] + [t for g in groups for t in g]


def written_text(c, out):
	"""what the command left as its result: text, or None when nothing was written (an untouched pre-existing file
	counts as nothing written)"""
	if out is None:
		t = S.get('stdout') or ''
		return t if t.strip() else None
	if not os.path.exists(out):
		return None
	t = open(out).read()
	os.remove(out)
	if fopt(c, 'out') == 'existing' and t == SENTINEL:
		return None
	return t


# ---- wire ---------------------------------------------------------------------------------------
def w_ks(pi):
	k, p = PARAMS[pi]
	return [k, list(p.encode('ascii'))]


def w_ksopt(pi):
	return [] if pi is None else [w_ks(pi)]


def w_opt_k(k):
	return [] if k is None else [k]


def w_opt_p(p):
	return [] if p is None else [list(p.encode('ascii'))]


def ks_index(w):
	"""wire kspec -> index in PARAMS (or the raw value)"""
	k, p = w
	return param_index(k, bytes(p).decode('ascii'))


def dec_run(a):
	"""wire run -> dict(exit, err, steps) with steps as tuples over PARAMS indices"""
	ex, err, steps = a
	out = []
	for st in steps:
		if st[0] == 1:
			out.append(('calc', 'qr'[st[1]], ks_index(st[2])))
		elif st[0] == 2:
			out.append(('compare', ks_index(st[1]), ks_index(st[2])))
		else:
			out.append(('write',))
	return dict(exit=ex, err=errclass_of_code(err[0] if err else None), steps=out)


def w_obs(exit_status, steps):
	out = []
	for st in steps:
		if st[0] == 'calc':
			out.append([1, 'qr'.index(st[1]), w_ks(st[2])])
		elif st[0] == 'compare':
			out.append([2, w_ks(st[1]), w_ks(st[2])])
		else:
			out.append([3])
	return [exit_status, 0 if exit_status == 0 else 1, out]


def summarise(run):
	"""what is compared between model and implementation: status, error class, compared pair, computed sides, written"""
	def name(i):
		return f'{PARAMS[i][0]}/{PARAMS[i][1]}'
	cmp_ = [[name(i) for i in s[1:]] for s in run['steps'] if s[0] == 'compare']
	calc = sorted([s[1], name(s[2])] for s in run['steps'] if s[0] == 'calc')
	return dict(exit=0 if run['exit'] == 0 else 1, err=run['err'], compare=cmp_, calc=calc,
	            written=any(s[0] == 'write' for s in run['steps']))


def judge(pend, case, obs, unidentified, model_run, wf, spec, nontrivial, expect_refusal=None, domain=True):
	pend.append((case, obs, unidentified, model_run, wf, spec, nontrivial, expect_refusal, domain))


def verdict(kind, case, obs, unidentified, model_run, wf, spec, expect_refusal, domain, ok):
	"""the judgement of ONE observed run (shared by the single-call kinds and by every step of a sequence):
	-> None | ('violation', what, values) | ('broke', obligation, detail).  ok: the answer of the extracted run_ok"""
	so, sm = summarise(obs), summarise(model_run)
	must_refuse = (bool(wf) and spec is None) if expect_refusal is None else expect_refusal
	vals = dict(impl=dict(so, cmd=obs.get('cmd')), model=sm, spec=dict(wf=wf, use=None if spec is None else f'{PARAMS[spec][0]}/{PARAMS[spec][1]}'))
	if unidentified and obs['exit'] == 0 and spec is not None and bool(wf):
		# every source agrees on one parameter set: the result is determined (the distances of the harness's own
		# k-mer sets under that set on both sides) and the written numbers are something else
		return ('violation', f'exit status 0, but the written numbers are not the distances with {PARAMS[spec][0]}/{PARAMS[spec][1]} '
		        f'on both sides (nor with any other candidate pair): {unidentified}', vals)
	if unidentified and obs['exit'] == 0:
		return ('broke', f'{kind}: output not recognised',
		        f'case {case}: the written numbers match no candidate parameter pair; {unidentified}')
	if ok != 1:
		return ('violation', 'status / output / compared parameters violate the property predicate run_ok '
		        '(parameters of the two sides differ, or an error left a result behind, or a failure without error)', vals)
	if must_refuse and obs['exit'] == 0:
		return ('violation', 'differing parameter sources were accepted (exit status 0, result written)', vals)
	if must_refuse and so['err'] not in MISMATCH and sm['err'] in MISMATCH:
		return ('violation', 'the mismatch of k-mer parameters is not what the error reports', vals)
	if domain and so != sm:
		return ('broke', f'{kind}: model/implementation correspondence', f'case {case}: impl {so} model {sm}')
	return None


def judge_batch(ctx, kind, pend):
	"""obs: dict(exit, err, steps) observed on the implementation; the property predicate is the extracted run_ok.
	domain=False: the input is outside what the model of the commands describes -- it is judged by the predicate and
	the declarative specification alone (no comparison with the model's run)"""
	import gc
	gc.collect()   # finalise the commands' SQLite sessions in this thread, not in a model-driver worker thread
	oks = ctx.model([(1408, w_obs(p[1]['exit'], p[1]['steps'])) for p in pend])
	for (case, obs, unidentified, model_run, wf, spec, nontrivial, expect_refusal, domain), ok in zip(pend, oks):
		ctx.case(case, nontrivial=nontrivial)
		so = summarise(obs)
		if obs['exit'] == 0 and (so['compare'] or so['calc']):
			ctx.count(kind + ':output-recognised')
		v = verdict(kind, case, obs, unidentified, model_run, wf, spec, expect_refusal, domain, ok)
		if v is not None and v[0] == 'violation':
			ctx.violation(kind, case, v[1], **v[2])
		elif v is not None:
			ctx.broke(v[1], v[2])


# ---- kind: kspec --------------------------------------------------------------------------------
def eval_kspec(c, a):
	"""one call of kspec_from_params against the model's answer a -> (impl, nontrivial, finding); finding as verdict()'s"""
	import click
	from gambit.cli.common import kspec_from_params
	try:
		k = c['k']
		if c.get('ktype') and k is not None:
			import numpy as np
			k = getattr(np, c['ktype'])(k)   # a NumPy scalar, as read from an HDF5 attribute or an array
		call = c.get('call', 'pos')
		if call == 'kw':
			r = kspec_from_params(k=k, prefix=c['prefix'], default=c['default'])
		elif call == 'kw-swapped':
			r = kspec_from_params(default=c['default'], prefix=c['prefix'], k=k)
		elif call == 'short' and not c['default']:
			r = kspec_from_params(k, c['prefix'])
		else:
			r = kspec_from_params(k, c['prefix'], c['default'])
		impl = ['ok', None if r is None else [int(r.k), r.prefix.decode('ascii')]]
		if r is not None and c['k'] is not None and c['prefix'] is not None:
			# the returned object must BE the parameter set for every later comparison: equal to the plain one
			from gambit.kmers import KmerSpec
			if not (r == KmerSpec(int(r.k), r.prefix) and hash(r) == hash(KmerSpec(int(r.k), r.prefix))):
				impl = ['ok', ['unequal-to-its-own-parameters', int(r.k), r.prefix.decode('ascii')]]
	except click.ClickException as e:
		impl = ['err', errclass_of_text('Error: ' + e.format_message())]
	except Exception as e:
		impl = ['exception', type(e).__name__]
	if a[0] == 0:
		model = ['ok', None if not a[1] else [a[1][0][0], bytes(a[1][0][1]).decode('ascii')]]
	else:
		model = ['err', errclass_of_code(a[1])]
	nt = (c['k'] is None) != (c['prefix'] is None) or c['k'] in (4, 5) or (c['prefix'] is not None and len(c['prefix']) in (1, 2))
	finding = None
	if impl != model:
		# what the property states: -k and --prefix only together; the accepted values ARE the parameter set.
		# The minimum k / prefix length and the nucleotide check are the code's own choices: correspondence only.
		alone = (c['k'] is None) != (c['prefix'] is None)
		wrong_value = impl[0] == 'ok' and impl[1] is not None and c['k'] is not None and c['prefix'] is not None and \
			impl[1] != [c['k'], c['prefix'].upper()]
		if (alone and impl[0] == 'ok') or wrong_value:
			finding = ('violation', 'kspec_from_params accepts one of -k/--prefix alone or returns other parameters than given',
			           dict(impl=impl, model=model, spec=model))
		else:
			finding = ('broke', 'kspec: model/implementation correspondence', f'case {c}: impl {impl} model {model}')
	return impl, nt, finding


def kspec_wire(c):
	return [w_opt_k(c['k']), w_opt_p(c['prefix']), bool(c['default'])]


def run_kspec(ctx, cases):
	ans = ctx.model([(1401, kspec_wire(c)) for c in cases])
	for c, a in zip(cases, ans):
		impl, nt, finding = eval_kspec(c, a)
		ctx.case(c, nontrivial=nt)
		if finding is not None and finding[0] == 'violation':
			ctx.violation('kspec', c, finding[1], **finding[2])
		elif finding is not None:
			ctx.broke(finding[1], finding[2])


# ---- kind: dist ---------------------------------------------------------------------------------
def dist_args(c):
	"""c: resolved case -> (args, environment, output path); None when a signature file could not be made"""
	root, env = root_tokens(c)
	groups, out = common_groups(c, 'dist')
	bad = c.get('bad')
	for src in c['q']:
		if src == 'q':
			groups.append([t for p in S['files']['q'] for t in ('-q', p)])
		elif src == 'ql':
			groups.append(['--ql', missing_list('q') if bad == 'ql-missing' else S['files']['ql']])
		else:
			path = src_sigfile(c, 'q', 'qp', 'qv', 'qslot')
			groups.append(['--qs', truncated(path) if bad == 'qs-trunc' else path])
	for src in c['r']:
		if src == 'r':
			groups.append([t for p in S['files']['r'] for t in ('-r', p)])
		elif src == 'rl':
			groups.append(['--rl', missing_list('r') if bad == 'rl-missing' else S['files']['rl']])
		elif src == 'rs':
			path = src_sigfile(c, 'r', 'rp', 'rv', 'rslot')
			groups.append(['--rs', truncated(path) if bad == 'rs-trunc' else path])
		elif src == 'db':
			groups.append([fopt(c, 'usedb_opt', '--use-db')])
		else:
			groups.append([fopt(c, 'square_opt', '--square')])
	groups += kp_groups(c)
	args = assemble(c, root, 'dist', groups)
	return (None if None in args else args), env, out


def dist_wire(c):
	q, r = c['q'], c['r']
	return ['q' in q, 'ql' in q, w_ksopt(c['qp'] if 'qs' in q else None),
	        'r' in r, 'rl' in r, w_ksopt(c['rp'] if 'rs' in r else None), 'db' in r, 'square' in r,
	        w_ksopt(c.get('db')), w_opt_k(c.get('k')), w_opt_p(c.get('prefix'))]


def parse_dmat(text):
	rows = [l.split(',') for l in text.strip('\n').split('\n')]
	return [[float(x) for x in row[1:]] for row in rows[1:]]


def observe_dist(c, exit_status, err, text, want):
	"""text: what was written (None: nothing) -> (obs, unidentified)"""
	steps, unid = [], None
	if text is not None:
		pair = None
		if text.strip():
			try:
				m = parse_dmat(text)
			except ValueError:
				m = None
			square = 'square' in c['r']
			qfix = c['qp'] if 'qs' in c['q'] else None
			rfix = c['rp'] if 'rs' in c['r'] else (c.get('db') if 'db' in c['r'] else None)
			qv = c.get('qv') if 'qs' in c['q'] else None
			rv = c.get('rv') if 'rs' in c['r'] else None
			found = []
			for a in ([qfix] if qfix is not None else candidates(c)):
				for b in ([a] if square else [rfix] if rfix is not None else candidates(c)):
					qsets = sel_sets(sigs_of('q', a), qv, 'q')
					exp = dmat(qsets, qsets if square else sel_sets(sigs_of('r', b), rv, 'r'))
					if m is not None and close(m, exp):
						found.append((a, b))
			if found:
				pair = want if want in found else found[0]
				if qfix is None:
					steps.append(('calc', 'q', pair[0]))
				if rfix is None and not square:
					steps.append(('calc', 'r', pair[1]))
				steps.append(('compare',) + pair)
			else:
				unid = f'output {text[:200]!r}'
		steps.append(('write',))
	return dict(exit=exit_status, err=err, steps=steps, cmd=S.get('last_cmd')), unid


def out_of_model(c):
	"""inputs the model of the commands does not describe (judged by the property predicate and the declarative
	specification only): signature files without signatures; pre-computed signatures with k <= 4, whose 8-bit k-mer
	indices the distance kernel refuses with a ValueError when a comparison is attempted (C02's subject)"""
	if 'n0' in (c.get('qv'), c.get('rv'), c.get('sv')) or c.get('bad') or unsaved(c):
		return True
	return any(isinstance(c.get(f), int) and PARAMS[c[f]][0] <= 4 for f in ('qp', 'rp', 'db', 'sp'))


def eval_dist(c0, c, m, sp):
	"""run one dist command line -> dict(pipeline=...) when a source could not be made, else what judge() takes"""
	args, env, out = dist_args(c)
	if args is None:
		return dict(pipeline=f'case {c0}: a signature file could not be produced: {S.get("create_failed")}')
	ex, err, text = invoke(args, env=env, proc=bool(fopt(c, 'proc')))
	mr = dec_run(m)
	want = ([tuple(st[1:]) for st in mr['steps'] if st[0] == 'compare'] or [None])[0]
	wt = written_text(c, out)
	obs, unid = observe_dist(c, ex, err, wt, want)
	nsrc = ('qs' in c['q']) + ('rs' in c['r'] or 'db' in c['r']) + (c.get('k') is not None or c.get('prefix') is not None)
	outcome = 'refused-mismatch' if obs['err'] in MISMATCH else 'refused-usage' if ex else 'ran'
	return dict(obs=obs, unid=unid, mr=mr, wf=bool(sp[0]), spec=ks_index(sp[1][0]) if sp[1] else None, nt=nsrc >= 2,
	            expect_refusal=False if c.get('bad') or unsaved(c) else None, domain=not out_of_model(c), outcome=outcome, result=wt,
	            unsaved=unsaved(c))


def run_dist(ctx, cases):
	rcs = [resolved(c) for c in cases]
	model = ctx.model([(1402, dist_wire(c)) for c in rcs])
	spec = ctx.model([(1406, dist_wire(c)) for c in rcs])
	pend = []
	for c0, c, m, sp in zip(cases, rcs, model, spec):
		e = eval_dist(c0, c, m, sp)
		if 'pipeline' in e:
			ctx.case(c0, nontrivial=False)
			ctx.broke('dist: pipeline', e['pipeline'])
			continue
		judge(pend, c0, e['obs'], e['unid'], e['mr'], e['wf'], e['spec'], e['nt'], expect_refusal=e['expect_refusal'], domain=e['domain'])
		ctx.count('dist:' + e['outcome'])
		if e['unsaved']:
			ctx.count('dist:signatures-without-stated-parameters-not-saved-by-the-api (command run on what was left: predicate only)')
		elif any(is_api_form(c.get(f)) and c[f].split(':')[2] == 'none' for f in ('qv', 'rv', 'sv')):
			ctx.count('dist:signatures-without-stated-parameters-SAVED-by-the-api (judged as what they were built with)')
		if c.get('st'):
			ctx.count(f'dist[{c["st"]}]:' + (e['outcome'] if e['obs']['exit'] or not e['unid'] else 'ran-unrecognised'))
	judge_batch(ctx, 'dist', pend)


# ---- kind: query --------------------------------------------------------------------------------
def query_args(c):
	root, env = root_tokens(c)
	groups, out = common_groups(c, 'query')
	for src in c['src']:
		if src == 'files':
			groups.append(list(S['files']['q']))
		elif src == 'list':
			groups.append(['-l', missing_list('q') if c.get('bad') == 'l-missing' else S['files']['ql']])
		else:
			path = src_sigfile(c, 'q', 'sp', 'sv', 'sslot')
			if path is None:
				return None, env, out
			if c.get('bad') == 's-trunc':
				path = truncated(path)
			how = fopt(c, 'sig_opt', '-s')
			groups.append(['--sigfile=' + path] if how == '--sigfile=' else [how, path])
	if fopt(c, 'outfmt') is not None:
		groups.append(['-f', fopt(c, 'outfmt')])
	if fopt(c, 'strict') is not None:
		groups.append(['--strict' if fopt(c, 'strict') else '--no-strict'])
	return assemble(c, root, 'query', groups), env, out


def db_index(c):
	return 0 if c.get('db') == 'testdb' else c.get('db')


def query_wire(c):
	return ['files' in c['src'], 'list' in c['src'], w_ksopt(c['sp'] if 'sig' in c['src'] else None), w_ksopt(db_index(c))]


def closest_distances(text, outfmt):
	"""the closest-genome distance of every query in a result written as csv / json / archive -> [[d], ...] or None"""
	import csv
	import io
	import json
	try:
		if outfmt in (None, 'csv'):
			return [[float(r['closest.distance'])] for r in csv.DictReader(io.StringIO(text))]
		return [[float(it['closest_genomes'][0]['distance'])] for it in json.loads(text)['items']]
	except (KeyError, ValueError, IndexError, TypeError):
		return None


def recognise_query(c, vec):
	"""vec: closest distances reported -> (steps, unidentified)"""
	steps, unid = [], None
	sfix = c['sp'] if 'sig' in c['src'] else None
	b = db_index(c)
	found = []
	if c.get('db') == 'testdb':
		# the test database's signatures are not the harness's: the query side is known (a signature file),
		# the reference side is the database as stored
		if sfix is not None:
			found = [(sfix, 0)]
	elif b is not None:
		for a in ([sfix] if sfix is not None else candidates(c)):
			qsets = sel_sets(sigs_of('q', a), c.get('sv') if sfix is not None else None, 'q')
			exp = [[min(row)] for row in dmat(qsets, sigs_of('r', b))]
			if vec is not None and close(vec, exp):
				found.append((a, b))
	if found:
		pair = (b, b) if (b, b) in found else found[0]
		if sfix is None:
			steps.append(('calc', 'q', pair[0]))
		steps.append(('compare',) + pair)
	else:
		unid = f'closest distances {vec}'
	steps.append(('write',))
	return steps, unid


def observe_query(c, exit_status, err, text):
	steps, unid = [], None
	if text is not None and text.strip():
		steps, unid = recognise_query(c, closest_distances(text, fopt(c, 'outfmt')))
	return dict(exit=exit_status, err=err, steps=steps, cmd=S.get('last_cmd')), unid


def eval_query(c0, c, m, sp):
	args, env, out = query_args(c)
	if args is None:
		return dict(pipeline=f'case {c0}: a signature file could not be produced: {S.get("create_failed")}')
	ex, err, text = invoke(args, env=env, proc=bool(fopt(c, 'proc')))
	wt = written_text(c, out)
	obs, unid = observe_query(c, ex, err, wt)
	nt = 'sig' in c['src'] and c.get('db') is not None
	outcome = 'refused-mismatch' if obs['err'] in MISMATCH else 'refused-usage' if ex else 'ran'
	vec = closest_distances(wt, fopt(c, 'outfmt')) if wt is not None and wt.strip() else None
	return dict(obs=obs, unid=unid, mr=dec_run(m), wf=bool(sp[0]), spec=ks_index(sp[1][0]) if sp[1] else None, nt=nt,
	            expect_refusal=False if c.get('bad') or unsaved(c) else None, domain=not out_of_model(c), outcome=outcome, result=vec,
	            unsaved=unsaved(c))


def run_query(ctx, cases):
	rcs = [resolved(c) for c in cases]
	model = ctx.model([(1403, [True] + query_wire(c)) for c in rcs])
	spec = ctx.model([(1407, query_wire(c)) for c in rcs])
	pend = []
	for c0, c, m, sp in zip(cases, rcs, model, spec):
		e = eval_query(c0, c, m, sp)
		if 'pipeline' in e:
			ctx.case(c0, nontrivial=False)
			ctx.broke('query: pipeline', e['pipeline'])
			continue
		judge(pend, c0, e['obs'], e['unid'], e['mr'], e['wf'], e['spec'], e['nt'], expect_refusal=e['expect_refusal'], domain=e['domain'])
		ctx.count('query:' + e['outcome'])
		if e['unsaved']:
			ctx.count('query:signatures-without-stated-parameters-not-saved-by-the-api (command run on what was left: predicate only)')
		elif any(is_api_form(c.get(f)) and c[f].split(':')[2] == 'none' for f in ('qv', 'rv', 'sv')):
			ctx.count('query:signatures-without-stated-parameters-SAVED-by-the-api (judged as what they were built with)')
		if c.get('st'):
			ctx.count(f'query[{c["st"]}]:' + (e['outcome'] if e['obs']['exit'] or not e['unid'] else 'ran-unrecognised'))
	judge_batch(ctx, 'query', pend)


# ---- kind: tree ---------------------------------------------------------------------------------
def tree_args(c):
	args = ['tree', '--no-progress', '-c', 1]
	for src in c['src']:
		if src == 'files':
			args += S['files']['q']
		elif src == 'list':
			args += ['-l', S['files']['ql']]
		else:
			args += ['-s', src_sigfile(c, 'q', 'sp', 'sv', 'sslot')]
	if c.get('k') is not None:
		args += ['-k', c['k']]
	if c.get('prefix') is not None:
		args += ['-p', c['prefix']]
	return args


def tree_wire(c):
	return ['files' in c['src'], 'list' in c['src'], w_ksopt(c['sp'] if 'sig' in c['src'] else None),
	        w_opt_k(c.get('k')), w_opt_p(c.get('prefix'))]


def eval_tree(c, m):
	ex, err, text = invoke(tree_args(c))
	steps, unid = [], None
	mm = re.search(r'\(q1:([0-9.eE+-]+),q2:([0-9.eE+-]+)\)', text) or re.search(r'\(q2:([0-9.eE+-]+),q1:([0-9.eE+-]+)\)', text)
	mr = dec_run(m)
	if ex == 0:
		sfix = c['sp'] if 'sig' in c['src'] else None
		found = []
		if mm:
			length = float(mm.group(1))
			for a in ([sfix] if sfix is not None else candidates(c)):
				d = jaccard(*sigs_of('q', a))
				# which share of the distance a leaf branch carries is C17's business
				if abs(length - d) <= TOL or abs(2 * length - d) <= TOL:
					found.append(a)
		want = [s[1] for s in mr['steps'] if s[0] == 'compare']
		if found:
			a = want[0] if want and want[0] in found else found[0]
			if sfix is None:
				steps.append(('calc', 'q', a))
			steps.append(('compare', a, a))
		else:
			unid = f'newick {text[-120:]!r}'
		steps.append(('write',))
	obs = dict(exit=ex, err=err, steps=steps, cmd=S.get('last_cmd'))
	ignored = 'sig' in c['src'] and (c.get('k') is not None or c.get('prefix') is not None)
	return dict(obs=obs, unid=unid, mr=mr, wf=False, spec=None, nt=c.get('k') is not None or c.get('prefix') is not None,
	            expect_refusal=False, domain=True, ignored=ignored, result=[float(mm.group(1)), float(mm.group(2))] if mm and ex == 0 else None)


def run_tree(ctx, cases):
	model = ctx.model([(1404, tree_wire(c)) for c in cases])
	pend = []
	for c, m in zip(cases, model):
		e = eval_tree(c, m)
		if e['ignored']:
			ctx.count('tree:options-ignored-with-sigfile')
		judge(pend, c, e['obs'], e['unid'], e['mr'], False, None, e['nt'], expect_refusal=False)
	judge_batch(ctx, 'tree', pend)


# ---- kind: create -------------------------------------------------------------------------------
def create_args(c, out):
	args = []
	if c.get('db') is not None:
		args += ['-d', db_path(c)]
	args += ['signatures', 'create', '-o', out, '--no-progress', '-c', 1]
	for src in c['src']:
		if src == 'files':
			args += S['files']['q']
		else:
			args += ['-l', S['files']['ql']]
	if c.get('k') is not None:
		args += ['-k', c['k']]
	if c.get('prefix') is not None:
		args += ['-p', c['prefix']]
	if c.get('db_params'):
		args += ['--db-params']
	return args


def create_wire(c):
	return ['files' in c['src'], 'list' in c['src'], w_opt_k(c.get('k')), w_opt_p(c.get('prefix')),
	        bool(c.get('db_params')), w_ksopt(c.get('db'))]


def eval_create(c, m):
	"""-> what judge() takes, or with 'direct' = ('violation', what, values): the file itself contradicts the property"""
	import h5py
	out = outpath()
	ex, err, text = invoke(create_args(c, out))
	steps, unid, result = [], None, None
	if os.path.exists(out):
		try:
			with h5py.File(out, 'r') as f:
				k = int(f.attrs['kmerspec_k'])
				p = f.attrs['kmerspec_prefix']
				p = p.decode('ascii') if isinstance(p, bytes) else str(p)
				values, bounds = f['values'][:], f['bounds'][:]
			got = [set(int(x) for x in values[bounds[i]:bounds[i + 1]]) for i in range(len(bounds) - 1)]
			result = [k, p, [len(g) for g in got]]
			if 1 <= k <= 32 and p and all(ch in 'ACGT' for ch in p) and got == sigs_of('q', param_index(k, p)):
				steps.append(('calc', 'q', param_index(k, p)))
			else:
				unid = f'file records parameters {(k, p)} but its signatures are not those of the genomes under them'
		except Exception as e:
			unid = f'unreadable output: {e!r}'
		steps.append(('write',))
		os.remove(out)
	obs = dict(exit=ex, err=err, steps=steps, cmd=S.get('last_cmd'))
	mr = dec_run(m)
	nt = bool(c.get('db_params')) or c.get('k') is not None or c.get('prefix') is not None
	so, sm = summarise(obs), summarise(mr)
	e = dict(obs=obs, unid=None, mr=mr, wf=False, spec=None, nt=nt, expect_refusal=False, domain=True, result=result)
	if unid and ex == 0:
		# the recorded parameters are not the ones the signatures were computed with: a later comparison
		# against this file would be a silent mismatch
		e['nt'] = True
		e['direct'] = ('violation', 'the signature file does not contain the signatures of its recorded parameters: ' + unid,
		               dict(impl=dict(so, cmd=obs.get('cmd')), model=sm, spec=sm))
	elif ex == 0 and sm['exit'] == 0 and so['calc'] != sm['calc']:
		e['direct'] = ('violation', 'signatures were computed with other parameters than the ones asked for '
		               '(--db-params: the database\'s; -k/--prefix; else the default)', dict(impl=dict(so, cmd=obs.get('cmd')), model=sm, spec=sm))
	elif ex == 0 and sm['err'] == 'dbparams-excl' and c.get('db') is not None and \
			(c['k'], c['prefix'].upper()) != PARAMS[c['db']]:
		e['direct'] = ('violation', '--db-params together with -k/--prefix that differ from the database\'s parameters was accepted',
		               dict(impl=dict(so, cmd=obs.get('cmd')), model=sm, spec=sm))
	return e


def run_create(ctx, cases):
	model = ctx.model([(1405, create_wire(c)) for c in cases])
	pend = []
	for c, m in zip(cases, model):
		e = eval_create(c, m)
		if 'direct' in e:
			ctx.case(c, nontrivial=e['nt'])
			ctx.violation('create', c, e['direct'][1], **e['direct'][2])
			continue
		judge(pend, c, e['obs'], None, e['mr'], False, None, e['nt'], expect_refusal=False)
	judge_batch(ctx, 'create', pend)


# ---- kind: api ----------------------------------------------------------------------------------
def run_api(ctx, cases):
	"""gambit.query.query_parse called directly -- the function `gambit query GENOMES...` rests on, in its other call
	forms: the query files' signatures must be computed with the parameters of the database they are compared with"""
	from unittest import mock
	from gambit.db import ReferenceDatabase, load_genomeset
	from gambit.sigs import load_signatures
	from gambit.query import query_parse, QueryParams
	from gambit.seq import SequenceFile
	rcs = [resolved(c) for c in cases]
	model = ctx.model([(1403, [True, True, False, [], w_ksopt(c['db'])]) for c in rcs])
	pend = []
	for c0, c, m in zip(cases, rcs, model):
		d = db_dir(c['db'], c.get('dbv'))
		db = None
		steps, unid, ex, err = [], None, 0, None
		try:
			if c.get('load') == 'files':
				db = ReferenceDatabase.load(*ReferenceDatabase.locate_files(d))
			elif c.get('load') == 'ctor':
				gdb, gs = ReferenceDatabase.locate_files(d)
				session, gset = load_genomeset(gdb)
				db = ReferenceDatabase(gset, load_signatures(gs))
			else:
				db = ReferenceDatabase.load_from_dir(d)
			files = SequenceFile.from_paths(S['files']['q'], 'fasta', 'auto')
			if c.get('files_as') == 'tuple':
				files = tuple(files)
			kw = {}
			args = [db, files]
			if c.get('params') == 'obj':
				args.append(QueryParams(chunksize=1, report_closest=1))
			elif c.get('params') == 'objkw':
				kw['params'] = QueryParams(classify_strict=True, chunksize=None)
			elif c.get('params') == 'kw':
				kw.update(classify_strict=True, chunksize=2)
			if c.get('labels'):
				kw['file_labels'] = [f'label{i}' for i in range(len(files))]
			if c.get('parse_kw') == 'serial':
				kw['parse_kw'] = dict(concurrency=None)
			elif c.get('parse_kw') == 'threads':
				kw['parse_kw'] = dict(concurrency='threads', max_workers=2)
			elif c.get('parse_kw') == 'empty':
				kw['parse_kw'] = {}
			with mock.patch('os.cpu_count', return_value=1):
				res = query_parse(*args, **kw)
			vec = [[float(it.classifier_result.closest_match.distance)] for it in res.items]
			steps, unid = recognise_query(dict(src=['files'], sp=None, db=c['db']), vec)
		except Exception as e:
			ex, err = 1, 'exception:' + type(e).__name__
		finally:
			if db is not None:
				try:
					db.session.close()
					db.signatures.close()
				except Exception:
					pass
		obs = dict(exit=ex, err=err, steps=steps, cmd='query_parse(' + ', '.join(f'{k}={c.get(k)}' for k in ('load', 'params', 'labels', 'parse_kw', 'files_as')) + ')')
		judge(pend, c0, obs, unid, dec_run(m), True, c['db'], True)
	judge_batch(ctx, 'api', pend)


# ---- one fresh process per script ------------------------------------------------------------------------------------
#: what a script's process changes in the harness's own bookkeeping and hands back (files it made, parameter sets it registered)
MIRROR = ('slots', 'sigfile', 'db', 'bad', 'n', 'rewrites', 'create_failed', 'save_refused')


def start_template_process():
	"""fork, at the end of setup(), a process that holds the fixtures and has imported the implementation but has never
	RUN any of it.  Every script of the sequence streams runs in a fork of that template: what its steps see of each
	other is in the script and nothing else is -- in the campaign as in a replay.  (Forking the harness process itself
	would hand the script whatever the cases before it left behind.)"""
	import pickle
	import select
	import signal
	import struct
	import traceback
	# import now what the scripts need, so that every fork starts with it
	import click.testing, unittest.mock, h5py, numpy, hashlib   # noqa: E401,F401
	import gambit.cli, gambit.query, gambit.db, gambit.sigs, gambit.seq, gambit.kmers, gambit.metric   # noqa: E401,F401
	import gambit.cli.common, gambit.cli.dist, gambit.cli.query, gambit.cli.tree, gambit.cli.signatures   # noqa: E401,F401
	if not hasattr(os, 'fork'):
		return None
	r1, w1 = os.pipe()
	r2, w2 = os.pipe()
	pid = os.fork()
	if pid != 0:
		os.close(r1)
		os.close(w2)
		return dict(pid=pid, to=os.fdopen(w1, 'wb'), back=os.fdopen(r2, 'rb'))
	# ---- the template process: never returns
	try:
		os.close(w1)
		os.close(r2)
		fin, fout = os.fdopen(r1, 'rb'), os.fdopen(w2, 'wb')
		while True:
			try:
				req = pickle.load(fin)
			except EOFError:
				break
			r3, w3 = os.pipe()
			cpid = os.fork()
			if cpid == 0:
				try:
					os.close(r3)
					try:
						PARAMS[:] = req['PARAMS']
						S.update(req['S'])
						result = seq_script(req['case'], req['answers']) if req['fn'] == 'seq' else api_script(req['case'])
						resp = dict(result=result, PARAMS=list(PARAMS), S={k: S[k] for k in MIRROR if k in S})
					except BaseException:
						resp = dict(error=traceback.format_exc()[-1500:])
					with os.fdopen(w3, 'wb') as f:
						pickle.dump(resp, f)
				finally:
					os._exit(0)
			os.close(w3)
			data, alive = b'', True
			deadline = 600
			while alive:
				ready, _, _ = select.select([r3], [], [], deadline)
				if not ready:
					os.kill(cpid, signal.SIGKILL)
					data = b''
					break
				chunk = os.read(r3, 1 << 16)
				if not chunk:
					alive = False
				data += chunk
			os.close(r3)
			os.waitpid(cpid, 0)
			fout.write(struct.pack('>Q', len(data)) + data)
			fout.flush()
	finally:
		os._exit(0)


def fresh_process(ctx, fn, case, answers):
	"""run one script in a fork of the template process -> its result (None: the process died)"""
	import pickle
	import struct
	z = S.get('template')
	if z is None:
		ctx.count('seq:scripts-run-in-the-harness-process (no fork on this platform)')
		return seq_script(case, answers) if fn == 'seq' else api_script(case)
	pickle.dump(dict(fn=fn, case=case, answers=answers, PARAMS=list(PARAMS), S={k: S[k] for k in MIRROR if k in S}), z['to'])
	z['to'].flush()
	head = z['back'].read(8)
	if len(head) < 8:
		S['template'] = None
		raise RuntimeError('the template process of the sequence streams is gone')
	data = z['back'].read(struct.unpack('>Q', head)[0])
	if not data:
		return None
	resp = pickle.loads(data)
	if 'error' in resp:
		raise RuntimeError('harness error in a script process: ' + resp['error'])
	PARAMS[:] = resp['PARAMS']
	S.update(resp['S'])
	return resp['result']


def teardown(ctx):
	z = S.get('template')
	if z is not None:
		S['template'] = None
		try:
			z['to'].close()
			z['back'].close()
			os.waitpid(z['pid'], 0)
		except Exception:
			pass


# ---- kind: seq -- a script of command lines in ONE process over shared files --------------------------------------
def seq_requests(step):
	cmd, c = step['cmd'], resolved(step['c'])
	if cmd == 'dist':
		return [(1402, dist_wire(c)), (1406, dist_wire(c))]
	if cmd == 'query':
		return [(1403, [True] + query_wire(c)), (1407, query_wire(c))]
	if cmd == 'tree':
		return [(1404, tree_wire(c))]
	if cmd == 'create':
		return [(1405, create_wire(c))]
	return [(1401, kspec_wire(c))]


def state_diff(b, a):
	def flat(d):
		out = {}
		for k, v in d.items():
			if isinstance(v, dict):
				out.update({f'{k}[{k2}]': v2 for k2, v2 in v.items()})
			else:
				out[k] = v
		return out
	b, a = flat(b), flat(a)
	return {k: [b.get(k), a.get(k)] for k in sorted(set(a) | set(b)) if a.get(k) != b.get(k)}


def outcome_of(e):
	"""what two runs of the same step on the same inputs must agree in -> (discrete part, numbers)"""
	import json
	if 'kspec' in e:
		return ['kspec', e['kspec']], None
	if 'pipeline' in e:
		return ['pipeline'], None
	o = e['obs']
	nums = e.get('result')
	if isinstance(nums, str):
		try:
			nums = parse_dmat(nums)
		except (ValueError, IndexError):
			pass
	return [0 if o['exit'] == 0 else 1, o['err'], json.dumps(summarise(o), sort_keys=True)], nums


def same_numbers(a, b):
	if isinstance(a, list) and isinstance(b, list):
		return len(a) == len(b) and all(same_numbers(x, y) for x, y in zip(a, b))
	if isinstance(a, float) and isinstance(b, float):
		return abs(a - b) <= TOL
	return a == b


def seq_script(case, answers):
	"""run the steps of one script (in a process of its own, see fresh_process) -> one dict per step, as the evaluators
	of the single-call kinds return them, plus 'touched': what the step changed that it had no business changing"""
	base = process_state()
	steps = []
	try:
		for st, a in zip(case['steps'], answers):
			cmd, c0 = st['cmd'], st['c']
			c = resolved(c0)
			S['watch'] = []
			if cmd == 'dist':
				e = eval_dist(c0, c, a[0], a[1])
			elif cmd == 'query':
				e = eval_query(c0, c, a[0], a[1])
			elif cmd == 'tree':
				e = eval_tree(c, a[0])
			elif cmd == 'create':
				e = eval_create(c, a[0])
			else:
				impl, nt, finding = eval_kspec(c0, a[0])
				e = dict(kspec=impl, nt=nt, finding=finding)
			e['touched'] = list(S['watch'])
			now = process_state()
			if now != base:
				e['touched'].append('process-wide state every later command reads its defaults from was changed: ' + str(state_diff(base, now))[:400])
				base = now
			steps.append(e)
	finally:
		S['watch'] = None
	return steps


def run_seq(ctx, cases):
	"""every step is ONE command line (or one kspec_from_params call) judged exactly like a case of its single-call
	kind (same evaluator, same verdict()); on top of that: what the command was handed is unchanged, process-wide
	defaults are unchanged, the same step repeated later in the script has the same outcome.  Every script runs in a
	process of its own that has never run any of the implementation before: whatever its steps see of each other is
	in the script, and a replay of the script starts from the same state"""
	import gc
	import json
	reqs, where = [], []
	for ci, case in enumerate(cases):
		for si, st in enumerate(case['steps']):
			r = seq_requests(st)
			where.append((ci, si, len(r)))
			reqs += r
	ans = ctx.model(reqs)
	A, pos = {}, 0
	for ci, si, n in where:
		A[(ci, si)] = ans[pos:pos + n]
		pos += n
	runs = []
	rewrites0 = S.get('rewrites', 0)
	for ci, case in enumerate(cases):
		steps = fresh_process(ctx, 'seq', case, [A[(ci, si)] for si in range(len(case['steps']))])
		if steps is None:
			steps = [dict(pipeline='the process running the script died or ran out of time')] * len(case['steps'])
		runs.append(steps)
	gc.collect()   # finalise the commands' SQLite sessions in this thread, not in a model-driver worker thread
	flat = [(ci, si) for ci, steps in enumerate(runs) for si, e in enumerate(steps) if 'obs' in e]
	oks = dict(zip(flat, ctx.model([(1408, w_obs(runs[ci][si]['obs']['exit'], runs[ci][si]['obs']['steps'])) for ci, si in flat])))
	ctx.count('seq:files-rewritten-in-place-between-steps', S.get('rewrites', 0) - rewrites0)
	for ci, case in enumerate(cases):
		steps, n = runs[ci], len(runs[ci])
		script = [e['obs'].get('cmd') if 'obs' in e else f'kspec_from_params {case["steps"][si]["c"]}' if 'kspec' in e else '(not run)'
		          for si, e in enumerate(steps)]
		findings = []
		for si, e in enumerate(steps):
			tag = f'step {si + 1} of {n} ({case["steps"][si]["cmd"]}): '
			ctx.count('seq:steps')
			if 'pipeline' in e:
				findings.append(('broke', 'seq: pipeline', e['pipeline']))
				continue
			if 'kspec' in e:
				f = e['finding']
			elif 'direct' in e:
				f = e['direct']
			else:
				f = verdict('seq', dict(step=si + 1, **case), e['obs'], e['unid'], e['mr'], e['wf'], e['spec'], e['expect_refusal'], e['domain'], oks[(ci, si)])
				if e['obs']['exit'] != 0:
					ctx.count('seq:steps-failed:' + ('mismatch-refused' if e['obs']['err'] in MISMATCH else
					                                 'part-way (bad input in the middle)' if case['steps'][si]['c'].get('bad') else
					                                 'exception' if str(e['obs']['err']).startswith('exception') else 'usage'))
				elif not e['unid']:
					ctx.count('seq:steps-output-recognised')
			if f is not None and f[0] == 'violation':
				findings.append(('violation', tag + f[1], dict(f[2], script=script)))
			elif f is not None:
				findings.append(('broke', 'seq: ' + f[1], tag + str(f[2])))
			for t in e['touched']:
				findings.append(('violation', tag + t, dict(impl=t, spec='a command leaves its inputs and the process-wide defaults as it found them', script=script)))
		seen = {}
		for si, e in enumerate(steps):
			key = json.dumps(case['steps'][si], sort_keys=True)
			if key not in seen:
				seen[key] = si
				continue
			ctx.count('seq:steps-repeated-and-compared')
			(d1, n1), (d2, n2) = outcome_of(steps[seen[key]]), outcome_of(e)
			if d1 != d2 or not same_numbers(n1, n2):
				findings.append(('violation', f'step {si + 1} of {n} repeats step {seen[key] + 1} (same command line, same inputs) with another outcome: '
				                 f'{d1} -> {d2}' + ('' if same_numbers(n1, n2) else f'; numbers {str(n1)[:150]} -> {str(n2)[:150]}'),
				                 dict(impl=dict(first=[d1, n1], again=[d2, n2]), spec='same call, same result', script=script)))
		ctx.case(case, nontrivial=n >= 2 and any(e.get('nt') for e in steps))
		vs = [f for f in findings if f[0] == 'violation']
		for f in vs[:2]:
			ctx.violation('seq', case, f[1], **f[2])
		if not vs:
			for f in findings[:2]:
				ctx.broke(f[1], f'case {case}: {f[2]}')


# ---- kind: apiseq -- a script of query_parse calls over shared Python objects ---------------------------------------
class RaisingFiles(list):
	"""a caller-supplied sequence of files that raises while it is being iterated (after its first item)"""
	def __iter__(self):
		for i, x in enumerate(list.__iter__(self)):
			if i == 1:
				raise RuntimeError('c14: the caller\'s sequence of files failed')
			yield x


def api_script(case):
	"""run one script of query_parse calls (in a process of its own, optionally in a second thread of it) -> one dict per call"""
	import threading
	from unittest import mock
	from gambit.db import ReferenceDatabase, load_genomeset
	from gambit.sigs import load_signatures
	from gambit.query import query_parse, QueryParams
	from gambit.seq import SequenceFile

	def db_fields(db):
		ks = db.signatures.kmerspec
		return [repr(ks.k), repr(ks.prefix), len(db.signatures), [int(i) for i in db.sig_indices], [str(g.genome.key) for g in db.genomes],
		        str(db.genomeset.key), repr(db.signatures.meta.id)]

	def load(spec):
		d = db_dir(pidx(spec['db']), spec.get('dbv'))
		if spec.get('load') == 'files':
			return ReferenceDatabase.load(*ReferenceDatabase.locate_files(d))
		if spec.get('load') == 'ctor':
			gdb, gs = ReferenceDatabase.locate_files(d)
			session, gset = load_genomeset(gdb)
			return ReferenceDatabase(gset, load_signatures(gs))
		return ReferenceDatabase.load_from_dir(d)

	def script(case, out):
		dbs = []
		try:
			dbs = [load(spec) for spec in case['dbs']]
			files = SequenceFile.from_paths(S['files']['q'], 'fasta', 'auto')
			missing = SequenceFile.from_paths([S['files']['q'][0], os.path.join(S['W'], 'no_such_genome_q.fasta'), S['files']['q'][1]], 'fasta', 'auto')
			raising = RaisingFiles(files)
			labels = [f'label{i}' for i in range(len(files))]
			short_labels = labels[:1]
			P = [QueryParams(chunksize=1, report_closest=1), QueryParams(classify_strict=True, chunksize=None), QueryParams()]
			K = [dict(concurrency=None), dict(concurrency='threads', max_workers=2), {}]

			def snapshot():
				return dict(files=[[str(f.path), f.format, f.compression] for f in files],
				            files_bad=[[str(f.path), f.format, f.compression] for f in missing] + [len(raising)],
				            labels=list(labels) + ['|'] + list(short_labels), params=[{k: repr(v) for k, v in vars(p).items()} for p in P],
				            parse_kw=[{k: repr(v) for k, v in d.items() if k != 'progress'} for d in K],
				            databases=[db_fields(db) for db in dbs])
			base = snapshot()
			for st in case['steps']:
				e = dict(ex=0, err=None, vec=None, touched=[])
				args = [dbs[st['db']], dict(list=files, tuple=tuple(files), missing=missing, raises=raising).get(st.get('files') or 'list', files)]
				kw = {}
				if st.get('p') == 'kw':
					kw.update(classify_strict=True, chunksize=2)
				elif st.get('p') is not None and st.get('pas') == 'kw':
					kw['params'] = P[st['p']]
				elif st.get('p') is not None:
					args.append(P[st['p']])
				if st.get('labels'):
					kw['file_labels'] = short_labels if st['labels'] == 'short' else labels
				if st.get('pk') is not None:
					kw['parse_kw'] = K[st['pk']]
					had_progress = 'progress' in K[st['pk']]
				try:
					with mock.patch('os.cpu_count', return_value=1):
						res = query_parse(*args, **kw)
					e['vec'] = [[float(it.classifier_result.closest_match.distance)] for it in res.items]
					e['res'] = res
				except Exception as x:
					e['ex'], e['err'] = 1, 'exception:' + type(x).__name__
				if st.get('pk') is not None and not had_progress and 'progress' in K[st['pk']]:
					e['progress_written'] = True
				now = snapshot()
				if now != base:
					e['touched'].append('objects the caller handed to query_parse were changed by it: ' + str(state_diff(base, now))[:400])
					base = now
				out.append(e)
			# results handed out earlier must still say what they said
			for e in out:
				if e.get('res') is not None:
					again = [[float(it.classifier_result.closest_match.distance)] for it in e['res'].items]
					if again != e['vec']:
						e['touched'].append(f'the result object returned by this call changed afterwards: {e["vec"]} -> {again}')
		except Exception as x:
			out.append(dict(crash=f'{type(x).__name__}: {x}'))
		finally:
			for e in out:
				e.pop('res', None)
			for db in dbs:
				try:
					db.session.close()
					db.signatures.close()
				except Exception:
					pass

	out = []
	if case.get('thread'):
		t = threading.Thread(target=script, args=(case, out))
		t.start()
		t.join()
	else:
		script(case, out)
	return out


def run_apiseq(ctx, cases):
	"""gambit.query.query_parse called several times over the SAME database objects, QueryParams objects, parse_kw
	dicts, list of files and list of labels; every call judged like a case of kind 'api'.  One process per script"""
	import gc
	import json

	def pi_of(case, st):
		return pidx(case['dbs'][st['db']]['db'])

	bad_files = ('missing', 'raises')
	model = ctx.model([(1403, [True, True, False, [], w_ksopt(pi_of(case, st))]) for case in cases for st in case['steps']])
	runs = []
	for case in cases:
		out = fresh_process(ctx, 'apiseq', case, None)
		if case.get('thread'):
			ctx.count('apiseq:scripts-run-in-a-second-thread')
		runs.append(out if out is not None else [dict(crash='the process running the script died or ran out of time')])
	gc.collect()
	obs_all = []
	for case, out in zip(cases, runs):
		for st, e in zip(case['steps'], out):
			if 'crash' in e:
				continue
			steps, unid = [], None
			if e['ex'] == 0:
				steps, unid = recognise_query(dict(src=['files'], sp=None, db=pi_of(case, st)), e['vec'])
			e['obs'] = dict(exit=e['ex'], err=e['err'], steps=steps,
			                cmd='query_parse(' + ', '.join(f'{k}={v}' for k, v in st.items()) + f', kmerspec of db={PARAMS[pi_of(case, st)]})')
			e['unid'] = unid
			obs_all.append(e)
	oks = ctx.model([(1408, w_obs(e['obs']['exit'], e['obs']['steps'])) for e in obs_all])
	for e, ok in zip(obs_all, oks):
		e['ok'] = ok
	mi = 0
	for case, out in zip(cases, runs):
		n = len(case['steps'])
		ms = model[mi:mi + n]
		mi += n
		ctx.case(case, nontrivial=n >= 2)
		findings = []
		if len(out) != n or any('crash' in e for e in out):
			ctx.broke('apiseq: harness', f'case {case}: the script did not run to its end: {[e.get("crash") for e in out if "crash" in e]}')
			continue
		script_txt = [e['obs']['cmd'] for e in out]
		for si, (st, e, m) in enumerate(zip(case['steps'], out, ms)):
			tag = f'step {si + 1} of {n}: '
			ctx.count('apiseq:steps')
			expected_failure = st.get('files') in bad_files or st.get('labels') == 'short'
			if e.get('progress_written'):
				ctx.count('apiseq:parse_kw-gained-a-progress-key (code as found writes it into the caller\'s dict; not a k-mer parameter, not judged)')
			if expected_failure:
				ctx.count('apiseq:steps-failing-part-way')
				if e['ex'] == 0:
					# files that cannot be read, labels that do not fit: whatever came back was not computed from the caller's input
					f = ('broke', 'apiseq: a call on unreadable input returned a result', f'{e["obs"]}')
				else:
					f = verdict('apiseq', dict(step=si + 1, **case), e['obs'], None, dec_run(m), False, None, False, False, e['ok'])
			else:
				f = verdict('apiseq', dict(step=si + 1, **case), e['obs'], e['unid'], dec_run(m), True, pi_of(case, st), None, True, e['ok'])
				if e['ex'] == 0 and not e['unid']:
					ctx.count('apiseq:steps-output-recognised')
			if f is not None and f[0] == 'violation':
				findings.append(('violation', tag + f[1], dict(f[2], script=script_txt)))
			elif f is not None:
				findings.append(('broke', 'apiseq: ' + f[1], tag + str(f[2])))
			for t in e['touched']:
				findings.append(('violation', tag + t, dict(impl=t, spec='query_parse leaves the caller\'s objects as it found them', script=script_txt)))
		seen = {}
		for si, (st, e) in enumerate(zip(case['steps'], out)):
			key = json.dumps(st, sort_keys=True)
			if key not in seen:
				seen[key] = si
				continue
			ctx.count('apiseq:steps-repeated-and-compared')
			f0 = out[seen[key]]
			if (f0['ex'], f0['err']) != (e['ex'], e['err']) or not same_numbers(f0['vec'], e['vec']):
				findings.append(('violation', f'step {si + 1} of {n} repeats step {seen[key] + 1} (same call, same objects) with another result: '
				                 f'{[f0["ex"], f0["err"], f0["vec"]]} -> {[e["ex"], e["err"], e["vec"]]}',
				                 dict(impl=dict(first=[f0['ex'], f0['err'], f0['vec']], again=[e['ex'], e['err'], e['vec']]), spec='same call, same result', script=script_txt)))
		vs = [f for f in findings if f[0] == 'violation']
		for f in vs[:2]:
			ctx.violation('apiseq', case, f[1], **f[2])
		if not vs:
			for f in findings[:2]:
				ctx.broke(f[1], f'case {case}: {f[2]}')


KINDS = {'kspec': run_kspec, 'dist': run_dist, 'query': run_query, 'tree': run_tree, 'create': run_create, 'api': run_api,
         'seq': run_seq, 'apiseq': run_apiseq}


# ---- generators ---------------------------------------------------------------------------------
def option_modes():
	"""no -k/-p, one of them, both (every core parameter set)"""
	yield None, None
	yield 6, None
	yield None, 'AT'
	for k, p in PARAMS[:NCORE]:
		yield k, p


def gen_dist_exhaustive():
	qvars = [(['q'], None), (['ql'], None)] + [(['qs'], i) for i in range(NCORE)]
	rvars = [(['r'], None, None), (['rl'], None, None), (['square'], None, None)] + \
	        [(['rs'], i, None) for i in range(NCORE)] + [(['db'], None, i) for i in range(NCORE)]
	for (q, qp), (r, rp, db), (k, p) in itertools.product(qvars, rvars, option_modes()):
		yield dict(q=q, qp=qp, r=r, rp=rp, db=db, k=k, prefix=p)


def gen_dist_extra(ctx, n):
	rng = ctx.rng
	ks = [None, None, 4, 5, 6, 7, 11]
	ps = [None, None, 'A', 'AT', 'at', 'aC', 'AC', 'AN', 'ATGAC', 'atg', 'ATG']
	for _ in range(n):
		nq = rng.choice([1, 1, 1, 1, 0, 2])
		nr = rng.choice([1, 1, 1, 1, 0, 2])
		q = rng.sample(['q', 'ql', 'qs'], nq)
		r = rng.sample(['r', 'rl', 'rs', 'db', 'square'], nr)
		db = rng.choice([None, None] + list(range(NCORE)))
		if 'db' in r and rng.random() < 0.8 and db is None:
			db = rng.randrange(NCORE)
		yield dict(q=q, qp=rng.randrange(NFIXED) if 'qs' in q else None, r=r,
		           rp=rng.randrange(NFIXED) if 'rs' in r else None, db=db, k=rng.choice(ks), prefix=rng.choice(ps))


def gen_query():
	srcs = [(['files'], None), (['list'], None)] + [(['sig'], i) for i in range(NFIXED)]
	for (src, sp), db in itertools.product(srcs, [None] + list(range(NCORE))):
		yield dict(src=src, sp=sp, db=db)
	for sp in range(NFIXED):
		if sp != 0:
			yield dict(src=['sig'], sp=sp, db='testdb')
	yield dict(src=[], sp=None, db=0)
	yield dict(src=['files', 'sig'], sp=1, db=0)
	yield dict(src=['files', 'list'], sp=None, db=1)
	yield dict(src=['list', 'sig'], sp=0, db=0)


def gen_tree():
	srcs = [(['files'], None), (['list'], None)] + [(['sig'], i) for i in range(NFIXED)]
	modes = list(option_modes()) + [(11, 'ATGAC'), (6, 'ATG'), (4, 'AT'), (6, 'A'), (6, 'AN'), (6, 'at')]
	for (src, sp), (k, p) in itertools.product(srcs, modes):
		yield dict(src=src, sp=sp, k=k, prefix=p)
	yield dict(src=[], sp=None, k=None, prefix=None)
	yield dict(src=['files', 'sig'], sp=0, k=None, prefix=None)


def gen_create():
	modes = list(option_modes()) + [(11, 'ATGAC'), (6, 'ATG'), (4, 'AT'), (6, 'A'), (6, 'AN'), (7, 'ac')]
	for src, (k, p), dbp, db in itertools.product([['files'], ['list']], modes, [False, True], [None] + list(range(NCORE))):
		yield dict(src=src, k=k, prefix=p, db_params=dbp, db=db)
	yield dict(src=[], k=None, prefix=None, db_params=False, db=None)
	yield dict(src=['files', 'list'], k=None, prefix=None, db_params=True, db=0)


def gen_kspec(ctx, n):
	ks = [None, -3, 0, 1, 4, 5, 6, 11, 32]
	ps = [None, '', 'A', 'a', 'AT', 'at', 'aT', 'AC', 'GT', 'ATGAC', 'atgac', 'AN', 'A-', 'AU', 'NN', 'A T', 'ACGTX', 'zz', '@[', '`{']
	for k, p, d in itertools.product(ks, ps, [False, True]):
		yield dict(k=k, prefix=p, default=d)
	rng = ctx.rng
	for _ in range(n):
		ln = rng.choice([0, 1, 2, 2, 3, 5, 8])
		alpha = rng.choice(['ACGT', 'ACGTacgt', 'ACGTacgtNn-', ''.join(chr(i) for i in range(32, 127))])
		yield dict(k=rng.choice([None, rng.randrange(-2, 40)]), prefix=rng.choice([None, ''.join(rng.choice(alpha) for _ in range(ln))]),
		           default=rng.random() < 0.5)


# ---- generators added by the coverage audit --------------------------------------------------------
def rand_params(rng):
	k = rng.choice([5, 6, 7, 8, 8, 9, 10, 11, 12, 15, 16, 17, 21])
	return k, ''.join(rng.choice('ACGT') for _ in range(rng.choice([2, 2, 3, 3, 4])))


def neighbour(rng, k, p):
	"""a parameter set that differs from (k, p) in k, in the prefix, or in both -- in the ways a comparison by length,
	by width, by a part of the prefix or by one field only would miss"""
	def other(ch):
		return rng.choice([x for x in 'ACGT' if x != ch])
	how = rng.choice(['k+1', 'k-1', 'k-far', 'k-width', 'k+8', 'p-last', 'p-first', 'p-mid', 'p-longer', 'p-shorter', 'p-revcomp',
	                  'p-reversed', 'same-total', 'same-total2', 'both', 'both-far', 'default', 'tiny'])
	i = rng.randrange(len(p))
	r = {'k+1': (k + 1, p), 'k-1': (max(1, k - 1), p), 'k-far': (rng.choice([5, 9, 13, 19, 32]), p),
	     'k-width': ({4: 5, 8: 9, 16: 17}.get(k, 8 if k > 8 else 9), p), 'k+8': (k + 8, p),
	     'p-last': (k, p[:-1] + other(p[-1])), 'p-first': (k, other(p[0]) + p[1:]), 'p-mid': (k, p[:i] + other(p[i]) + p[i + 1:]),
	     'p-longer': (k, p + rng.choice('ACGT')), 'p-shorter': (k, p[:-1]), 'p-revcomp': (k, revcomp(p)), 'p-reversed': (k, p[::-1]),
	     'same-total': (k + 1, p[:-1]), 'same-total2': (max(1, k - 1), p + rng.choice('ACGT')),
	     'both': (k + rng.choice([-1, 1]), p[:-1] + other(p[-1])), 'both-far': rand_params(rng), 'default': (11, 'ATGAC'),
	     'tiny': (rng.choice([1, 3, 4]), p[:rng.choice([1, 2])])}[how]
	if r == (k, p) or r[0] > 32 or r[0] < 1 or not r[1]:
		r = (k + 1, p)
	return r


def gen_dist_params(ctx, n):
	"""random parameter pairs (and a third set for the options) on every combination of sources"""
	rng = ctx.rng
	made = 0
	while made < n:
		A = rand_params(rng)
		B = A if rng.random() < 0.3 else neighbour(rng, *A)
		C = rng.choice([A, A, B, neighbour(rng, *A)])
		q = rng.choice([['qs'], ['qs'], ['qs'], ['q'], ['ql']])
		r = rng.choice([['rs'], ['rs'], ['db'], ['db'], ['r'], ['rl'], ['square']])
		opts = rng.choice([None, None, None, C, C])
		if ('qs' in q) + ('rs' in r or 'db' in r) + (opts is not None) < 2 and rng.random() < 0.85:
			continue
		made += 1
		k, prefix = (None, None) if opts is None else (opts[0], opts[1].lower() if rng.random() < 0.25 else opts[1])
		yield dict(q=q, qp=list(A) if 'qs' in q else None, r=r, rp=list(B) if 'rs' in r else None,
		           db=list(B) if 'db' in r else rng.choice([None, None, list(C)]), k=k, prefix=prefix)


def gen_query_params(ctx, n):
	rng = ctx.rng
	for _ in range(n):
		A = rand_params(rng)
		B = A if rng.random() < 0.35 else neighbour(rng, *A)
		src = rng.choice([['sig'], ['sig'], ['sig'], ['files'], ['list']])
		yield dict(src=src, sp=list(B) if 'sig' in src else None, db=list(A))


def rand_form(rng, cmd):
	f = {}
	def maybe(name, values, p=0.6):
		if rng.random() < p:
			f[name] = rng.choice(values)
	maybe('db_opt', ['-d', '--db', '--db=', 'env', 'env'], 0.8)
	maybe('order', [rng.randrange(10 ** 6)], 0.7)
	maybe('out', ['existing', 'existing', 'fresh'] + (['stdout', 'stdout'] if cmd == 'query' else []), 0.6)
	maybe('cores', [None, 1, 2], 0.3)
	maybe('progress', [True], 0.2)
	if cmd == 'dist':
		maybe('usedb_opt', ['-d', '--use-db'], 0.7)
		maybe('square_opt', ['-s', '--square'], 0.7)
		maybe('k_opt', ['attached', '-k'], 0.6)
		maybe('p_opt', ['--prefix', '--prefix=', 'attached', '-p'], 0.8)
	else:
		maybe('sig_opt', ['--sigfile', '--sigfile=', '-s'], 0.7)
		maybe('outfmt', ['json', 'archive', 'csv', 'json', 'archive'], 0.8)
		maybe('strict', [True, False], 0.4)
		maybe('o_opt', ['--output', '-o'], 0.5)
	return f


def gen_dist_forms(ctx, n):
	"""the comparisons of the exhaustive stream, each under another spelling / order / channel of the same command line"""
	rng = ctx.rng
	base = [c for c in gen_dist_exhaustive()
	        if ('qs' in c['q']) + ('rs' in c['r'] or 'db' in c['r']) + (c['k'] is not None and c['prefix'] is not None) >= 2]
	for _ in range(n):
		c = dict(rng.choice(base))
		if c['prefix'] is not None and rng.random() < 0.3:
			c['prefix'] = c['prefix'].lower()
		if rng.random() < 0.3:
			c['dbv'] = rng.choice(DB_VARIANTS)
		if c['db'] is None and rng.random() < 0.3:
			c['db'] = rng.randrange(NCORE)   # a database that is named but not used must not matter
		c['form'] = rand_form(rng, 'dist')
		yield c


def gen_query_forms(ctx, n):
	rng = ctx.rng
	for _ in range(n):
		src = rng.choice([['sig'], ['sig'], ['sig'], ['sig'], ['files'], ['list']])
		c = dict(src=src, sp=rng.randrange(NFIXED) if 'sig' in src else None,
		         db=rng.choice(list(range(NCORE)) * 3 + ['testdb']), form=rand_form(rng, 'query'))
		if c['db'] == 'testdb' and 'sig' not in src:
			c['db'] = 0
		if c['db'] != 'testdb' and rng.random() < 0.3:
			c['dbv'] = rng.choice(DB_VARIANTS)
		yield c


def known_defect(c):
	"""GENUINE DEFECT found by this audit (repaired in /repo by a fix: commit; the input class is generated and judged
	like every other, this predicate only counts it): a signature file whose
	kmerspec_k attribute is an unsigned 8-bit integer, whose parameters are inferred (no -k/--prefix) and used to compute
	the other side from genome files.  KmerSpec kept the NumPy scalar, find_kmers' `-kmerspec.k` wrapped to 250 and the
	forward strand of every contig was only searched in its first 250 bytes: `gambit dist --qs FILE -r genome.fasta` exited 0
	with distances that were not those of the file's parameters.  Repair: repo_fixes/C14-uint8-k.diff
	(KmerSpec.__init__: k = int(k)).  Replay: repo_fixes/C14-uint8-k.replay.json."""
	if c.get('k') is not None or c.get('prefix') is not None:
		return False
	return ('qs' in c['q'] and c.get('qv') == 'k_u1' and ('r' in c['r'] or 'rl' in c['r'])) or \
	       ('rs' in c['r'] and c.get('rv') == 'k_u1' and ('q' in c['q'] or 'ql' in c['q']))


def gen_dist_variants(ctx, n):
	"""pre-computed signatures in other containers (see VARIANTS) on one or both sides"""
	rng = ctx.rng
	made = 0
	while made < n:
		a = rng.randrange(NFIXED)
		b = a if rng.random() < 0.4 else rng.randrange(NFIXED)
		side = rng.choice(['q', 'q', 'r', 'both'])
		q = ['qs'] if side in ('q', 'both') else rng.choice([['q'], ['ql'], ['qs']])
		r = ['rs'] if side in ('r', 'both') else rng.choice([['rs'], ['db'], ['r'], ['square']])
		c = dict(q=q, qp=a if 'qs' in q else None, r=r, rp=b if 'rs' in r else None, db=None, k=None, prefix=None)
		if 'qs' in q:
			c['qv'] = rng.choice(VARIANTS) if side in ('q', 'both') else 'plain'
		if 'rs' in r:
			c['rv'] = rng.choice(VARIANTS) if side in ('r', 'both') else 'plain'
		if 'db' in r:
			c['db'] = b if b < NCORE else rng.randrange(NCORE)
			c['dbv'] = rng.choice(DB_VARIANTS)
		if rng.random() < 0.3:
			c['k'], c['prefix'] = PARAMS[rng.choice([a, b])]
		if known_defect(c):
			ctx.count('former-defect:uint8-k-attribute (judged like every other case)')
		made += 1
		yield c


def gen_query_variants(ctx, n):
	rng = ctx.rng
	for _ in range(n):
		a = rng.randrange(NCORE)
		sp = a if rng.random() < 0.4 else rng.randrange(NFIXED)
		c = dict(src=['sig'], sp=sp, sv=rng.choice(VARIANTS), db=a, dbv=rng.choice(DB_VARIANTS))
		if rng.random() < 0.4:
			c['form'] = dict(outfmt=rng.choice(['json', 'archive']))
		yield c


API_SCENARIOS = ('qs-genomes', 'genomes-rs', 'qs-rs', 'rs-qs', 'qs-db', 'qs-genomes-options', 'qs-square-options', 'both', 'query')


def gen_api_written(ctx, per_form):
	"""pre-computed signatures that another program saved through gambit.sigs -- EVERY writing form of API_FORMS (container x
	optional kmerspec argument given / not given x bare / annotated x dump_signatures / HDF5Signatures.create) -- brought
	together with a second source: genome files (parameters inferred from the file), a plain signature file, a database,
	explicit options, a file written in another form.  per_form scenarios per form (all of them when per_form is None).
	The case names what the signatures were BUILT with (qp / rp / sp); model, declarative spec and recognition of the
	output are those of every other dist / query case"""
	rng = ctx.rng
	for form in API_FORMS:
		scenarios = list(API_SCENARIOS) if per_form is None else rng.sample(API_SCENARIOS, per_form)
		for sc in scenarios:
			b = rng.randrange(NCORE)
			a = b if rng.random() < 0.4 else rng.randrange(NFIXED)
			other = rng.choice([f for f in API_FORMS if f != form])
			d = dict(q=['qs'], qp=a, qv=form, r=None, rp=None, db=None, k=None, prefix=None)
			if sc == 'qs-genomes':
				d.update(r=rng.choice([['r'], ['rl']]))
			elif sc == 'genomes-rs':
				d = dict(q=rng.choice([['q'], ['ql']]), qp=None, r=['rs'], rp=a, rv=form, db=None, k=None, prefix=None)
			elif sc == 'qs-rs':
				d.update(r=['rs'], rp=b, rv='plain')
			elif sc == 'rs-qs':
				d = dict(q=['qs'], qp=b, qv='plain', r=['rs'], rp=a, rv=form, db=None, k=None, prefix=None)
			elif sc == 'qs-db':
				d.update(r=['db'], db=b, dbv=rng.choice(DB_VARIANTS))
			elif sc == 'qs-genomes-options':
				d.update(r=rng.choice([['r'], ['rl']]), k=PARAMS[b][0], prefix=PARAMS[b][1])
			elif sc == 'qs-square-options':
				d.update(r=['square'], k=PARAMS[b][0], prefix=PARAMS[b][1])
			elif sc == 'both':
				d.update(r=['rs'], rp=b, rv=other)
			else:
				yield 'query', dict(src=['sig'], sp=a, sv=form, db=b)
				continue
			yield 'dist', d


def gen_proc(ctx, n):
	"""a real `python -m gambit` process: its exit status and standard streams (query without -o writes to standard output)"""
	rng = ctx.rng
	def two():
		a = rng.randrange(NCORE)
		return a, rng.choice([i for i in range(NCORE) if i != a])
	for i in range(n):
		a, b = two()
		t = i % 6
		if t == 0:
			yield 'query', dict(src=['sig'], sp=b, db=a, form=dict(proc=True, out='default'))
		elif t == 1:
			yield 'dist', dict(q=['qs'], qp=a, r=['rs'], rp=b, db=None, k=None, prefix=None, form=dict(proc=True))
		elif t == 2:
			yield 'query', dict(src=['sig'], sp=a, db=a, form=dict(proc=True, out='default', db_opt='env'))
		elif t == 3:
			k, p = PARAMS[b]
			yield 'dist', dict(q=['qs'], qp=a, r=['db'], rp=None, db=a, k=k, prefix=p, form=dict(proc=True, db_opt='env', usedb_opt='-d'))
		elif t == 4:
			yield 'query', dict(src=['sig'], sp=b, db=a, form=dict(proc=True, out=rng.choice(['fresh', 'existing', 'stdout']),
			                                                       outfmt=rng.choice(['json', 'archive'])))
		else:
			yield 'dist', dict(q=['qs'], qp=a, r=rng.choice([['db'], ['rs']]), rp=a, db=a, k=None, prefix=None, form=dict(proc=True))


def gen_kspec_forms(ctx, n):
	"""kspec_from_params called the way Python code calls it: NumPy-scalar k, keyword arguments"""
	rng = ctx.rng
	signed, unsigned = ['int8', 'int16', 'int32', 'int64', 'intp'], ['uint8', 'uint16', 'uint32', 'uint64']
	for _ in range(n):
		k = rng.choice([None, -3, 0, 1, 4, 5, 6, 7, 11, 16, 17, 32, 33])
		p = rng.choice([None, '', 'A', 'AT', 'at', 'aC', 'ATGAC', 'AN', 'ATG'])
		yield dict(k=k, prefix=p, default=rng.random() < 0.4, ktype=rng.choice(signed + (unsigned if k is None or k >= 0 else []) + [None]),
		           call=rng.choice(['pos', 'kw', 'kw-swapped', 'short']))


def gen_api(ctx, n):
	rng = ctx.rng
	for i in range(n):
		db = i % NCORE if i < NCORE else list(rand_params(rng))
		yield dict(db=db, dbv=rng.choice(DB_VARIANTS), load=rng.choice(['dir', 'files', 'ctor']),
		           params=rng.choice([None, 'obj', 'objkw', 'kw']), labels=rng.random() < 0.5,
		           parse_kw=rng.choice([None, 'serial', 'serial', 'threads', 'empty']), files_as=rng.choice(['list', 'tuple']))


# ---- generators of the sequence streams (statefulness and aliasing audit) --------------------------------------------
def seq_param_sets(rng, min_k=1):
	"""three parameter sets a script moves between, as case references: core sets (index) or a random set, one that
	differs from it in ONE prefix letter only (same k, same lengths: what a cache keyed by k, by the lengths or by the
	data type cannot tell apart) and one more neighbour (k+-1, other width, other prefix length ...)"""
	if rng.random() < 0.4:
		return rng.sample(range(NCORE), 3)
	while True:
		A = rand_params(rng)
		k, p = A
		i = rng.randrange(len(p))
		B = rng.choice([(k, p[:i] + rng.choice([x for x in 'ACGT' if x != p[i]]) + p[i + 1:]), (k, revcomp(p)), (k, p[::-1])])
		if B == A:
			continue
		P = [A, B, neighbour(rng, *A)]
		if all(k >= min_k for k, _ in P) and len(set(P)) == 3:
			return [list(x) for x in P]


def seq_refs(rng, P, near=None):
	"""the parameter sets behind the query side, the reference side and the options of one step: all the same in half
	of the steps (the command has something to compute), else independent; near: those of an earlier step with ONE changed"""
	if near is not None and rng.random() < 0.6:
		refs = list(near)
		i = rng.randrange(3)
		refs[i] = rng.choice([x for x in P if x != refs[i]])
		return refs
	if rng.random() < 0.5:
		return [rng.choice(P)] * 3
	return [rng.choice(P) for _ in range(3)]


def kp_of(ref):
	return PARAMS[pidx(ref)]


def seq_step(shape, refs, share, focus=None):
	"""one command line (or kspec_from_params call).  shape: a number that fixes everything about the step except the
	parameter sets (which command, which kinds of source, which options, whether an input is unreadable) -- two steps of
	one shape with other refs are the SAME command line over the same paths with other parameters behind them;
	refs = (X, Y, Z): references to the parameter sets of the query side, the reference side, the options;
	share: pre-computed signatures and the database are read from ONE path each, rewritten in place whenever the step
	wants other parameters there"""
	import random
	rng = random.Random(shape)
	X, Y, Z = refs
	cmd = rng.choice(['dist'] * 9 + ['query'] * 6 + ['create'] * 2 + ['tree'] * 2 + ['kspec'] * 2)
	cmd = focus or cmd
	bad = rng.random() < 0.14
	if cmd == 'dist':
		q = rng.choice([['qs'], ['qs'], ['qs'], ['q'], ['ql']])
		r = rng.choice([['rs'], ['rs'], ['db'], ['db'], ['r'], ['rl'], ['square']])
		opts = rng.choice([None, None, None, X, Y, Z])
		k, prefix = (None, None) if opts is None else kp_of(opts)
		c = dict(q=q, qp=X if 'qs' in q else None, r=r, rp=Y if 'rs' in r else None,
		         db=Y if 'db' in r else rng.choice([None, None, Z]), k=k, prefix=prefix)
		if prefix is not None and rng.random() < 0.2:
			c['prefix'] = prefix.lower()
		if rng.random() < 0.06:
			c['prefix'] = None if c['k'] is not None else 'AT'   # one of -k / --prefix alone: a usage error
		if share:
			c.update({f: 0 for f, on in (('qslot', 'qs' in q), ('rslot', 'rs' in r), ('dbslot', c['db'] is not None)) if on})
		if bad:
			kinds = [b for b, on in (('qs-trunc', 'qs' in q), ('rs-trunc', 'rs' in r), ('ql-missing', 'ql' in q), ('rl-missing', 'rl' in r)) if on]
			if kinds:
				c['bad'] = rng.choice(kinds)
	elif cmd == 'query':
		src = rng.choice([['sig'], ['sig'], ['sig'], ['files'], ['list']])
		c = dict(src=src, sp=X if 'sig' in src else None, db=Y)
		if share:
			c['dbslot'] = 0
			if 'sig' in src:
				c['sslot'] = 0
		if rng.random() < 0.3:
			c['form'] = dict(outfmt=rng.choice(['json', 'archive']))
		if bad:
			c['bad'] = rng.choice(['db-trunc'] + (['s-trunc', 's-trunc'] if 'sig' in src else ['l-missing'] if 'list' in src else []))
	elif cmd == 'create':
		mode = rng.choice(['default', 'options', 'db', 'db', 'both'])
		k, prefix = kp_of(X) if mode in ('options', 'both') else (None, None)
		c = dict(src=rng.choice([['files'], ['list']]), k=k, prefix=prefix, db_params=mode in ('db', 'both'),
		         db=Y if mode in ('db', 'both') or rng.random() < 0.3 else None)
		if share and c['db'] is not None:
			c['dbslot'] = 0
	elif cmd == 'tree':
		src = rng.choice([['files'], ['list'], ['sig']])
		k, prefix = kp_of(Y) if rng.random() < 0.5 else (None, None)
		c = dict(src=src, sp=X if 'sig' in src else None, k=k, prefix=prefix)
		if share and 'sig' in src:
			c['sslot'] = 0
	else:
		k, prefix = kp_of(X)
		c = rng.choice([dict(k=k, prefix=prefix, default=False), dict(k=k, prefix=prefix, default=False), dict(k=k, prefix=prefix.lower(), default=True),
		                dict(k=None, prefix=None, default=True), dict(k=None, prefix=None, default=False), dict(k=k, prefix=None, default=True)])
	return dict(cmd=cmd, c=c)


def script_order(rng, nbase):
	"""2-6 positions over nbase base steps: every base step occurs, and from three positions on one of them occurs again
	after another one (A B A)"""
	n = rng.choice([2, 3, 3, 4, 4, 5, 6])
	order = list(range(min(nbase, n)))
	rng.shuffle(order)
	while len(order) < n:
		order.append(rng.choice([i for i in range(nbase) if i != order[-1]] or [0]))
	return order


def expected_to_fail(step):
	"""does the generator expect this step to end with an error (differing parameter sources, an unreadable input, a usage
	error)?  Only steers the generator -- every step is judged by what it does"""
	cmd, c = step['cmd'], step['c']
	if c.get('bad') or (c.get('k') is None) != (c.get('prefix') is None):
		return True
	opts = [(c['k'], c['prefix'].upper())] if c.get('k') is not None else []
	if cmd == 'dist':
		srcs = [kp_of(c[f]) for f, on in (('qp', 'qs' in c['q']), ('rp', 'rs' in c['r']), ('db', 'db' in c['r'])) if on and c[f] is not None] + opts
		return len(set(srcs)) > 1 or ('db' in c['r'] and c['db'] is None)
	if cmd == 'query':
		return 'sig' in c['src'] and kp_of(c['sp']) != kp_of(c['db'])
	if cmd == 'create':
		return bool(c.get('db_params')) and bool(opts)
	return False


def gen_seq(ctx, n):
	import copy
	rng = ctx.rng
	made = 0
	while made < n:
		# tiny k (<= 4) is left to the single-call streams: its 8-bit signatures are refused by the distance kernel
		P = seq_param_sets(rng, min_k=5)
		share = rng.random() < 0.75
		# state tends to live in one command's module: most scripts stay with one command (every kind of source and option
		# of it, failing and succeeding), the others mix all of them
		focus = rng.choice(['dist'] * 8 + ['query'] * 4 + ['kspec', 'kspec', 'tree', 'create'] + [None] * 5)

		def draw(want_failure):
			for _ in range(40):
				refs = seq_refs(rng, P) if want_failure else [rng.choice(P)] * 3
				st = seq_step(rng.randrange(2 ** 30), refs, share, focus)
				if expected_to_fail(st) == want_failure:
					return st
			return None

		base, order = [], None
		if rng.random() < 0.4:
			# a call that fails (refused, or part-way: an input that cannot be read), then a good call -- of another shape or
			# the one that ran before the failure -- in the same process over the same paths
			F, G1, G2 = draw(True), draw(False), draw(False)
			if None not in (F, G1, G2) and G1 != G2:
				base = [F, G1, G2]
				order = rng.choice([[1, 0, 1], [0, 1], [1, 0, 2], [0, 2, 0, 1], [1, 0, 2, 1], [0, 1, 2], [1, 2, 0, 2, 1]])
		if order is None:
			shapes = []
			for _ in range(12):
				# more often than not the next base step is an earlier one over again with other parameter sets behind the
				# same paths and options (what a cache keyed by path / by k / by the option values cannot tell apart)
				if shapes and rng.random() < 0.6:
					shape, near = rng.choice(shapes)
				else:
					shape, near = rng.randrange(2 ** 30), None
				refs = seq_refs(rng, P, near)
				st = seq_step(shape, refs, share, focus)
				if st not in base:
					shapes.append((shape, refs))
					base.append(st)
				if len(base) >= 3 or (len(base) == 2 and rng.random() < 0.5):
					break
			order = script_order(rng, len(base))
		for o in ([order, order[::-1]] if rng.random() < 0.5 and order != order[::-1] else [order]):
			made += 1
			steps = [copy.deepcopy(base[i]) for i in o]
			if len(steps) <= 4 and rng.random() < 0.5:
				# two direct calls of kspec_from_params (what every -k/--prefix goes through) with two of the script's
				# parameter sets, anywhere between the command lines: they cost nothing
				for ref in rng.sample(P, 2):
					k, prefix = kp_of(ref)
					steps.insert(rng.randrange(len(steps) + 1), dict(cmd='kspec', c=dict(k=k, prefix=prefix, default=rng.random() < 0.3)))
			yield dict(steps=steps)


def gen_apiseq(ctx, n):
	rng = ctx.rng
	for _ in range(n):
		P = seq_param_sets(rng, min_k=5)
		dbs = [dict(db=ref, dbv=rng.choice(DB_VARIANTS + ('extra', 'extra')), load=rng.choice(['dir', 'files', 'ctor']))
		       for ref in P[:rng.choice([2, 2, 3])]]
		shared = rng.random() < 0.7
		sp, spas, spk = rng.choice([None, 0, 1, 2]), rng.choice(['pos', 'kw']), rng.choice([0, 0, 1, 2])
		base = []
		for i in range(rng.choice([2, 2, 3])):
			st = dict(db=i % len(dbs), p=sp if shared else rng.choice([None, 0, 1, 2, 'kw']), pas=spas if shared else rng.choice(['pos', 'kw']),
			          pk=spk if shared else rng.choice([None, 0, 1, 2]), labels=rng.choice([False, True, True]),
			          files=rng.choice(['list', 'list', 'list', 'tuple']))
			base.append(st)
		if rng.random() < 0.6:
			st = dict(rng.choice(base))
			if rng.random() < 0.3:
				st['labels'] = 'short'
			else:
				st['files'] = rng.choice(['missing', 'missing', 'raises'])
			base.append(st)
		order = script_order(rng, len(base))
		yield dict(dbs=dbs, steps=[dict(base[i]) for i in order], thread=rng.random() < 0.3)


def generate(ctx):
	# ---- streams added by the statefulness / aliasing audit (see "state and aliasing" in the module docstring).  They run
	# FIRST and at once (not queued behind the other kinds): hidden state that breaks a later single call is then reported
	# with a script that carries its own history -- a single-call case that fails only because of what ran before it does
	# not reproduce from its replay file
	cases = []
	for c in gen_seq(ctx, ctx.pick(48, 600)):
		ctx.count('stream:seq-command-lines-over-shared-files')
		cases.append(c)
	run_seq(ctx, cases)
	cases = []
	for c in gen_apiseq(ctx, ctx.pick(16, 240)):
		ctx.count('stream:seq-query_parse-over-shared-objects')
		cases.append(c)
	run_apiseq(ctx, cases)
	for c in gen_kspec(ctx, ctx.pick(300, 3000)):
		ctx.count('stream:kspec')
		yield 'kspec', c
	for c in gen_query():
		ctx.count('stream:query-exhaustive')
		yield 'query', c
	for c in gen_dist_exhaustive():
		ctx.count('stream:dist-exhaustive')
		yield 'dist', c
	for c in gen_tree():
		ctx.count('stream:tree-exhaustive')
		yield 'tree', c
	for c in gen_create():
		ctx.count('stream:create-exhaustive')
		yield 'create', c
	for c in gen_dist_extra(ctx, ctx.pick(150, 1500)):
		ctx.count('stream:dist-random-malformed')
		yield 'dist', c
	# ---- streams added by the coverage audit (see the table in the module docstring) ----
	for c in gen_kspec_forms(ctx, ctx.pick(150, 1500)):
		ctx.count('stream:kspec-call-forms')
		yield 'kspec', c
	for c in gen_dist_params(ctx, ctx.pick(110, 1200)):
		ctx.count('stream:dist-random-parameter-pairs')
		c['st'] = 'params'
		yield 'dist', c
	for c in gen_query_params(ctx, ctx.pick(45, 500)):
		ctx.count('stream:query-random-parameter-pairs')
		c['st'] = 'params'
		yield 'query', c
	for c in gen_dist_forms(ctx, ctx.pick(70, 800)):
		ctx.count('stream:dist-command-line-forms')
		c['st'] = 'forms'
		yield 'dist', c
	for c in gen_query_forms(ctx, ctx.pick(60, 700)):
		ctx.count('stream:query-command-line-forms')
		c['st'] = 'forms'
		yield 'query', c
	for c in gen_dist_variants(ctx, ctx.pick(60, 700)):
		ctx.count('stream:dist-sigfile-variants')
		c['st'] = 'variants'
		yield 'dist', c
	for c in gen_query_variants(ctx, ctx.pick(40, 500)):
		ctx.count('stream:query-sigfile-variants')
		c['st'] = 'variants'
		yield 'query', c
	for kind, c in gen_api_written(ctx, ctx.pick(2, None)):
		ctx.count(f'stream:{kind}-api-written-signatures')
		c['st'] = 'api-written'
		yield kind, c
	for c in gen_api(ctx, ctx.pick(14, 150)):
		ctx.count('stream:api-query_parse')
		yield 'api', c
	for kind, c in gen_proc(ctx, ctx.pick(6, 48)):
		ctx.count('stream:real-process')
		c['st'] = 'process'
		yield kind, c
	ctx.exhaustive = True
	ctx.extra['exhaustive_scope'] = (
		'dist: {-q, --ql, --qs x 4 parameter sets} x {-r, --rl, --square, --rs x 4, --use-db x 4 databases} x '
		'{no -k/-p, -k only, -p only, both x 4}; query: {files, list, -s x 6 parameter sets} x {no database, 4 databases} '
		'+ the repository test database x 5 foreign signature files; tree and signatures create: every source x option mode '
		'(x --db-params x database).  Parameter sets (6,AT) (7,AT) (6,AC) (7,AC) differ pairwise in k, prefix, or both.')
