"""C03 -- default classification follows the closest genome's lineage and thresholds.

Tie: B.  The implementation (gambit.query.get_result_item -> gambit.classify.classify(strict=False),
GenomeMatch.next_taxon, gambit.db.models.reportable_taxon; and gambit.query.query + CSVResultsExporter for
the CSV columns) is run on transient ORM objects built from this file's own forests (parent tables), the
extracted model (Model/C03Classify.v) and the extracted oracle `check` (Spec/C03Spec.v) on the lineages
derived from the same parent tables.  What is compared is what the property constrains: the reported
closest genome must be *a* genome at the minimum distance (ties: any), and predicted / primary / next /
report taxon must be what the rule yields for that genome's lineage and distance (Coq theorem
C03_check_iff: `check` accepts exactly those observations).  Numbers cross the wire as exact integers
(value * 2^k, k common to the case); the reading "float32 d <= float64 threshold is exact" is itself
checked against Flocq's binary32/binary64 comparison and against the code on every threshold/distance
boundary pair (kind `cmp`)."""
import csv
import io
import itertools
import struct
from fractions import Fraction

PROP = 'C03'
RULE = ('cls: forest (parent table, optional thresholds, report flags) + genomes on arbitrary taxa + float32 '
        'distance vector -> get_result_item; chain: one lineage x several distances (each classified separately, '
        'then the monotonicity predicate across the distances); csv: query() + CSV export of several queries; '
        'cmp: float32 distance vs float64 threshold comparison.  non-trivial: the closest genome\'s lineage has '
        '>= 2 taxa of which at least one carries a threshold (cls/chain/csv); cmp: the pair is within 2 float32 ulps')
TRUSTED = ['harness/c03.py: construction of transient gambit.db.models objects from the parent table, derivation of '
           'lineages from the same table, exact float -> scaled-integer conversion (fractions.Fraction)',
           'NumPy: np.argmin returns an index of a minimum; float32 scalar <= Python float (modelled as exact; '
           'sampled by kind cmp against Flocq)',
           'SQLAlchemy: in-memory relationship Taxon.parent on transient objects behaves like the persisted one']
ASSUMPTIONS = ['distances and thresholds are finite (no NaN/inf); taxon ids are unique; the taxonomy is a forest',
               'NumPy 1.x legacy promotion (float32 scalar vs Python float compared in binary64); under NumPy>=2 '
               '(NEP 50) the threshold would be rounded to float32 first and kind cmp would report it',
               'the repaired GenomeMatch.next_taxon (repo_fixes/C03.diff) is the algorithm the theorems are about; '
               'the walk as found is kept as classify_orig with C03_next_orig_refuted']
CORRESPONDENCES = ['cls', 'chain', 'csv', 'cmp']

ERR = {1: 'ValueError', 2: 'IndexError', 3: 'AttributeError', 4: 'OutOfFuel'}


def setup(ctx):
	from vf import impl
	impl.check_import()


# ---- numbers -------------------------------------------------------------------------------------
def f32(x):
	"""nearest binary32 value, as a Python float"""
	return struct.unpack('<f', struct.pack('<f', x))[0]


def f32_bits(x):
	return struct.unpack('<I', struct.pack('<f', x))[0]


def f32_from_bits(b):
	return struct.unpack('<f', struct.pack('<I', b))[0]


def f64_bits(x):
	return struct.unpack('<Q', struct.pack('<d', x))[0]


def f32_step(x, n):
	"""the binary32 value n ulps away from the (non-negative) binary32 value x"""
	b = f32_bits(x) + n
	return f32_from_bits(max(0, min(b, 0x7f7fffff)))


def dyadic(x):
	"""finite float -> (m, e) with x == m * 2**e exactly"""
	fr = Fraction(x)
	n, d = fr.numerator, fr.denominator
	return n, -(d.bit_length() - 1)


def scaler(values):
	"""common scaling of all numbers of a case: float -> wire number (m s) = m * 2^s, s >= 0"""
	k = 0
	for v in values:
		if v is not None:
			k = max(k, -dyadic(v)[1])

	def num(x):
		m, e = dyadic(x)
		return [m, e + k]
	return num


# ---- forests -------------------------------------------------------------------------------------
def validate(case):
	taxa, genomes, dists = case['taxa'], case['genomes'], case['dists']
	for i, t in enumerate(taxa):
		if not (isinstance(t, list) and len(t) == 3):
			raise ValueError('taxon entry')
		p = t[0]
		if not (isinstance(p, int) and -1 <= p < i):
			raise ValueError('parent must precede child')
	for g in genomes:
		if g is not None and not (isinstance(g, int) and 0 <= g < len(taxa)):
			raise ValueError('genome taxon')
	for d in dists:
		if not isinstance(d, (int, float)) or d != d or d in (float('inf'), float('-inf')) or f32(d) != d:
			raise ValueError('distance must be a finite binary32 value')


def lineage_ix(taxa, g):
	"""indices of the taxon g and its ancestors, from the parent table"""
	out = []
	while g is not None and g >= 0:
		out.append(g)
		g = taxa[g][0]
	return out


def wire_genomes(taxa, genomes, num):
	def tx(i):
		p, thr, rep = taxa[i]
		return [i + 1, [] if thr is None else [num(thr)], 1 if rep else 0]
	return [[tx(i) for i in lineage_ix(taxa, g)] for g in genomes]


def build_orm(taxa, genomes):
	from gambit.db.models import Taxon, Genome, AnnotatedGenome
	objs = []
	for i, (p, thr, rep) in enumerate(taxa):
		t = Taxon(id=i + 1, key=f't{i + 1}', name=f't{i + 1}', rank=None, distance_threshold=thr, report=bool(rep))
		if p >= 0:
			t.parent = objs[p]
		objs.append(t)
	gs = []
	for j, g in enumerate(genomes):
		ag = AnnotatedGenome(genome=Genome(id=j + 1, key=f'g{j}', description=f'g{j}'))
		if g is not None:
			ag.taxon = objs[g]
		gs.append(ag)
	return objs, gs


def _ix(lst, obj):
	for i, x in enumerate(lst):
		if x is obj:
			return i
	return -1


def impl_item(gs, dists):
	"""run get_result_item -> observation dict or error name"""
	import numpy as np
	from types import SimpleNamespace
	from gambit.query import get_result_item, QueryParams, QueryInput
	db = SimpleNamespace(genomes=gs)
	try:
		item = get_result_item(db, QueryParams(), np.asarray(dists, dtype=np.float32), QueryInput('q'))
	except (ValueError, IndexError, AttributeError, TypeError) as e:
		return type(e).__name__
	cr = item.classifier_result
	tid = lambda t: None if t is None else t.id
	return dict(closest=_ix(gs, cr.closest_match.genome), dist=float(cr.closest_match.distance),
	            predicted=tid(cr.predicted_taxon),
	            primary=None if cr.primary_match is None else _ix(gs, cr.primary_match.genome),
	            next=tid(cr.next_taxon), report=tid(item.report_taxon))


def opt(x):
	return [] if x is None else [x]


def unopt(v):
	return v[0] if v else None


def model_obs(ans):
	"""(0 (closest pred primary next report)) -> dict | error name"""
	if ans[0] != 0:
		return ERR.get(ans[1], f'err{ans[1]}')
	c, p, pr, n, r = ans[1]
	return dict(closest=c, predicted=unopt(p), primary=unopt(pr), next=unopt(n), report=unopt(r))


def diff_fields(o, m):
	return [k for k in ('closest', 'predicted', 'primary', 'next', 'report') if o.get(k) != m.get(k)]


def judge(ctx, kind, case, label, taxa, genomes, dists, o, a_fixed, a_orig, a_check):
	"""o: implementation observation; a_*: model answers.  Returns True when the property held."""
	m = model_obs(a_fixed)
	mo = model_obs(a_orig)
	if len(dists) != len(genomes) or not dists or any(g is None for g in genomes):
		# outside the property's domain (one distance per reference genome, every genome has a taxon):
		# the property says nothing about which error is raised, or whether one is
		ctx.count('malformed-evaluated')
		return True
	if isinstance(o, str):
		if isinstance(m, str):
			return True   # both refuse (malformed input); the property says nothing about which error
		ctx.violation(kind, case, f'{label}: get_result_item raised {o}; the property requires a result', impl=o, model=m, spec=m)
		return False
	if isinstance(m, str):
		return True       # malformed input on which the implementation happens to answer
	if a_check == 1:
		return True
	# describe what is wrong
	if o['closest'] < 0 or o['closest'] >= len(dists) or o['dist'] != dists[o['closest']] or o['dist'] > min(dists):
		what = (f'{label}: closest match is genome #{o["closest"]} at {o["dist"]!r}, the minimum distance is {min(dists)!r} '
		        f'(first at #{dists.index(min(dists))})')
	else:
		exp = None
		if o['closest'] == m['closest']:
			exp = m
		what = f'{label}: for closest genome #{o["closest"]} (lineage ids {[i + 1 for i in lineage_ix(taxa, genomes[o["closest"]])]}, ' \
		       f'thresholds {[taxa[i][1] for i in lineage_ix(taxa, genomes[o["closest"]])]}) at distance {o["dist"]!r} the implementation reports ' \
		       f'predicted={o["predicted"]} primary={o["primary"]} next={o["next"]} report={o["report"]}'
		if exp is not None:
			what += f'; the rule gives predicted={exp["predicted"]} primary={exp["primary"]} next={exp["next"]} report={exp["report"]} ' \
			        f'(differs in {diff_fields(o, exp)})'
		if not isinstance(mo, str) and not diff_fields(o, mo):
			what += ' [this is the behaviour of the unrepaired GenomeMatch.next_taxon, DESIGN.md 6-a: the genome\'s own taxon is ' \
			        'reported as "next" although it carries no threshold]'
	ctx.violation(kind, case, what, impl=o, spec=m, model=m, model_unrepaired=mo)
	return False


# ---- kind cls ------------------------------------------------------------------------------------
def k_cls(ctx, cases):
	prepared = []
	reqs = []
	for case in cases:
		validate(case)
		taxa, genomes, dists = case['taxa'], case['genomes'], case['dists']
		objs, gs = build_orm(taxa, genomes)
		o = impl_item(gs, dists)
		num = scaler([t[1] for t in taxa] + list(dists))
		wg = wire_genomes(taxa, genomes, num)
		wd = [num(d) for d in dists]
		reqs.append((301, [wg, wd]))
		reqs.append((302, [wg, wd]))
		if isinstance(o, str) or o['closest'] < 0:
			wo = [0, [0, 0], [], [], [], []]
		else:
			wo = [o['closest'], num(o['dist']), opt(o['predicted']), opt(o['primary']), opt(o['next']), opt(o['report'])]
		reqs.append((303, [wg, wd, wo]))
		prepared.append((case, o))
	ans = ctx.model(reqs)
	for i, (case, o) in enumerate(prepared):
		taxa, genomes, dists = case['taxa'], case['genomes'], case['dists']
		nontriv = False
		if not isinstance(o, str) and 0 <= o['closest'] < len(genomes):
			lin = lineage_ix(taxa, genomes[o['closest']])
			nontriv = len(lin) >= 2 and any(taxa[j][1] is not None for j in lin)
		ctx.case(case, nontrivial=nontriv)
		judge(ctx, 'cls', case, 'classify', taxa, genomes, dists, o, ans[3 * i], ans[3 * i + 1], ans[3 * i + 2])


# ---- kind chain ----------------------------------------------------------------------------------
def k_chain(ctx, cases):
	"""case: lineage = [[thr, report], ...] own taxon first; dists: binary32 values.  One genome on the own taxon."""
	prepared = []
	reqs = []
	for case in cases:
		lin, dists = case['lineage'], case['dists']
		n = len(lin)
		if n == 0 or any(not (isinstance(t, list) and len(t) == 2) for t in lin):
			raise ValueError('lineage')
		# parent table: root first
		taxa = [[i - 1, lin[n - 1 - i][0], lin[n - 1 - i][1]] for i in range(n)]
		validate(dict(taxa=taxa, genomes=[n - 1], dists=dists))
		objs, gs = build_orm(taxa, [n - 1])
		num = scaler([t[1] for t in taxa] + list(dists))
		wg = wire_genomes(taxa, [n - 1], num)
		obs = []
		for d in dists:
			o = impl_item(gs, [d])
			obs.append(o)
			wd = [num(d)]
			reqs.append((301, [wg, wd]))
			reqs.append((302, [wg, wd]))
			wo = [0, [0, 0], [], [], [], []] if isinstance(o, str) else \
				[o['closest'], num(o['dist']), opt(o['predicted']), opt(o['primary']), opt(o['next']), opt(o['report'])]
			reqs.append((303, [wg, wd, wo]))
		prepared.append((case, taxa, obs))
	ans = ctx.model(reqs)
	pos = 0
	for case, taxa, obs in prepared:
		dists = case['dists']
		n = len(taxa)
		ctx.case(case, nontrivial=n >= 2 and any(t[1] is not None for t in taxa))
		ok = True
		for d, o in zip(dists, obs):
			ok &= judge(ctx, 'chain', case, f'distance {d!r}', taxa, [n - 1], [d], o, ans[pos], ans[pos + 1], ans[pos + 2])
			pos += 3
		if not ok or any(isinstance(o, str) for o in obs):
			continue
		# monotonicity on the implementation's own answers: height above the genome's own taxon
		# (own taxon id = n, root id = 1; no prediction = n)
		height = lambda t: n if t is None else n - t
		order = sorted(range(len(dists)), key=lambda j: dists[j])
		for a, b in zip(order, order[1:]):
			for field in ('predicted', 'report'):
				if height(obs[b][field]) < height(obs[a][field]):
					ctx.violation('chain', case,
					              f'{field} taxon became more specific when the distance grew from {dists[a]!r} to {dists[b]!r}: '
					              f'{obs[a][field]} -> {obs[b][field]} (thresholds own-first {[t[0] for t in case["lineage"]]})',
					              impl=[obs[a], obs[b]], spec='height must not decrease')


# ---- kind csv ------------------------------------------------------------------------------------
def k_csv(ctx, cases):
	"""case: taxa, genomes, rows = list of distance vectors (unique minimum each).  query() with the distance
	matrix supplied by the harness, exported with CSVResultsExporter, columns read back."""
	import numpy as np
	from types import SimpleNamespace
	import gambit.query as gq
	from gambit.results import CSVResultsExporter
	if not hasattr(gq, 'jaccarddist_matrix'):
		ctx.count('stream:csv-skipped(no gambit.query.jaccarddist_matrix)', len(cases))
		return
	reqs = []
	outs = []
	for case in cases:
		taxa, genomes, rows = case['taxa'], case['genomes'], case['rows']
		for r in rows:
			validate(dict(taxa=taxa, genomes=genomes, dists=r))
			srt = sorted(r)
			if len(srt) > 1 and srt[0] == srt[1]:
				raise ValueError('csv cases need a unique minimum')
		objs, gs = build_orm(taxa, genomes)
		db = SimpleNamespace(genomes=gs, genomeset=None, signatures=SimpleNamespace(meta=None), sig_indices=None)
		mat = np.asarray(rows, dtype=np.float32)
		saved = gq.jaccarddist_matrix
		gq.jaccarddist_matrix = lambda *a, **k: mat
		try:
			try:
				res = gq.query(db, [None] * len(rows))
				buf = io.StringIO()
				CSVResultsExporter().export(buf, res)
				table = list(csv.reader(io.StringIO(buf.getvalue())))
			except (ValueError, IndexError, AttributeError, TypeError, KeyError) as e:
				table = type(e).__name__
		finally:
			gq.jaccarddist_matrix = saved
		outs.append(table)
		num = scaler([t[1] for t in taxa] + [d for r in rows for d in r])
		wg = wire_genomes(taxa, genomes, num)
		for r in rows:
			reqs.append((301, [wg, [num(d) for d in r]]))
	ans = ctx.model(reqs)
	pos = 0
	for case, table in zip(cases, outs):
		taxa, genomes, rows = case['taxa'], case['genomes'], case['rows']
		ms = [model_obs(a) for a in ans[pos:pos + len(rows)]]
		pos += len(rows)
		nontriv = False
		for m in ms:
			if not isinstance(m, str):
				lin = lineage_ix(taxa, genomes[m['closest']])
				nontriv |= len(lin) >= 2 and any(taxa[j][1] is not None for j in lin)
		ctx.case(case, nontrivial=nontriv)
		if any(isinstance(m, str) for m in ms):
			continue
		if isinstance(table, str):
			ctx.violation('csv', case, f'query()/CSV export raised {table}', impl=table, spec=ms, model=ms)
			continue
		name = lambda t: '' if t is None else f't{t}'
		exp = [[str(q + 1), name(m['report']), f'g{m["closest"]}', name(m['next']), f32_bits(rows[q][m['closest']])]
		       for q, m in enumerate(ms)]
		got = None
		try:
			hdr = table[0]
			col = {h: hdr.index(h) for h in ('query', 'predicted.name', 'closest.description', 'next.name', 'closest.distance')}
			got = [[r[col['query']], r[col['predicted.name']], r[col['closest.description']], r[col['next.name']],
			        f32_bits(float(r[col['closest.distance']]))] for r in table[1:]]
		except (ValueError, IndexError, OverflowError, struct.error):
			pass
		if got != exp:
			bad = None if got is None or len(got) != len(exp) else [q for q in range(len(exp)) if got[q] != exp[q]]
			ctx.violation('csv', case,
			              f'CSV rows (query, predicted.name, closest.description, next.name, closest.distance bits) differ from the rule'
			              + (f' in row(s) {bad}: got {[got[q] for q in bad][:2]} expected {[exp[q] for q in bad][:2]}' if bad else ''),
			              impl=got if got is not None else table, spec=exp, model=exp)


# ---- kind cmp ------------------------------------------------------------------------------------
def k_cmp(ctx, cases):
	"""case: d_bits (binary32), t_bits (binary64).  The code's own comparison (matching_taxon on a single taxon)
	vs Flocq vs the scaled integers the other kinds send."""
	import numpy as np
	from gambit.classify import matching_taxon
	from gambit.db.models import Taxon
	reqs = []
	for c in cases:
		d = f32_from_bits(c['d_bits'])
		t = struct.unpack('<d', struct.pack('<Q', c['t_bits']))[0]
		num = scaler([d, t])
		reqs += [(304, [c['d_bits'], c['t_bits']]), (306, [num(d), num(t)])]
	ans = ctx.model(reqs)
	for i, c in enumerate(cases):
		d = f32_from_bits(c['d_bits'])
		t = struct.unpack('<d', struct.pack('<Q', c['t_bits']))[0]
		tx = Taxon(id=1, name='t', distance_threshold=t, report=True)
		got = matching_taxon(tx, np.float32(d)) is not None
		flocq = ans[2 * i] == 1
		ints = ans[2 * i + 1][0] == 1
		exact = Fraction(d) <= Fraction(t)
		ctx.case(c, nontrivial=abs(f32_bits(f32(t)) - c['d_bits']) <= 2 if t >= 0 and d >= 0 else False)
		if flocq != ints or ints != exact:
			ctx.broke('number encoding (Flocq bits vs scaled integers vs fractions.Fraction)',
			          f'd_bits={c["d_bits"]} t_bits={c["t_bits"]}: flocq={flocq} scaled={ints} fraction={exact}')
		elif got != exact:
			ctx.violation('cmp', c, f'distance {d!r} (binary32) vs threshold {t!r}: the code treats "threshold >= distance" as {got}, '
			              f'exactly it is {exact}', impl=got, spec=exact, model=flocq)


KINDS = {'cls': k_cls, 'chain': k_chain, 'csv': k_csv, 'cmp': k_cmp}
BATCH = 1500


# ---- generators ----------------------------------------------------------------------------------
THR_GRID = [None, 0.25, 0.3, 0.6]


def boundary_dists(thrs):
	"""binary32 distances around the given thresholds: the threshold's neighbours in binary32 and itself when
	representable"""
	out = set()
	for t in thrs:
		if t is None:
			continue
		c = f32(t)
		for n in (-1, 0, 1):
			v = f32_step(abs(c), n)
			out.add(v if c >= 0 else -v)
	return sorted(out)


def random_forest(rng, n, chainy):
	taxa = []
	for i in range(n):
		if i == 0 or rng.random() < 0.15:
			p = -1
		elif rng.random() < chainy:
			p = i - 1
		else:
			p = rng.randrange(i)
		r = rng.random()
		if r < 0.3:
			thr = None
		elif r < 0.55:
			thr = rng.choice([0.0, 0.05, 0.1, 0.25, 0.3, 0.5, 0.6, 0.75, 0.9, 1.0])
		elif r < 0.6:
			thr = rng.choice([-0.1, 1.5, 5e-324, 1e-40, 2.0 ** -149, 0.1 + 2.0 ** -30])
		else:
			thr = rng.random()
		taxa.append([p, thr, rng.random() < 0.6])
	return taxa


def random_dists(rng, taxa, m):
	pool = boundary_dists([t[1] for t in taxa if t[1] is not None and abs(t[1]) < 3e38])
	base = []
	for _ in range(m):
		r = rng.random()
		if pool and r < 0.55:
			base.append(rng.choice(pool))
		elif r < 0.65:
			base.append(rng.choice([0.0, 1.0, f32(0.5), f32(1e-40), f32(0.999)]))
		else:
			base.append(f32(rng.random()))
	if m >= 2 and rng.random() < 0.4:   # tie at the minimum (or elsewhere)
		i, j = rng.sample(range(m), 2)
		base[j] = base[i] if rng.random() < 0.5 else min(base)
	return [d if d >= 0 else 0.0 for d in base]


def generate(ctx):
	rng = ctx.rng
	ctx.rule(RULE)

	# 1. exhaustive lineages: every chain of depth <= D over thresholds {None, .25, .3, .6} x report flag,
	#    each at every boundary distance (0.3 and 0.6 are not binary32 values: both neighbours are used)
	D = ctx.pick(4, 5)
	grid = [f32(0.1)] + boundary_dists([0.25, 0.3, 0.6]) + [f32(0.5), f32(0.9)]
	grid = sorted(set(grid))
	n_ex = 0
	for depth in range(1, D + 1):
		for combo in itertools.product([(t, r) for t in THR_GRID for r in (True, False)], repeat=depth):
			yield 'chain', dict(lineage=[[t, r] for t, r in combo], dists=grid)
			n_ex += 1
	ctx.count('stream:exhaustive-chains', n_ex)

	# 2. exhaustive forests with <= 3 taxa x thresholds {None, .3, .6} x two genomes anywhere x distance pairs
	n_f = 0
	dgrid = [f32(0.25), f32(0.3), f32_step(f32(0.3), -1), f32(0.5), f32(0.7)]
	for n in (1, 2, 3):
		for parents in itertools.product(*[range(-1, i) for i in range(n)]):
			for thrs in itertools.product([None, 0.3, 0.6], repeat=n):
				taxa = [[parents[i], thrs[i], i % 2 == 0] for i in range(n)]
				for g0 in range(n):
					for g1 in range(n):
						for d0, d1 in itertools.product(dgrid, repeat=2):
							if ctx.quick and n == 3 and (d0, d1) not in ((dgrid[1], dgrid[1]), (dgrid[2], dgrid[3]), (dgrid[3], dgrid[2]), (dgrid[4], dgrid[0])):
								continue
							yield 'cls', dict(taxa=taxa, genomes=[g0, g1], dists=[d0, d1])
							n_f += 1
	ctx.count('stream:exhaustive-forests<=3', n_f)
	ctx.exhaustive = True
	ctx.extra['exhaustive_scope'] = (f'all lineages of depth <= {D} over thresholds {{none, 0.25, 0.3, 0.6}} x report flag, each at '
	                                 f'{len(grid)} boundary distances; all forests with <= 3 taxa x thresholds {{none, 0.3, 0.6}} x two genomes '
	                                 f'on any taxa x ' + ('4 (n=3) / 25 distance pairs' if ctx.quick else '25 distance pairs'))

	# 3. random forests: several roots, depth up to ~10, missing / non-monotone thresholds, unreportable taxa,
	#    genomes on internal nodes, ties, distances on and next to the thresholds
	n_r = ctx.pick(12000, 100000)
	for _ in range(n_r):
		n = rng.randint(1, 14)
		taxa = random_forest(rng, n, rng.choice([0.3, 0.7, 0.95]))
		m = rng.randint(1, 8)
		genomes = [rng.randrange(n) for _ in range(m)]
		yield 'cls', dict(taxa=taxa, genomes=genomes, dists=random_dists(rng, taxa, m))
	ctx.count('stream:random-forests', n_r)

	# 4. random deep chains with many distances (monotonicity)
	n_c = ctx.pick(2000, 15000)
	for _ in range(n_c):
		depth = rng.randint(2, 12)
		taxa = random_forest(rng, depth, 1.0)
		lin = [[t[1], t[2]] for t in reversed(taxa)]
		ds = sorted(set(random_dists(rng, taxa, rng.randint(3, 10))))
		yield 'chain', dict(lineage=lin, dists=ds)
	ctx.count('stream:random-chains', n_c)

	# 5. query() + CSV export
	n_q = ctx.pick(800, 6000)
	for _ in range(n_q):
		n = rng.randint(1, 10)
		taxa = random_forest(rng, n, 0.7)
		m = rng.randint(1, 6)
		genomes = [rng.randrange(n) for _ in range(m)]
		rows = []
		for _q in range(rng.randint(1, 4)):
			r = random_dists(rng, taxa, m)
			lo = min(r)
			i0 = r.index(lo)
			r = [d if j == i0 or d > lo else f32_step(max(d, lo), 1 + j) for j, d in enumerate(r)]
			rows.append(r)
		yield 'csv', dict(taxa=taxa, genomes=genomes, rows=rows)
	ctx.count('stream:query-csv', n_q)

	# 6. comparison boundary pairs
	n_p = 0
	thr_samples = [0.25, 0.3, 0.6, 0.1, 0.7, 1.0, 0.0, 1e-40, 5e-324, 2.0 ** -149, 2.0 ** -150, 0.1 + 2.0 ** -30, 1 / 3, 0.999999999]
	thr_samples += [rng.random() for _ in range(ctx.pick(300, 3000))]
	for t in thr_samples:
		c = f32_bits(f32(t))
		for n in (-2, -1, 0, 1, 2):
			b = c + n
			if 0 <= b <= 0x7f7fffff:
				yield 'cmp', dict(d_bits=b, t_bits=f64_bits(t))
				n_p += 1
	ctx.count('stream:cmp-boundaries', n_p)

	# 7. malformed: no distances, fewer genomes than distances, genome without taxon
	mal = [dict(taxa=[[-1, 0.5, True]], genomes=[0], dists=[]),
	       dict(taxa=[[-1, 0.5, True]], genomes=[], dists=[]),
	       dict(taxa=[[-1, 0.5, True]], genomes=[0], dists=[f32(0.5), f32(0.25)]),
	       dict(taxa=[[-1, 0.5, True]], genomes=[None], dists=[f32(0.25)]),
	       dict(taxa=[[-1, 0.5, True]], genomes=[0, None], dists=[f32(0.25), f32(0.5)]),
	       dict(taxa=[[-1, 0.5, True]], genomes=[0, None], dists=[f32(0.5), f32(0.25)]),
	       dict(taxa=[[-1, 0.5, True]], genomes=[0, 0, 0], dists=[f32(0.5)])]
	for c in mal:
		ctx.count('stream:malformed')
		yield 'cls', c
