"""C03 -- default classification follows the closest genome's lineage and thresholds.

Tie: B.  The implementation (gambit.query.get_result_item -> gambit.classify.classify(strict=False),
GenomeMatch.next_taxon, gambit.db.models.reportable_taxon; and gambit.query.query + CSVResultsExporter for
the CSV columns) is run on transient ORM objects built from this file's own forests (parent tables), the
extracted model (Model/C03Classify.v) and the extracted oracle `check` (Spec/C03Spec.v) on the lineages
derived from the same parent tables.  What is compared is what the property constrains: the reported
closest genome must be *a* genome at the minimum distance (ties: any), and predicted / primary / next /
report taxon must be what the rule yields for that genome's lineage and distance (Coq theorem
C03_check_iff: `check` accepts exactly those observations).  Numbers cross the wire as exact integers
(value * 2^k, k common to the case); the reading "float32 d <= float64 threshold is exact" is itself
checked against Flocq's binary32/binary64 comparison and against the code on every threshold/distance
boundary pair (kind `cmp`).

Coverage audit (item of the property text -> streams that drive it ON THE IMPLEMENTATION; every stream listed judges
the property predicate (oracle `check`, op 303) unless noted; "A:" = added by the audit):
  clauses
    closest = a genome at the minimum .......... all cls/chain/api/qry/db streams (ties: any minimum accepted); csv (unique min)
    predicted / primary iff predicted ........... cls, chain, api, qry items, db items  (csv: only through predicted.name)
    primary match IS the closest match .......... genome: cls/chain; A: + distance of the primary match (api/qry/db)
    next taxon .................................. cls, chain, csv (next.name); A: api, qry, db (+ next.rank/ncbi_id/threshold)
    user-facing taxon ........................... cls, chain, csv (predicted.name); A: api (gambit.db.reportable_taxon), qry, db
    monotone in the distance .................... exhaustive-chains, random-chains; A: deep-chains
  quantifier
    depth ....................................... <= 5 exhaustive, <= 14 random; A: deep-chains (20..200), deep-forests (40..150 taxa)
    no threshold / non-monotone / unreportable /
    several roots / genomes on internal nodes ... exhaustive-forests<=3, random-forests, and every A: stream (same forest generator)
    distance == threshold ....................... boundary pools (binary32); A: in the matrix dtype (binary64 / binary16
                                                  neighbours, qry/api), and on real Jaccard ratios (db: threshold = the binary32
                                                  distance, its neighbours, the exact ratio rounded to binary64)
    all distance vectors ........................ 1..8 genomes, ties; A: long-vectors / long-vectors-query (200..3000, minimum at
                                                  0 / 999 / 1000 / 1001 / end), database-dirs>1000-genomes (real chunking, 2nd chunk)
    every reference database .................... was: transient ORM objects only.  A: database-dirs (sqlite + HDF5 written, loaded with
                                                  ReferenceDatabase.load_from_dir: persisted Taxon.parent, report column default,
                                                  thresholds through the REAL column, distances from real signatures)
    every query ................................. 1..4 rows; A: 20..60 rows, the same query twice, empty query signature (db)
    the database as it is AT THE TIME OF THE
    QUERY (edit sequences on live objects) ...... was: every database was built once, classified and thrown away; no object was ever
                                                  classified again after a change.  A: edit -- edit-sequences-transient / -session / -file:
                                                  the SAME ORM objects (transient; persistent in the session that created them on an
                                                  in-memory database; loaded from a database file through gambit.db.sqla.file_sessionmaker(
                                                  readonly=False), all taxa preloaded or loaded on demand) go through 2..6 rounds of
                                                  [walk helpers called: ancestors / lineage / root / depth / descendants / leaves /
                                                  has_genome / lca / reportable_taxon ...] -> [0..3 curator edits] -> [classification of
                                                  1..3 distance vectors, judged against the harness's table as it is THEN].  Edits:
                                                  re-parent a taxon at any level (other branch / to a root / a root under another tree;
                                                  via .parent, via parent.children.remove/append, via parent_id + flush + refresh /
                                                  expire_all / commit), set / change / remove a threshold, flip a report flag, insert a
                                                  new taxon between two levels (or above a root), add a leaf / a root, move a genome
                                                  (.taxon, taxon.genomes.append, taxon_id + expire), delete a leaf taxon, and the session
                                                  operations flush / commit / expire_all / rollback (the table returns to the last commit)
  observe at / entry points
    get_result_item ............................. cls, chain; A: edit (call form item)
    gambit.query.query(...).items[i] ............ was: only 5 CSV columns of it (csv).  A: qry (items + all 10 columns), db, edit (call form
                                                  query: a real ReferenceDatabase object over the live session in the session / file modes)
      call forms: params object / keywords / defaults, chunksize None,1,2,3,1000, report_closest 0..50, numpy.int64
      parameters, inputs= none / str / QueryInput, genomes as list / tuple, second call on the same objects ... A: qry, db
      one query() per signature; query_parse on FASTA files ...................................................... A: db
    gambit.classify.classify directly (strict omitted / strict=False), distances as list / tuple / ndarray,
      matching_taxon, GenomeMatch(genome, d).matched_taxon default, GenomeMatch.next_taxon, with the distance as
      Python float / numpy.float64 / array scalar; thresholds held as Python int ................................ A: api
    distance dtype / layout: binary32 C-contiguous was the only one.  A: big-endian binary32, binary64, binary16; Fortran
      order, strided view with decoys, negative stride, read-only (api, qry).  binary64/binary16 are outside what
      jaccarddist_matrix produces; they are judged by the same oracle (numbers are exact on the wire)
    CSV columns predicted.* next.* closest.* .... was: predicted.name, next.name, closest.description, closest.distance.
                                                  A: + rank, ncbi_id (None / 0 / 2^40), threshold, names with , " LF CRLF
                                                  TAB NBSP non-ASCII, duplicate names (qry, db).  A lone CR in a name is kept out:
                                                  known finding C11-csv-lone-cr (csv writer, not this property)
    gambit query command ........................ was: not driven.  A: db -- default output, --no-strict -f csv, -f json
                                                  (predicted_taxon / next_taxon keys), FASTA arguments (-c 1)
  not covered: edits made by ANOTHER process / session to the file behind already loaded objects, raw SQL that bypasses the ORM,
  cyclic parent assignments, adding or removing reference genomes of a loaded database (ASSUMPTIONS);
  NaN / infinite / negative distances (ASSUMPTIONS); -f archive (C11); which signature belongs to which genome
  (C04); labels of the rows (C08); closest_genomes list (C09); strict mode (C10)."""
import csv
import io
import itertools
import math
import struct
from fractions import Fraction

PROP = 'C03'
RULE = ('cls: forest (parent table, optional thresholds, report flags) + genomes on arbitrary taxa + float32 '
        'distance vector -> get_result_item; chain: one lineage x several distances (each classified separately, '
        'then the monotonicity predicate across the distances); csv: query() + CSV export of several queries; '
        'cmp: float32 distance vs float64 threshold comparison; api: classify() / matching_taxon / GenomeMatch called '
        'directly with every distance container (list, tuple, ndarray of 4 dtypes x 5 memory layouts) x genome container x '
        'strict spelling x scalar type; qry: query() on a supplied matrix (dtypes, layouts, call forms, odd names, ties, '
        '1..60 rows, up to 1200 genomes) judged on items[i] and on all predicted.*/closest.*/next.* CSV columns; db: a '
        'database directory written by the harness (sqlite + HDF5, thresholds on/next to the real Jaccard distances), '
        'loaded and queried through query()/query_parse() and the gambit query command (csv, --no-strict, json, FASTA); '
        'edit: EDIT SEQUENCES on live ORM objects (transient / persistent in their creating session / loaded from a database '
        'file with a writable session): rounds of [taxonomy walk helpers, not judged] -> [curator edits through the ORM: '
        're-parent at any level via .parent / children.remove+append / parent_id+refresh|expire|commit, threshold set / '
        'changed / removed, report flag flipped, taxon inserted between two levels, leaf or root added, genome moved, leaf '
        'deleted, flush / commit / expire_all / rollback] -> [classify / get_result_item / query() / matching_taxon + '
        'GenomeMatch on the SAME objects], every classification judged by the same oracle on the lineages of the '
        'harness\'s own table as it is at that moment (at most one violation is reported per sequence).  '
        'non-trivial: the closest genome\'s lineage has >= 2 taxa of which at least one carries a threshold '
        '(cls/chain/csv/api/qry/db); edit: the same, at a classification that follows at least one edit; cmp: the pair is within 2 float32 ulps')
TRUSTED = ['harness/c03.py: construction of transient gambit.db.models objects from the parent table, derivation of '
           'lineages from the same table, exact float -> scaled-integer conversion (fractions.Fraction)',
           'NumPy: np.argmin returns an index of a minimum; float32 scalar <= Python float (modelled as exact; '
           'sampled by kind cmp against Flocq)',
           'SQLAlchemy: in-memory relationship Taxon.parent on transient objects behaves like the persisted one (kind db runs '
           'the same oracle on persisted objects loaded from a database file)',
           'kind db: the harness\'s own Jaccard distance (|A^B| / |AuB|, one binary32 division) is the distance the property '
           'speaks about (that the implementation computes it is C02/C04/C05); FASTA files are used only when the '
           'implementation\'s own signature of the file equals the intended one',
           'Python csv / json readers used to read the exported files back',
           'kind edit: the harness applies each edit to its own parent table and, through SQLAlchemy (attribute assignment, '
           'backref collections, foreign-key column followed by flush + refresh / expire_all / commit, Session.delete, '
           'Session.rollback = return to the last commit), to the objects; that the two agree is re-checked after every round by '
           'reading the objects back through .taxon / .parent / .distance_threshold / .report only (a disagreement is '
           'reported as a broken correspondence, never as a property violation).  The session is flushed before each '
           're-parent / insert / delete so that one flush holds at most one change of the tree (SQLAlchemy refuses e.g. a '
           'parent and its child swapping places within a single flush); scratch sqlite files run with synchronous=OFF']
ASSUMPTIONS = ['distances and thresholds are finite (no NaN/inf); taxon ids are unique; the taxonomy is a forest',
               'the property speaks about the database AS IT IS AT THE TIME OF THE QUERY: the lineage of a genome is what '
               'genome.taxon and the chain of Taxon.parent say at that moment, thresholds and report flags are the current attribute '
               'values -- also for objects that were classified before and edited since (kind edit).  Edits are those made through '
               'the ORM objects / their session in the same process; a change made to the database file by another process or by '
               'raw SQL behind loaded objects, an edit that makes the parent relation cyclic, and adding or removing reference '
               'genomes of a loaded ReferenceDatabase are outside',
               'NumPy 1.x legacy promotion (float32 scalar vs Python float compared in binary64); under NumPy>=2 '
               '(NEP 50) the threshold would be rounded to float32 first and kind cmp would report it',
               'the repaired GenomeMatch.next_taxon (repo_fixes/C03.diff) is the algorithm the theorems are about; '
               'the walk as found is kept as classify_orig with C03_next_orig_refuted']
CORRESPONDENCES = ['cls', 'chain', 'csv', 'cmp', 'api', 'qry', 'db', 'edit']

ERR = {1: 'ValueError', 2: 'IndexError', 3: 'AttributeError', 4: 'OutOfFuel'}


def setup(ctx):
	from vf import impl
	impl.check_import()


# ---- numbers -------------------------------------------------------------------------------------
def f32(x):
	"""nearest binary32 value, as a Python float"""
	return struct.unpack('<f', struct.pack('<f', x))[0]


def f32_bits(x):
	return struct.unpack('<I', struct.pack('<f', x))[0]


def f32_from_bits(b):
	return struct.unpack('<f', struct.pack('<I', b))[0]


def f64_bits(x):
	return struct.unpack('<Q', struct.pack('<d', x))[0]


def f32_step(x, n):
	"""the binary32 value n ulps away from the (non-negative) binary32 value x"""
	b = f32_bits(x) + n
	return f32_from_bits(max(0, min(b, 0x7f7fffff)))


def dyadic(x):
	"""finite float -> (m, e) with x == m * 2**e exactly"""
	fr = Fraction(x)
	n, d = fr.numerator, fr.denominator
	return n, -(d.bit_length() - 1)


def scaler(values):
	"""common scaling of all numbers of a case: float -> wire number (m s) = m * 2^s, s >= 0"""
	k = 0
	for v in values:
		if v is not None:
			k = max(k, -dyadic(v)[1])

	def num(x):
		m, e = dyadic(x)
		return [m, e + k]
	return num


# ---- forests -------------------------------------------------------------------------------------
def validate(case):
	taxa, genomes, dists = case['taxa'], case['genomes'], case['dists']
	for i, t in enumerate(taxa):
		if not (isinstance(t, list) and len(t) == 3):
			raise ValueError('taxon entry')
		p = t[0]
		if not (isinstance(p, int) and -1 <= p < i):
			raise ValueError('parent must precede child')
	for g in genomes:
		if g is not None and not (isinstance(g, int) and 0 <= g < len(taxa)):
			raise ValueError('genome taxon')
	for d in dists:
		if not isinstance(d, (int, float)) or d != d or d in (float('inf'), float('-inf')) or f32(d) != d:
			raise ValueError('distance must be a finite binary32 value')


def lineage_ix(taxa, g):
	"""indices of the taxon g and its ancestors, from the parent table"""
	out = []
	while g is not None and g >= 0:
		out.append(g)
		g = taxa[g][0]
	return out


def wire_genomes(taxa, genomes, num):
	def tx(i):
		p, thr, rep = taxa[i]
		return [i + 1, [] if thr is None else [num(thr)], 1 if rep else 0]
	return [[tx(i) for i in lineage_ix(taxa, g)] for g in genomes]


def build_orm(taxa, genomes):
	from gambit.db.models import Taxon, Genome, AnnotatedGenome
	objs = []
	for i, (p, thr, rep) in enumerate(taxa):
		t = Taxon(id=i + 1, key=f't{i + 1}', name=f't{i + 1}', rank=None, distance_threshold=thr, report=bool(rep))
		if p >= 0:
			t.parent = objs[p]
		objs.append(t)
	gs = []
	for j, g in enumerate(genomes):
		ag = AnnotatedGenome(genome=Genome(id=j + 1, key=f'g{j}', description=f'g{j}'))
		if g is not None:
			ag.taxon = objs[g]
		gs.append(ag)
	return objs, gs


def _ix(lst, obj):
	for i, x in enumerate(lst):
		if x is obj:
			return i
	return -1


def impl_item(gs, dists):
	"""run get_result_item -> observation dict or error name"""
	import numpy as np
	from types import SimpleNamespace
	from gambit.query import get_result_item, QueryParams, QueryInput
	db = SimpleNamespace(genomes=gs)
	try:
		item = get_result_item(db, QueryParams(), np.asarray(dists, dtype=np.float32), QueryInput('q'))
	except (ValueError, IndexError, AttributeError, TypeError) as e:
		return type(e).__name__
	cr = item.classifier_result
	tid = lambda t: None if t is None else t.id
	return dict(closest=_ix(gs, cr.closest_match.genome), dist=float(cr.closest_match.distance),
	            predicted=tid(cr.predicted_taxon),
	            primary=None if cr.primary_match is None else _ix(gs, cr.primary_match.genome),
	            next=tid(cr.next_taxon), report=tid(item.report_taxon))


def opt(x):
	return [] if x is None else [x]


def unopt(v):
	return v[0] if v else None


def model_obs(ans):
	"""(0 (closest pred primary next report)) -> dict | error name"""
	if ans[0] != 0:
		return ERR.get(ans[1], f'err{ans[1]}')
	c, p, pr, n, r = ans[1]
	return dict(closest=c, predicted=unopt(p), primary=unopt(pr), next=unopt(n), report=unopt(r))


def diff_fields(o, m):
	return [k for k in ('closest', 'predicted', 'primary', 'next', 'report') if o.get(k) != m.get(k)]


def judge(ctx, kind, case, label, taxa, genomes, dists, o, a_fixed, a_orig, a_check):
	"""o: implementation observation; a_*: model answers.  Returns True when the property held."""
	m = model_obs(a_fixed)
	mo = model_obs(a_orig)
	if len(dists) != len(genomes) or not dists or any(g is None for g in genomes):
		# outside the property's domain (one distance per reference genome, every genome has a taxon):
		# the property says nothing about which error is raised, or whether one is
		ctx.count('malformed-evaluated')
		return True
	if isinstance(o, str):
		if isinstance(m, str):
			return True   # both refuse (malformed input); the property says nothing about which error
		ctx.violation(kind, case, f'{label}: get_result_item raised {o}; the property requires a result', impl=o, model=m, spec=m)
		return False
	if isinstance(m, str):
		return True       # malformed input on which the implementation happens to answer
	if a_check == 1:
		return True
	# describe what is wrong
	if 0 <= o['closest'] < len(dists) and o['dist'] != dists[o['closest']] and dists[o['closest']] <= min(dists):
		what = (f'{label}: closest match is genome #{o["closest"]}, reported at distance {o["dist"]!r}; the distance to that genome is '
		        f'{dists[o["closest"]]!r}')
	elif o['closest'] < 0 or o['closest'] >= len(dists) or o['dist'] != dists[o['closest']] or o['dist'] > min(dists):
		what = (f'{label}: closest match is genome #{o["closest"]} at {o["dist"]!r}, the minimum distance is {min(dists)!r} '
		        f'(first at #{dists.index(min(dists))})')
	else:
		exp = None
		if o['closest'] == m['closest']:
			exp = m
		what = f'{label}: for closest genome #{o["closest"]} (lineage ids {[i + 1 for i in lineage_ix(taxa, genomes[o["closest"]])]}, ' \
		       f'thresholds {[taxa[i][1] for i in lineage_ix(taxa, genomes[o["closest"]])]}) at distance {o["dist"]!r} the implementation reports ' \
		       f'predicted={o["predicted"]} primary={o["primary"]} next={o["next"]} report={o["report"]}'
		if exp is not None:
			what += f'; the rule gives predicted={exp["predicted"]} primary={exp["primary"]} next={exp["next"]} report={exp["report"]} ' \
			        f'(differs in {diff_fields(o, exp)})'
		if not isinstance(mo, str) and not diff_fields(o, mo):
			what += ' [this is the behaviour of the unrepaired GenomeMatch.next_taxon, DESIGN.md 6-a: the genome\'s own taxon is ' \
			        'reported as "next" although it carries no threshold]'
	ctx.violation(kind, case, what, impl=o, spec=m, model=m, model_unrepaired=mo)
	return False


# ---- kind cls ------------------------------------------------------------------------------------
def k_cls(ctx, cases):
	prepared = []
	reqs = []
	for case in cases:
		validate(case)
		taxa, genomes, dists = case['taxa'], case['genomes'], case['dists']
		objs, gs = build_orm(taxa, genomes)
		o = impl_item(gs, dists)
		num = scaler([t[1] for t in taxa] + list(dists))
		wg = wire_genomes(taxa, genomes, num)
		wd = [num(d) for d in dists]
		reqs.append((301, [wg, wd]))
		reqs.append((302, [wg, wd]))
		if isinstance(o, str) or o['closest'] < 0:
			wo = [0, [0, 0], [], [], [], []]
		else:
			wo = [o['closest'], num(o['dist']), opt(o['predicted']), opt(o['primary']), opt(o['next']), opt(o['report'])]
		reqs.append((303, [wg, wd, wo]))
		prepared.append((case, o))
	ans = ctx.model(reqs)
	for i, (case, o) in enumerate(prepared):
		taxa, genomes, dists = case['taxa'], case['genomes'], case['dists']
		nontriv = False
		if not isinstance(o, str) and 0 <= o['closest'] < len(genomes):
			lin = lineage_ix(taxa, genomes[o['closest']])
			nontriv = len(lin) >= 2 and any(taxa[j][1] is not None for j in lin)
		ctx.case(case, nontrivial=nontriv)
		judge(ctx, 'cls', case, 'classify', taxa, genomes, dists, o, ans[3 * i], ans[3 * i + 1], ans[3 * i + 2])


# ---- kind chain ----------------------------------------------------------------------------------
def k_chain(ctx, cases):
	"""case: lineage = [[thr, report], ...] own taxon first; dists: binary32 values.  One genome on the own taxon."""
	prepared = []
	reqs = []
	for case in cases:
		lin, dists = case['lineage'], case['dists']
		n = len(lin)
		if n == 0 or any(not (isinstance(t, list) and len(t) == 2) for t in lin):
			raise ValueError('lineage')
		# parent table: root first
		taxa = [[i - 1, lin[n - 1 - i][0], lin[n - 1 - i][1]] for i in range(n)]
		validate(dict(taxa=taxa, genomes=[n - 1], dists=dists))
		objs, gs = build_orm(taxa, [n - 1])
		num = scaler([t[1] for t in taxa] + list(dists))
		wg = wire_genomes(taxa, [n - 1], num)
		obs = []
		for d in dists:
			o = impl_item(gs, [d])
			obs.append(o)
			wd = [num(d)]
			reqs.append((301, [wg, wd]))
			reqs.append((302, [wg, wd]))
			wo = [0, [0, 0], [], [], [], []] if isinstance(o, str) else \
				[o['closest'], num(o['dist']), opt(o['predicted']), opt(o['primary']), opt(o['next']), opt(o['report'])]
			reqs.append((303, [wg, wd, wo]))
		prepared.append((case, taxa, obs))
	ans = ctx.model(reqs)
	pos = 0
	for case, taxa, obs in prepared:
		dists = case['dists']
		n = len(taxa)
		ctx.case(case, nontrivial=n >= 2 and any(t[1] is not None for t in taxa))
		ok = True
		for d, o in zip(dists, obs):
			ok &= judge(ctx, 'chain', case, f'distance {d!r}', taxa, [n - 1], [d], o, ans[pos], ans[pos + 1], ans[pos + 2])
			pos += 3
		if not ok or any(isinstance(o, str) for o in obs):
			continue
		# monotonicity on the implementation's own answers: height above the genome's own taxon
		# (own taxon id = n, root id = 1; no prediction = n)
		height = lambda t: n if t is None else n - t
		order = sorted(range(len(dists)), key=lambda j: dists[j])
		for a, b in zip(order, order[1:]):
			for field in ('predicted', 'report'):
				if height(obs[b][field]) < height(obs[a][field]):
					ctx.violation('chain', case,
					              f'{field} taxon became more specific when the distance grew from {dists[a]!r} to {dists[b]!r}: '
					              f'{obs[a][field]} -> {obs[b][field]} (thresholds own-first {[t[0] for t in case["lineage"]]})',
					              impl=[obs[a], obs[b]], spec='height must not decrease')


# ---- kind csv ------------------------------------------------------------------------------------
def k_csv(ctx, cases):
	"""case: taxa, genomes, rows = list of distance vectors (unique minimum each).  query() with the distance
	matrix supplied by the harness, exported with CSVResultsExporter, columns read back."""
	import numpy as np
	from types import SimpleNamespace
	import gambit.query as gq
	from gambit.results import CSVResultsExporter
	if not hasattr(gq, 'jaccarddist_matrix'):
		ctx.count('stream:csv-skipped(no gambit.query.jaccarddist_matrix)', len(cases))
		return
	reqs = []
	outs = []
	for case in cases:
		taxa, genomes, rows = case['taxa'], case['genomes'], case['rows']
		for r in rows:
			validate(dict(taxa=taxa, genomes=genomes, dists=r))
			srt = sorted(r)
			if len(srt) > 1 and srt[0] == srt[1]:
				raise ValueError('csv cases need a unique minimum')
		objs, gs = build_orm(taxa, genomes)
		db = SimpleNamespace(genomes=gs, genomeset=None, signatures=SimpleNamespace(meta=None), sig_indices=None)
		mat = np.asarray(rows, dtype=np.float32)
		saved = gq.jaccarddist_matrix
		gq.jaccarddist_matrix = lambda *a, **k: mat
		try:
			try:
				res = gq.query(db, [None] * len(rows))
				buf = io.StringIO()
				CSVResultsExporter().export(buf, res)
				table = list(csv.reader(io.StringIO(buf.getvalue())))
			except (ValueError, IndexError, AttributeError, TypeError, KeyError) as e:
				table = type(e).__name__
		finally:
			gq.jaccarddist_matrix = saved
		outs.append(table)
		num = scaler([t[1] for t in taxa] + [d for r in rows for d in r])
		wg = wire_genomes(taxa, genomes, num)
		for r in rows:
			reqs.append((301, [wg, [num(d) for d in r]]))
	ans = ctx.model(reqs)
	pos = 0
	for case, table in zip(cases, outs):
		taxa, genomes, rows = case['taxa'], case['genomes'], case['rows']
		ms = [model_obs(a) for a in ans[pos:pos + len(rows)]]
		pos += len(rows)
		nontriv = False
		for m in ms:
			if not isinstance(m, str):
				lin = lineage_ix(taxa, genomes[m['closest']])
				nontriv |= len(lin) >= 2 and any(taxa[j][1] is not None for j in lin)
		ctx.case(case, nontrivial=nontriv)
		if any(isinstance(m, str) for m in ms):
			continue
		if isinstance(table, str):
			ctx.violation('csv', case, f'query()/CSV export raised {table}', impl=table, spec=ms, model=ms)
			continue
		name = lambda t: '' if t is None else f't{t}'
		exp = [[str(q + 1), name(m['report']), f'g{m["closest"]}', name(m['next']), f32_bits(rows[q][m['closest']])]
		       for q, m in enumerate(ms)]
		got = None
		try:
			hdr = table[0]
			col = {h: hdr.index(h) for h in ('query', 'predicted.name', 'closest.description', 'next.name', 'closest.distance')}
			got = [[r[col['query']], r[col['predicted.name']], r[col['closest.description']], r[col['next.name']],
			        f32_bits(float(r[col['closest.distance']]))] for r in table[1:]]
		except (ValueError, IndexError, OverflowError, struct.error):
			pass
		if got != exp:
			bad = None if got is None or len(got) != len(exp) else [q for q in range(len(exp)) if got[q] != exp[q]]
			ctx.violation('csv', case,
			              f'CSV rows (query, predicted.name, closest.description, next.name, closest.distance bits) differ from the rule'
			              + (f' in row(s) {bad}: got {[got[q] for q in bad][:2]} expected {[exp[q] for q in bad][:2]}' if bad else ''),
			              impl=got if got is not None else table, spec=exp, model=exp)


# ---- kind cmp ------------------------------------------------------------------------------------
def k_cmp(ctx, cases):
	"""case: d_bits (binary32), t_bits (binary64).  The code's own comparison (matching_taxon on a single taxon)
	vs Flocq vs the scaled integers the other kinds send."""
	import numpy as np
	from gambit.classify import matching_taxon
	from gambit.db.models import Taxon
	reqs = []
	for c in cases:
		d = f32_from_bits(c['d_bits'])
		t = struct.unpack('<d', struct.pack('<Q', c['t_bits']))[0]
		num = scaler([d, t])
		reqs += [(304, [c['d_bits'], c['t_bits']]), (306, [num(d), num(t)])]
	ans = ctx.model(reqs)
	for i, c in enumerate(cases):
		d = f32_from_bits(c['d_bits'])
		t = struct.unpack('<d', struct.pack('<Q', c['t_bits']))[0]
		tx = Taxon(id=1, name='t', distance_threshold=t, report=True)
		got = matching_taxon(tx, np.float32(d)) is not None
		flocq = ans[2 * i] == 1
		ints = ans[2 * i + 1][0] == 1
		exact = Fraction(d) <= Fraction(t)
		ctx.case(c, nontrivial=abs(f32_bits(f32(t)) - c['d_bits']) <= 2 if t >= 0 and d >= 0 else False)
		if flocq != ints or ints != exact:
			ctx.broke('number encoding (Flocq bits vs scaled integers vs fractions.Fraction)',
			          f'd_bits={c["d_bits"]} t_bits={c["t_bits"]}: flocq={flocq} scaled={ints} fraction={exact}')
		elif got != exact:
			ctx.violation('cmp', c, f'distance {d!r} (binary32) vs threshold {t!r}: the code treats "threshold >= distance" as {got}, '
			              f'exactly it is {exact}', impl=got, spec=exact, model=flocq)


# ==================================================================================================
# audit kinds: api (direct call forms), qry (query() on a supplied matrix: items + every CSV column),
# db (a real database directory: persisted ORM objects, real distances, Python API and command line)
# ==================================================================================================
DTYPES = {'f32': '<f4', 'be32': '>f4', 'f64': '<f8', 'f16': '<f2'}
ORDERS = ('c', 'f', 'strided', 'rev', 'ro')


def canon_taxa(taxa):
	"""report flag None (= not given, the column default True applies) -> True"""
	return [[p, thr, True if rep is None else bool(rep)] for p, thr, rep in taxa]


def validate2(taxa, genomes, vectors, dt='f32'):
	"""forest + one finite distance, exactly representable in the dtype, per reference genome"""
	import numpy as np
	for i, t in enumerate(taxa):
		if not (isinstance(t, list) and len(t) == 3):
			raise ValueError('taxon entry')
		if not (isinstance(t[0], int) and -1 <= t[0] < i):
			raise ValueError('parent must precede child')
		if t[1] is not None and (not isinstance(t[1], (int, float)) or t[1] != t[1] or abs(t[1]) == float('inf')):
			raise ValueError('threshold')
	if not genomes:
		raise ValueError('no genomes')
	for g in genomes:
		if not (isinstance(g, int) and 0 <= g < len(taxa)):
			raise ValueError('genome taxon')
	if dt not in DTYPES:
		raise ValueError('dtype')
	for v in vectors:
		if len(v) != len(genomes):
			raise ValueError('one distance per reference genome')
		for d in v:
			if not isinstance(d, (int, float)) or d != d or abs(d) == float('inf') or d < 0 \
					or float(np.array(d, dtype=DTYPES[dt])) != d:
				raise ValueError('distance must be a finite non-negative value of the dtype')


def make_matrix(rows, layout):
	"""rows -> 2-D ndarray.  layout = '<dtype>:<order>': c (C contiguous), f (Fortran order: rows are strided),
	strided (every second column of a wider matrix whose other columns hold 0.0 decoys), rev (negative stride),
	ro (read-only)"""
	import numpy as np
	dt, order = layout.split(':')
	if order not in ORDERS:
		raise ValueError('layout')
	a = np.asarray(rows, dtype=np.dtype(DTYPES[dt]))
	if a.ndim != 2:
		raise ValueError('matrix')
	if order == 'f':
		a = np.asfortranarray(a)
	elif order == 'strided':
		w = np.zeros((a.shape[0], 2 * a.shape[1] + 1), dtype=a.dtype)
		w[:, 1::2] = a
		a = w[:, 1::2]
	elif order == 'rev':
		a = np.ascontiguousarray(a[:, ::-1])[:, ::-1]
	elif order == 'ro':
		a.flags.writeable = False
	return a


def obs_of(cr, report, gix, tid):
	"""ClassifierResult + user-facing taxon -> (observation dict, side findings).  gix: AnnotatedGenome -> index in
	the reference list (-1 unknown); tid: Taxon -> id.  Side findings are failures of "the primary match is the
	closest match" beyond the genome (distance of the primary match)."""
	t = lambda x: None if x is None else tid(x)
	cm, pm = cr.closest_match, cr.primary_match
	o = dict(closest=gix(cm.genome), dist=float(cm.distance), predicted=t(cr.predicted_taxon),
	         primary=None if pm is None else gix(pm.genome), next=t(cr.next_taxon), report=t(report))
	side = []
	if pm is not None and float(pm.distance) != float(cm.distance):
		side.append(f'primary match distance {float(pm.distance)!r} differs from the closest match distance {float(cm.distance)!r}')
	return o, side


class Plan:
	"""collects model requests of one batch; judgements are made after the single ctx.model call"""

	def __init__(self):
		self.reqs = []
		self.todo = []

	def item(self, ci, label, taxa, genomes, dists, o, side=()):
		"""o: observation (obs_of) or error name, for the whole distance vector"""
		num = scaler([t[1] for t in taxa] + list(dists))
		wg = wire_genomes(taxa, genomes, num)
		wd = [num(d) for d in dists]
		pos = len(self.reqs)
		bad = not isinstance(o, str) and (not (0 <= o['closest'] < len(dists)) or o['dist'] != dists[o['closest']])
		if isinstance(o, str) or bad:
			wo = [0, [0, 0], [], [], [], []]   # not judged by the oracle: judge() describes the closest-match failure
		else:
			wo = [o['closest'], num(o['dist']), opt(o['predicted']), opt(o['primary']), opt(o['next']), opt(o['report'])]
		self.reqs += [(301, [wg, wd]), (302, [wg, wd]), (303, [wg, wd, wo])]
		self.todo.append(('item', ci, pos, label, taxa, genomes, list(dists), o, list(side), bad))

	def row(self, ci, label, taxa, genomes, dists, got, expect):
		"""an exported row.  got: canonical row or an error text; expect(c, m) -> canonical row for the closest
		genome c and the rule's answer m for that genome alone.  Accepted: the row of ANY genome at the minimum"""
		lo = min(dists)
		cands = [j for j, d in enumerate(dists) if d == lo]
		pos = len(self.reqs)
		for c in cands:
			num = scaler([t[1] for t in taxa] + [dists[c]])
			self.reqs.append((301, [wire_genomes(taxa, [genomes[c]], num), [num(dists[c])]]))
		self.todo.append(('row', ci, pos, label, cands, got, expect))

	def run(self, ctx, kind, cases, first_only=False):
		"""first_only: at most one violation per case (a sequence that went wrong once is not judged further)"""
		ans = ctx.model(self.reqs) if self.reqs else []
		n0, failed = len(ctx.violations), -1
		for e in self.todo:
			if first_only:
				if len(ctx.violations) > n0:
					n0, failed = len(ctx.violations), last
				if e[1] == failed:
					continue
			last = e[1]
			if e[0] == 'item':
				_, ci, pos, label, taxa, genomes, dists, o, side, bad = e
				ok = judge(ctx, kind, cases[ci], label, taxa, genomes, dists, o, ans[pos], ans[pos + 1], 0 if bad else ans[pos + 2])
				if ok and side and not isinstance(o, str):
					ctx.violation(kind, cases[ci], f'{label}: ' + '; '.join(side), impl=o, spec='the primary match is the closest match')
			else:
				_, ci, pos, label, cands, got, expect = e
				exp = []
				for n, c in enumerate(cands):
					m = model_obs(ans[pos + n])
					if not isinstance(m, str):
						exp.append(expect(c, m))
				if not exp or got in exp:
					continue
				what = f'{label}: exported row {got!r} is not the row the rule gives for a closest genome ' \
				       f'(genome #{cands[0]}: {exp[0]!r}' + (f'; {len(exp) - 1} more tied genome(s)' if len(exp) > 1 else '') + ')'
				if not isinstance(got, str) and len(got) == len(exp[0]):
					what += f'; differing fields {[i for i in range(len(got)) if got[i] != exp[0][i]]}'
				ctx.violation(kind, cases[ci], what, impl=got, spec=exp, model=exp)


def nontrivial_for(taxa, genomes, vectors):
	for v in vectors:
		if v and len(v) == len(genomes):
			lin = lineage_ix(taxa, genomes[v.index(min(v))])
			if len(lin) >= 2 and any(taxa[j][1] is not None for j in lin):
				return True
	return False


# ---- kind api ------------------------------------------------------------------------------------
def k_api(ctx, cases):
	"""case: taxa, genomes, dists, cont ('list' | 'tuple' | '<dtype>:<order>'), gcont ('list' | 'tuple'),
	strict ('omit' | 'false'), scalar ('py' | 'np64' | 'same').  gambit.classify.classify called directly
	(+ gambit.db.reportable_taxon), then matching_taxon / GenomeMatch(genome, distance) [default matched_taxon]
	/ GenomeMatch.next_taxon on the closest genome with the distance passed as the given scalar type."""
	import numpy as np
	import gambit.db
	from gambit.classify import classify, matching_taxon, GenomeMatch
	plan = Plan()
	for ci, case in enumerate(cases):
		taxa, genomes, dists = case['taxa'], case['genomes'], case['dists']
		cont = case['cont']
		dt = cont.split(':')[0] if ':' in cont else 'f64'
		validate2(taxa, genomes, [dists], dt)
		if cont not in ('list', 'tuple') and cont.split(':')[1] not in ORDERS:
			raise ValueError('cont')
		objs, gs = build_orm(taxa, genomes)
		if cont == 'list':
			arr = [float(d) for d in dists]
		elif cont == 'tuple':
			arr = tuple(float(d) for d in dists)
		else:
			arr = make_matrix([dists, [0.0] * len(dists)], cont)[0]
		gsc = tuple(gs) if case['gcont'] == 'tuple' else list(gs)
		tid = lambda t: t.id
		gix = lambda g: _ix(gs, g)
		ctx.case(case, nontrivial=nontrivial_for(taxa, genomes, [dists]))
		try:
			cr = classify(gsc, arr) if case['strict'] == 'omit' else classify(gsc, arr, strict=False)
			o, side = obs_of(cr, gambit.db.reportable_taxon(cr.predicted_taxon), gix, tid)
		except Exception as e:
			o, side = type(e).__name__, []
		plan.item(ci, f'classify({case["gcont"]} of genomes, {cont} distances, strict {case["strict"]})', taxa, genomes, dists, o, side)
		if isinstance(o, str) or not (0 <= o['closest'] < len(dists)):
			continue
		c = o['closest']
		d = dists[c]
		sc = case['scalar']
		dd = float(d) if sc == 'py' else np.float64(d) if sc == 'np64' else arr[c]
		try:
			gm = GenomeMatch(gs[c], dd)
			mt = matching_taxon(gs[c].taxon, dd)
			o2 = dict(closest=0, dist=float(gm.distance), predicted=None if mt is None else mt.id,
			          primary=0 if mt is not None else None,
			          next=(lambda t: None if t is None else t.id)(gm.next_taxon()),
			          report=(lambda t: None if t is None else t.id)(gambit.db.reportable_taxon(gm.matched_taxon)))
			side2 = [] if gm.matched_taxon is mt else ['GenomeMatch(genome, distance).matched_taxon differs from matching_taxon(genome.taxon, distance)']
		except Exception as e:
			o2, side2 = type(e).__name__, []
		plan.item(ci, f'matching_taxon / GenomeMatch(genome #{c}, {type(dd).__name__} distance)', taxa, [genomes[c]], [d], o2, side2)
	plan.run(ctx, 'api', cases)


# ---- kind qry ------------------------------------------------------------------------------------
CSV_COLS = ['predicted.name', 'predicted.rank', 'predicted.ncbi_id', 'predicted.threshold', 'closest.distance',
            'closest.description', 'next.name', 'next.rank', 'next.ncbi_id', 'next.threshold']


def csv_rows(text, dt):
	"""CSV text -> canonical rows [[name, rank, ncbi, thr, dist, descr, name, rank, ncbi, thr], ...] (thresholds and the
	distance as floats, the distance rounded to the matrix dtype; '' = empty cell) or an error text"""
	import numpy as np
	try:
		table = list(csv.reader(io.StringIO(text, newline='')))
		hdr = table[0]
		col = [hdr.index(h) for h in CSV_COLS]
		out = []
		for r in table[1:]:
			v = [r[c] for c in col]
			for i in (3, 9):
				v[i] = '' if v[i] == '' else float(v[i])
			v[4] = float(np.array(float(v[4]), dtype=DTYPES[dt]))
			out.append(v)
		return out
	except (ValueError, IndexError, OverflowError) as e:
		return f'unreadable CSV ({type(e).__name__}: {e})'


def csv_expect(taxa, tmeta, gdesc, dists):
	"""-> expect(c, m) for Plan.row"""
	def tx(t):
		if t is None:
			return ['', '', '', '']
		name, rank, ncbi = tmeta[t - 1]
		thr = taxa[t - 1][1]
		return [name, '' if rank is None else rank, '' if ncbi is None else str(ncbi), '' if thr is None else float(thr)]

	def expect(c, m):
		return tx(m['report']) + [float(dists[c]), gdesc[c]] + tx(m['next'])
	return expect


def build_orm_meta(taxa, genomes, tmeta, gdesc):
	objs, gs = build_orm(taxa, genomes)
	for t, (name, rank, ncbi) in zip(objs, tmeta):
		t.name, t.rank, t.ncbi_id = name, rank, ncbi
	for g, d in zip(gs, gdesc):
		g.genome.description = d
	return objs, gs


def check_meta(taxa, genomes, tmeta, gdesc):
	if len(tmeta) != len(taxa) or len(gdesc) != len(genomes) or len(set(gdesc)) != len(gdesc):
		raise ValueError('tmeta / gdesc')
	for name, rank, ncbi in tmeta:
		if not isinstance(name, str) or not name or not (rank is None or (isinstance(rank, str) and rank)) \
				or not (ncbi is None or isinstance(ncbi, int)):
			raise ValueError('tmeta entry')


def k_qry(ctx, cases):
	"""case: taxa, genomes, tmeta [[name, rank, ncbi_id]...], gdesc [descriptions, distinct], rows (distance vectors,
	ties allowed), layout '<dtype>:<order>', call ('default' | 'params' | 'kw'), chunksize, report_closest, npint (pass
	them as numpy.int64), inputs ('none' | 'str' | 'obj'), gcont, twice.  gambit.query.query with the distance matrix supplied by the
	harness; judged on items[i].classifier_result / report_taxon and on every predicted.* / closest.* / next.*
	CSV column."""
	from types import SimpleNamespace
	import warnings
	import gambit.query as gq
	from gambit.results import CSVResultsExporter
	if not hasattr(gq, 'jaccarddist_matrix'):
		ctx.count('stream:qry-skipped(no gambit.query.jaccarddist_matrix)', len(cases))
		return
	plan = Plan()
	for ci, case in enumerate(cases):
		taxa, genomes, rows, layout = case['taxa'], case['genomes'], case['rows'], case['layout']
		dt = layout.split(':')[0]
		validate2(taxa, genomes, rows, dt)
		if not rows:
			raise ValueError('no queries')
		check_meta(taxa, genomes, case['tmeta'], case['gdesc'])
		objs, gs = build_orm_meta(taxa, genomes, case['tmeta'], case['gdesc'])
		db = SimpleNamespace(genomes=tuple(gs) if case['gcont'] == 'tuple' else gs, genomeset=None,
		                     signatures=SimpleNamespace(meta=None), sig_indices=None)
		mat = make_matrix(rows, layout)
		par = dict(classify_strict=False, chunksize=case['chunksize'], report_closest=case['report_closest'])
		if case.get('npint'):
			import numpy as np
			par = {k: v if v is None or isinstance(v, bool) else np.int64(v) for k, v in par.items()}
		labels = [f'query {q}' for q in range(len(rows))]
		kw = {}
		if case['inputs'] == 'str':
			kw['inputs'] = labels
		elif case['inputs'] == 'obj':
			kw['inputs'] = [gq.QueryInput(l) for l in labels]
		ctx.case(case, nontrivial=nontrivial_for(taxa, genomes, rows))
		expect = [csv_expect(taxa, case['tmeta'], case['gdesc'], r) for r in rows]
		saved = gq.jaccarddist_matrix
		gq.jaccarddist_matrix = lambda *a, **k: mat
		try:
			for rep in range(2 if case['twice'] else 1):
				tag = f'query() [{case["call"]}, {layout}' + (', second call on the same objects]' if rep else ']')
				try:
					with warnings.catch_warnings():
						warnings.simplefilter('ignore')
						if case['call'] == 'params':
							res = gq.query(db, [None] * len(rows), gq.QueryParams(**par), **kw)
						elif case['call'] == 'kw':
							res = gq.query(db, [None] * len(rows), **par, **kw)
						else:
							res = gq.query(db, [None] * len(rows), **kw)
					items = list(res.items)
					buf = io.StringIO()
					CSVResultsExporter().export(buf, res)
					table = csv_rows(buf.getvalue(), dt)
				except Exception as e:
					items, table = type(e).__name__, None
				for q, r in enumerate(rows):
					if isinstance(items, str) or q >= len(items):
						o, side = (items if isinstance(items, str) else 'MissingItem'), []
					else:
						try:
							o, side = obs_of(items[q].classifier_result, items[q].report_taxon, lambda g: _ix(gs, g), lambda t: t.id)
						except Exception as e:
							o, side = type(e).__name__, []
					plan.item(ci, f'{tag} item {q}', taxa, genomes, r, o, side)
					if table is not None:
						got = table if isinstance(table, str) else table[q] if q < len(table) and len(table) == len(rows) else \
							f'{len(table)} CSV rows for {len(rows)} queries'
						plan.row(ci, f'{tag} CSV row {q}', taxa, genomes, r, got, expect[q])
		finally:
			gq.jaccarddist_matrix = saved
	plan.run(ctx, 'qry', cases)


# ---- kind db -------------------------------------------------------------------------------------
NUC = 'ACGT'


def kmer_str(ix, k):
	return ''.join(NUC[(ix >> (2 * (k - 1 - i))) & 3] for i in range(k))


def cg_kmers(k):
	"""indices of the k-mers over {C, G} (most significant nucleotide first, A C G T = 0 1 2 3)"""
	out = []
	for bits in itertools.product((1, 2), repeat=k):
		v = 0
		for b in bits:
			v = v * 4 + b
		out.append(v)
	return out


def jacc32(a, b):
	"""Jaccard distance |A^B| / |AuB| rounded once to binary32 (two empty sets: 0) and the exact ratio rounded to
	binary64"""
	import numpy as np
	a, b = set(a), set(b)
	u = len(a | b)
	if u == 0:
		return 0.0, 0.0
	n = u - len(a & b)
	return float(np.float32(n) / np.float32(u)), n / u


_TEMPLATE = [None]


def _empty_gdb():
	"""bytes of an empty database file with gambit's schema (created once per run)"""
	import os
	from sqlalchemy import create_engine
	from gambit.db import models as M
	from vf import impl as vimpl
	if _TEMPLATE[0] is None:
		d = vimpl.scratch_dir('gambit-verif-c03t-')
		eng = create_engine('sqlite:///' + os.path.join(d, 't.gdb'))
		M.Base.metadata.create_all(eng)
		eng.dispose()
		_TEMPLATE[0] = open(os.path.join(d, 't.gdb'), 'rb').read()
	return _TEMPLATE[0]


def build_db_dir(case, d):
	"""<d>/db.gdb + <d>/db.gs (+ <d>/q/q.gs, <d>/q/q<i>.fasta).  -> query SignatureList"""
	import os
	import numpy as np
	from sqlalchemy import create_engine
	from sqlalchemy.orm import Session
	from gambit.db import models as M
	from gambit.kmers import KmerSpec
	from gambit.sigs import SignatureList, SignaturesMeta, AnnotatedSignatures, dump_signatures
	with open(os.path.join(d, 'db.gdb'), 'wb') as f:
		f.write(_empty_gdb())
	eng = create_engine('sqlite:///' + os.path.join(d, 'db.gdb'))
	s = Session(eng)
	gset = M.ReferenceGenomeSet(key='verif/c03', version='1.0', name='c03')
	s.add(gset)
	tobjs = []
	for i, ((p, thr, rep), (name, rank, ncbi)) in enumerate(zip(case['taxa'], case['tmeta'])):
		kw = {} if rep is None else dict(report=bool(rep))
		tobjs.append(M.Taxon(key=f't{i}', name=name, rank=rank, ncbi_id=ncbi, genome_set=gset, distance_threshold=thr,
		                     parent=tobjs[p] if p >= 0 else None, **kw))
	s.add_all(tobjs)
	for j, (sig, t) in enumerate(case['refs']):
		s.add(M.AnnotatedGenome(genome=M.Genome(key=f'g{j}', description=case['gdesc'][j], refseq_acc=f'ACC{j}'),
		                        genome_set=gset, taxon=tobjs[t]))
	s.commit()
	s.close()
	eng.dispose()
	k = case['k']
	ks = KmerSpec(k, 'AT')
	mk = lambda sets: SignatureList([np.array(sorted(set(x)), dtype=ks.index_dtype) for x in sets], ks)
	dump_signatures(os.path.join(d, 'db.gs'), AnnotatedSignatures(mk([r[0] for r in case['refs']]), [f'ACC{j}' for j in range(len(case['refs']))],
	                                                              SignaturesMeta(id_attr='refseq_acc')), 'hdf5')
	qd = os.path.join(d, 'q')
	os.makedirs(qd)
	qsigs = mk(case['queries'])
	dump_signatures(os.path.join(qd, 'q.gs'), AnnotatedSignatures(qsigs, [f'q{i}' for i in range(len(case['queries']))], SignaturesMeta()), 'hdf5')
	return qsigs


def write_fasta(case, d):
	"""one FASTA file per query: one record 'AT' + k-mer per k-mer of the signature (k-mers over {C, G} only, so the
	record holds no other prefix match on either strand).  -> paths, or None when a signature is not expressible or
	the implementation's own signature of a file differs from the intended one (then the fasta route is skipped:
	signature calculation is not this property's business)"""
	import os
	import numpy as np
	from gambit.kmers import KmerSpec
	from gambit.seq import SequenceFile
	from gambit.sigs.calc import calc_file_signature
	k = case['k']
	ok = set(cg_kmers(k))
	paths = []
	for i, q in enumerate(case['queries']):
		if not set(q) <= ok:
			return None
		p = os.path.join(d, 'q', f'q{i}.fasta')
		with open(p, 'w') as f:
			for n, ix in enumerate(sorted(set(q))):
				f.write(f'>r{n}\nAT{kmer_str(ix, k)}\n')
			if not q:
				f.write('>r0\nCCGGCCGG\n')
		try:
			sig = calc_file_signature(KmerSpec(k, 'AT'), SequenceFile(p, 'fasta'))
			if [int(x) for x in sig] != sorted(set(q)):
				return None
		except Exception:
			return None
		paths.append(p)
	return paths


def check_db_case(case):
	k = case['k']
	if not (isinstance(k, int) and 5 <= k <= 8):
		raise ValueError('k')
	if not case['refs'] or not case['queries']:
		raise ValueError('empty')
	for sig in [r[0] for r in case['refs']] + list(case['queries']):
		if any(not (isinstance(v, int) and 0 <= v < 4 ** k) for v in sig):
			raise ValueError('k-mer index')
	if any(not r[0] for r in case['refs']):
		raise ValueError('empty reference signature')
	genomes = [r[1] for r in case['refs']]
	for t in case['taxa']:
		if not (isinstance(t, list) and len(t) == 3 and t[2] in (None, True, False)):
			raise ValueError('taxon entry')
	if any(a[0] not in ('default', 'params', 'kw', 'single', 'parse') for a in case['api']):
		raise ValueError('api call form')
	return genomes


def k_db(ctx, cases):
	"""case: k, taxa [[parent, threshold, report | None = column default]...], tmeta, gdesc, refs [[k-mer indices, taxon]...],
	queries [k-mer index lists], api [[call, chunksize, report_closest]...] with call default | params | kw | single (one
	query() per signature) | parse (query_parse on FASTA files), cli [mode...] with modes csv, csv-nostrict, json, fasta.  A database directory is written (sqlite + HDF5), loaded with ReferenceDatabase.load_from_dir and
	queried through gambit.query.query and the gambit query command; distances are the harness's own."""
	import json
	import os
	import shutil
	import warnings
	import gambit.cli
	from click.testing import CliRunner
	from vf import impl as vimpl
	from gambit.db import ReferenceDatabase
	from gambit.query import query, query_parse, QueryParams
	from gambit.seq import SequenceFile
	try:
		from gambit._cython.threads import omp_set_num_threads
		omp_set_num_threads(1)
	except Exception:
		pass
	plan = Plan()
	base = vimpl.scratch_dir('gambit-verif-c03-')
	for ci, case in enumerate(cases):
		genomes = check_db_case(case)
		D = [[jacc32(q, r[0])[0] for r in case['refs']] for q in case['queries']]
		validate2(case['taxa'], genomes, D, 'f32')
		check_meta(case['taxa'], genomes, case['tmeta'], case['gdesc'])
		taxa = canon_taxa(case['taxa'])
		ctx.case(case, nontrivial=nontrivial_for(taxa, genomes, D))
		expect = [csv_expect(taxa, case['tmeta'], case['gdesc'], r) for r in D]
		d = os.path.join(base, f'c{ci}')
		os.makedirs(d)
		db = None
		try:
			qsigs = build_db_dir(case, d)
			db = ReferenceDatabase.load_from_dir(d)
			keys = [g.genome.key for g in db.genomes]
			if keys != [f'g{j}' for j in range(len(genomes))]:
				ctx.broke('correspondence db (reference order)', f'db.genomes order {keys[:10]}')
				continue
			gpos = {id(g): j for j, g in enumerate(db.genomes)}
			gix = lambda g: gpos.get(id(g), -1)
			tid = lambda t: int(t.key[1:]) + 1
			want_fasta = 'fasta' in case['cli'] or any(a[0] == 'parse' for a in case['api'])
			fasta = write_fasta(case, d) if want_fasta else None
			if want_fasta and fasta is None:
				ctx.count('db:fasta-route-skipped')
			for call, cs, rc in case['api']:
				if call == 'parse' and fasta is None:
					continue
				tag = f'query(loaded database) [{call}, chunksize={cs}, report_closest={rc}]'
				try:
					with warnings.catch_warnings():
						warnings.simplefilter('ignore')
						if call == 'default':
							items = query(db, qsigs).items
						elif call == 'params':
							items = query(db, qsigs, QueryParams(chunksize=cs, report_closest=rc)).items
						elif call == 'kw':
							items = query(db, qsigs, classify_strict=False, chunksize=cs, report_closest=rc).items
						elif call == 'parse':
							items = query_parse(db, [SequenceFile(f, 'fasta') for f in fasta], QueryParams(chunksize=cs, report_closest=rc),
							                    file_labels=[f'file {q}' for q in range(len(D))], parse_kw=dict(concurrency=None)).items
						else:
							items = [query(db, [qsigs[q]], QueryParams(chunksize=cs, report_closest=rc)).items[0] for q in range(len(D))]
				except Exception as e:
					items = type(e).__name__
				for q, r in enumerate(D):
					if isinstance(items, str) or q >= len(items):
						o, side = (items if isinstance(items, str) else 'MissingItem'), []
					else:
						try:
							o, side = obs_of(items[q].classifier_result, items[q].report_taxon, gix, tid)
						except Exception as e:
							o, side = type(e).__name__, []
					plan.item(ci, f'{tag} item {q}', taxa, genomes, r, o, side)
			for mode in case['cli']:
				out = os.path.join(d, f'out-{mode}')
				args = ['-d', d, 'query', '-o', out]
				if mode == 'csv':
					args += ['-s', os.path.join(d, 'q', 'q.gs')]
				elif mode == 'csv-nostrict':
					args += ['--no-strict', '-f', 'csv', '-s', os.path.join(d, 'q', 'q.gs')]
				elif mode == 'json':
					args += ['-f', 'json', '-s', os.path.join(d, 'q', 'q.gs')]
				elif mode == 'fasta':
					if fasta is None:
						continue
					args += ['-c', '1'] + fasta
				else:
					raise ValueError('cli mode')
				tag = f'gambit query [{mode}]'
				r = CliRunner().invoke(gambit.cli.cli, args)
				text = None
				if r.exit_code == 0 and os.path.exists(out):
					with open(out, newline='') as f:
						text = f.read()
				if mode == 'json':
					try:
						its = json.loads(text)['items']
						table = [[None if it['predicted_taxon'] is None else it['predicted_taxon']['key'],
						          None if it['next_taxon'] is None else it['next_taxon']['key']] for it in its]
					except Exception as e:
						table = f'exit code {r.exit_code}, unreadable JSON ({type(e).__name__})'
					ex = [(lambda c, m: [None if m['report'] is None else f't{m["report"] - 1}',
					                     None if m['next'] is None else f't{m["next"] - 1}'])] * len(D)
				else:
					table = f'exit code {r.exit_code}: {str(r.exception)[:200]}' if text is None else csv_rows(text, 'f32')
					ex = expect
				for q, row in enumerate(D):
					got = table if isinstance(table, str) else table[q] if len(table) == len(D) else f'{len(table)} rows for {len(D)} queries'
					plan.row(ci, f'{tag} row {q}', taxa, genomes, row, got, ex[q])
		finally:
			if db is not None:
				try:
					db.session.close()
					db.session.get_bind().dispose()
				except Exception:
					pass
				try:
					db.signatures.close()
				except Exception:
					pass
			shutil.rmtree(d, ignore_errors=True)
	plan.run(ctx, 'db', cases)
	shutil.rmtree(base, ignore_errors=True)


# ==================================================================================================
# kind edit: EDIT SEQUENCES on live ORM objects.  The property speaks about the database as it is at the time of
# the query: the same objects are classified, edited the way a curator would (through the ORM), and classified
# again; every classification is judged against the harness's own CURRENT parent table.
# ==================================================================================================
EDIT_MODES = ('transient', 'session', 'file')
REPARENT_VIA = ('attr', 'children', 'pid-refresh', 'pid-expire', 'pid-commit')
INSERT_VIA = ('attr', 'children')
MOVE_VIA = ('attr', 'backref', 'tid-expire')
SESSION_OPS = ('flush', 'commit', 'rollback', 'expire')
EDIT_CALLS = ('classify', 'item', 'query', 'match')
EDIT_HELPERS = ('ancestors', 'ancestors_inc', 'lineage', 'root', 'depth', 'isroot', 'isleaf', 'descendants', 'leaves',
                'subtree_genomes', 'ancestor_of_rank', 'reportable', 'has_genome', 'lca', 'all')
STRUCTURAL = ('reparent', 'threshold', 'report', 'insert', 'add', 'move', 'delete', 'rollback')


def _is_ix(x):
	return isinstance(x, int) and not isinstance(x, bool)


def _is_thr(v):
	return v is None or (isinstance(v, (int, float)) and not isinstance(v, bool) and v == v and abs(v) != float('inf'))


class EditForest:
	"""the harness's own copy of the database: parent table (slot i <-> taxon id i + 1; slots are never reused, a
	deleted or rolled-back taxon leaves a dead slot), genome -> slot, and the state at the last commit"""

	def __init__(self, taxa, genomes, mode):
		if mode not in EDIT_MODES:
			raise ValueError('mode')
		for i, t in enumerate(taxa):
			if not (isinstance(t, list) and len(t) == 3 and _is_ix(t[0]) and -1 <= t[0] < i and _is_thr(t[1]) and isinstance(t[2], bool)):
				raise ValueError('taxon entry')
		if not genomes or not taxa or any(not (_is_ix(g) and 0 <= g < len(taxa)) for g in genomes):
			raise ValueError('genomes')
		self.sess = mode != 'transient'
		self.taxa = [list(t) for t in taxa]
		self.alive = [True] * len(taxa)
		self.genomes = list(genomes)
		self.mark()

	def mark(self):
		self.saved = ([list(t) for t in self.taxa], list(self.alive), list(self.genomes))

	def rollback(self):
		taxa, alive, genomes = self.saved
		extra = len(self.taxa) - len(taxa)
		self.taxa = [list(t) for t in taxa] + [[-1, None, False] for _ in range(extra)]
		self.alive = list(alive) + [False] * extra
		self.genomes = list(genomes)

	def tx(self, x):
		if not (_is_ix(x) and 0 <= x < len(self.taxa) and self.alive[x]):
			raise ValueError('no such taxon')
		return x

	def below(self, p, x):
		"""x is p or an ancestor of p"""
		while p >= 0:
			if p == x:
				return True
			p = self.taxa[p][0]
		return False

	def snapshot(self):
		return [list(t) for t in self.taxa], list(self.genomes)

	def apply(self, e):
		"""validate one edit and apply it to the table.  -> the former parent slot where the ORM side needs it.
		ValueError: the edit is not applicable in this state (replays / shrinking)"""
		if not (isinstance(e, list) and e and isinstance(e[0], str)):
			raise ValueError('edit')
		op, a = e[0], e[1:]
		if op in SESSION_OPS:
			if a or not self.sess:
				raise ValueError('session operation')
			if op == 'commit':
				self.mark()
			elif op == 'rollback':
				self.rollback()
			return None
		if op == 'reparent':
			if len(a) != 3 or a[2] not in REPARENT_VIA or (a[2].startswith('pid') and not self.sess):
				raise ValueError('reparent')
			x, p = self.tx(a[0]), a[1]
			if p != -1 and self.below(self.tx(p), x):
				raise ValueError('cycle')
			old = self.taxa[x][0]
			self.taxa[x][0] = p
			if a[2] == 'pid-commit':
				self.mark()
			return old
		if op == 'threshold':
			if len(a) != 2 or not _is_thr(a[1]):
				raise ValueError('threshold')
			self.taxa[self.tx(a[0])][1] = a[1]
			return None
		if op == 'report':
			if len(a) != 2 or not isinstance(a[1], bool):
				raise ValueError('report')
			self.taxa[self.tx(a[0])][2] = a[1]
			return None
		if op == 'insert':
			if len(a) != 4 or not _is_thr(a[1]) or not isinstance(a[2], bool) or a[3] not in INSERT_VIA:
				raise ValueError('insert')
			x = self.tx(a[0])
			old = self.taxa[x][0]
			self.taxa.append([old, a[1], a[2]])
			self.alive.append(True)
			self.taxa[x][0] = len(self.taxa) - 1
			return old
		if op == 'add':
			if len(a) != 3 or not _is_thr(a[1]) or not isinstance(a[2], bool):
				raise ValueError('add')
			p = a[0] if a[0] == -1 else self.tx(a[0])
			self.taxa.append([p, a[1], a[2]])
			self.alive.append(True)
			return None
		if op == 'move':
			if len(a) != 3 or a[2] not in MOVE_VIA or (a[2] == 'tid-expire' and not self.sess) \
					or not (_is_ix(a[0]) and 0 <= a[0] < len(self.genomes)):
				raise ValueError('move')
			self.genomes[a[0]] = self.tx(a[1])
			return None
		if op == 'delete':
			if len(a) != 1:
				raise ValueError('delete')
			x = self.tx(a[0])
			if x in self.genomes or any(self.alive[i] and t[0] == x for i, t in enumerate(self.taxa)):
				raise ValueError('only a leaf taxon without genomes is deleted')
			self.alive[x] = False
			self.taxa[x] = [-1, None, False]
			return None
		raise ValueError('edit operation')

	def check_helper(self, h):
		if not (isinstance(h, list) and h and h[0] in EDIT_HELPERS):
			raise ValueError('helper')
		if h[0] == 'all':
			if len(h) != 1:
				raise ValueError('helper')
			return
		self.tx(h[1] if len(h) > 1 else None)
		if h[0] == 'has_genome':
			if len(h) != 3 or not (_is_ix(h[2]) and 0 <= h[2] < len(self.genomes)):
				raise ValueError('helper')
		elif h[0] == 'lca':
			if len(h) != 3:
				raise ValueError('helper')
			self.tx(h[2])
		elif len(h) != 2:
			raise ValueError('helper')


def edit_plan(case):
	"""dry run of the whole sequence on the table alone.  -> per step (former parents of its edits, table and genome
	assignment after its edits, live slots before its edits).  ValueError when the case is not a valid edit sequence"""
	f = EditForest(case['taxa'], case['genomes'], case['mode'])
	if case['mode'] == 'file' and not isinstance(case.get('preload'), bool):
		raise ValueError('preload')
	if not case['steps']:
		raise ValueError('no steps')
	out = []
	for st in case['steps']:
		if st['call'] not in EDIT_CALLS or not st['rows']:
			raise ValueError('step')
		for h in st['warm']:
			f.check_helper(h)
		before = [i for i, a in enumerate(f.alive) if a]
		olds = [f.apply(e) for e in st['edits']]
		taxa, genomes = f.snapshot()
		for r in st['rows']:
			if len(r) != len(genomes) or any(not isinstance(d, (int, float)) or isinstance(d, bool) or d != d or d < 0 or abs(d) == float('inf')
			                                 or f32(d) != d for d in r):
				raise ValueError('one finite non-negative binary32 distance per reference genome')
		out.append((olds, taxa, genomes, before))
	return out


_MEMDB = [None]


def _no_fsync(dbapi_con, _record):
	"""scratch database files need no durability (a commit otherwise waits for the disk)"""
	dbapi_con.execute('PRAGMA synchronous=OFF')


class EditDb:
	"""the implementation's side: live gambit.db.models objects (transient / in the session that created them on an
	in-memory database / loaded from a database file through gambit's own writable session) and the edits on them"""

	def __init__(self, case, path):
		import numpy as np
		from types import SimpleNamespace
		from gambit.db import models as M
		self.M = M
		self.mode = case['mode']
		self.session = self.gset = None
		taxa, genomes = case['taxa'], case['genomes']
		if self.mode == 'transient':
			self.objs, self.gs = build_orm(taxa, genomes)
			self.db = SimpleNamespace(genomes=self.gs, genomeset=None, signatures=SimpleNamespace(meta=None), sig_indices=None)
			return
		from sqlalchemy import create_engine, event
		from sqlalchemy.orm import Session
		from gambit.db import ReferenceDatabase
		from gambit.kmers import KmerSpec
		from gambit.sigs import SignatureList, SignaturesMeta, AnnotatedSignatures
		if self.mode == 'session':
			# one in-memory database for the whole run (emptied after every case): statement compilation is cached per engine
			if _MEMDB[0] is None:
				_MEMDB[0] = create_engine('sqlite://')
				M.Base.metadata.create_all(_MEMDB[0])
			eng = _MEMDB[0]
		else:
			with open(path, 'wb') as f:
				f.write(_empty_gdb())
			eng = create_engine('sqlite:///' + path)
			event.listen(eng, 'connect', _no_fsync)
		s = Session(eng)
		gset = M.ReferenceGenomeSet(key='verif/c03e', version='1.0', name='c03e')
		s.add(gset)
		objs = []
		for i, (p, thr, rep) in enumerate(taxa):
			objs.append(M.Taxon(id=i + 1, key=f't{i + 1}', name=f't{i + 1}', genome_set=gset, distance_threshold=thr, report=rep,
			                    parent=objs[p] if p >= 0 else None))
		s.add_all(objs)
		for j, g in enumerate(genomes):
			s.add(M.AnnotatedGenome(genome=M.Genome(id=j + 1, key=f'g{j}', description=f'g{j}'), genome_set=gset, taxon=objs[g]))
		s.commit()
		if self.mode == 'file':
			s.close()
			eng.dispose()
			from gambit.db.sqla import file_sessionmaker
			s = file_sessionmaker(path, readonly=False)()
			event.listen(s.get_bind(), 'connect', _no_fsync)
			gset = s.query(M.ReferenceGenomeSet).one()
			objs = s.query(M.Taxon).order_by(M.Taxon.id).all() if case['preload'] else [None] * len(taxa)
		self.session, self.gset, self.objs = s, gset, objs
		ks = KmerSpec(5, 'AT')
		sigs = SignatureList([np.array([j], dtype=ks.index_dtype) for j in range(len(genomes))], ks)
		self.db = ReferenceDatabase(gset, AnnotatedSignatures(sigs, [f'g{j}' for j in range(len(genomes))], SignaturesMeta(id_attr='key')))
		self.gs = list(self.db.genomes)
		if [g.genome.key for g in self.gs] != [f'g{j}' for j in range(len(genomes))]:
			raise RuntimeError('reference order')

	def close(self):
		if self.session is None:
			return
		try:
			eng = self.session.get_bind()
			self.session.rollback()
			self.session.close()
			if self.mode == 'session':
				with eng.begin() as c:
					for tbl in reversed(self.M.Base.metadata.sorted_tables):
						c.execute(tbl.delete())
			else:
				eng.dispose()
		except Exception:
			if self.mode == 'session':
				_MEMDB[0] = None

	def T(self, i):
		if i is None or i < 0:
			return None
		if self.objs[i] is None:
			self.objs[i] = self.session.get(self.M.Taxon, i + 1)
		return self.objs[i]

	def new_taxon(self, thr, rep):
		i = len(self.objs)
		kw = {} if self.gset is None else dict(genome_set=self.gset)
		t = self.M.Taxon(id=i + 1, key=f't{i + 1}', name=f't{i + 1}', rank=None, distance_threshold=thr, report=rep, **kw)
		self.objs.append(t)
		if self.session is not None:
			self.session.add(t)
		return t

	def apply(self, e, old):
		s = self.session
		op, a = e[0], e[1:]
		if s is not None and op in ('reparent', 'insert', 'delete'):
			# at most one pending change of the tree per flush: SQLAlchemy cannot order the UPDATEs of e.g. a parent and
			# its child swapping places within one flush (CircularDependencyError; a curator flushes in between), and
			# only a persistent object can be deleted / refreshed
			s.flush()
		if op == 'flush':
			s.flush()
		elif op == 'commit':
			s.commit()
		elif op == 'rollback':
			s.rollback()
		elif op == 'expire':
			s.flush()
			s.expire_all()
		elif op == 'reparent':
			X, P, O, via = self.T(a[0]), self.T(a[1]), self.T(old), a[2]
			if via == 'attr':
				X.parent = P
			elif via == 'children':
				if O is not None:
					O.children.remove(X)
				if P is not None:
					P.children.append(X)
			else:
				X.parent_id = None if P is None else a[1] + 1
				if via == 'pid-commit':
					s.commit()
				elif via == 'pid-expire':
					s.flush()
					s.expire_all()
				else:
					s.flush()
					s.refresh(X)
					for Y in (O, P):
						if Y is not None:
							s.expire(Y, ['children'])
		elif op == 'threshold':
			self.T(a[0]).distance_threshold = a[1]
		elif op == 'report':
			self.T(a[0]).report = a[1]
		elif op == 'insert':
			X, O = self.T(a[0]), self.T(old)
			N = self.new_taxon(a[1], a[2])
			if a[3] == 'attr':
				N.parent = O
				X.parent = N
			else:
				if O is not None:
					O.children.remove(X)
					O.children.append(N)
				N.children.append(X)
		elif op == 'add':
			P = self.T(a[0])
			self.new_taxon(a[1], a[2]).parent = P
		elif op == 'move':
			G, T_ = self.gs[a[0]], self.T(a[1])
			if a[2] == 'attr':
				G.taxon = T_
			elif a[2] == 'backref':
				T_.genomes.append(G)
			else:
				s.flush()
				G.taxon_id = a[1] + 1
				s.flush()
				s.expire_all()
		elif op == 'delete':
			X = self.T(a[0])
			if s is None:
				X.parent = None
			else:
				s.delete(X)

	def warm(self, h, alive):
		"""call a helper that walks the taxonomy (its result is not judged: the property does not speak about it)"""
		import gambit.db
		name = h[0]
		if name == 'all':
			for i in alive:
				self.T(i).depth()
			return
		t = self.T(h[1])
		if name == 'ancestors':
			list(t.ancestors())
		elif name == 'ancestors_inc':
			list(t.ancestors(incself=True))
		elif name == 'lineage':
			t.lineage()
		elif name == 'root':
			t.root()
		elif name == 'depth':
			t.depth()
		elif name == 'isroot':
			t.isroot()
		elif name == 'isleaf':
			t.isleaf()
		elif name == 'descendants':
			list(t.descendants())
		elif name == 'leaves':
			list(t.leaves())
		elif name == 'subtree_genomes':
			list(t.subtree_genomes())
		elif name == 'ancestor_of_rank':
			t.ancestor_of_rank('genus')
		elif name == 'reportable':
			gambit.db.reportable_taxon(t)
		elif name == 'has_genome':
			t.has_genome(self.gs[h[2]])
		elif name == 'lca':
			self.M.Taxon.lca([t, self.T(h[2])])

	def lineages(self):
		"""what the objects say now, walking .taxon / .parent only: per genome [(id, threshold, report), ...]"""
		out = []
		for g in self.gs:
			lin = []
			t = g.taxon
			while t is not None and len(lin) <= len(self.objs):
				lin.append((t.id, t.distance_threshold, bool(t.report)))
				t = t.parent
			out.append(lin)
		return out

	def classify(self, call, rows):
		"""-> per row (observation | error name, side findings, index of the single genome judged or None = all)"""
		import numpy as np
		import warnings
		import gambit.db
		import gambit.query as gq
		from gambit.classify import classify, matching_taxon, GenomeMatch
		gs = self.gs
		gix = lambda g: _ix(gs, g)
		tid = lambda t: t.id
		out = []
		if call == 'query' and hasattr(gq, 'jaccarddist_matrix'):
			mat = np.asarray(rows, dtype=np.float32)
			saved = gq.jaccarddist_matrix
			gq.jaccarddist_matrix = lambda *a, **k: mat
			try:
				with warnings.catch_warnings():
					warnings.simplefilter('ignore')
					items = list(gq.query(self.db, [None] * len(rows)).items)
			except Exception as e:
				items = type(e).__name__
			finally:
				gq.jaccarddist_matrix = saved
			for q in range(len(rows)):
				if isinstance(items, str) or q >= len(items):
					out.append((items if isinstance(items, str) else 'MissingItem', [], None))
					continue
				try:
					o, side = obs_of(items[q].classifier_result, items[q].report_taxon, gix, tid)
				except Exception as e:
					o, side = type(e).__name__, []
				out.append((o, side, None))
			return out
		for r in rows:
			arr = np.asarray(r, dtype=np.float32)
			try:
				if call == 'classify':
					cr = classify(gs, arr)
					o, side = obs_of(cr, gambit.db.reportable_taxon(cr.predicted_taxon), gix, tid)
					c = None
				elif call == 'match':
					c = r.index(min(r))
					gm = GenomeMatch(gs[c], arr[c])
					mt = matching_taxon(gs[c].taxon, arr[c])
					t = lambda x: None if x is None else x.id
					o = dict(closest=0, dist=float(gm.distance), predicted=t(mt), primary=0 if mt is not None else None,
					         next=t(gm.next_taxon()), report=t(gambit.db.reportable_taxon(gm.matched_taxon)))
					side = [] if gm.matched_taxon is mt else ['GenomeMatch(genome, distance).matched_taxon differs from matching_taxon(genome.taxon, distance)']
				else:
					item = gq.get_result_item(self.db, gq.QueryParams(), arr, gq.QueryInput('q'))
					o, side = obs_of(item.classifier_result, item.report_taxon, gix, tid)
					c = None
			except Exception as e:
				o, side, c = type(e).__name__, [], None
			out.append((o, side, c))
		return out


def edit_text(e):
	op, a = e[0], e[1:]
	t = lambda i: 'none' if i == -1 else f't{i + 1}'
	if op == 'reparent':
		return f'{t(a[0])}.parent := {t(a[1])} [{a[2]}]'
	if op == 'threshold':
		return f'{t(a[0])}.threshold := {a[1]!r}'
	if op == 'report':
		return f'{t(a[0])}.report := {a[1]}'
	if op == 'insert':
		return f'new taxon (threshold {a[1]!r}, report {a[2]}) inserted above {t(a[0])} [{a[3]}]'
	if op == 'add':
		return f'new taxon (threshold {a[1]!r}, report {a[2]}) under {t(a[0])}'
	if op == 'move':
		return f'genome #{a[0]} moved to {t(a[1])} [{a[2]}]'
	if op == 'delete':
		return f'{t(a[0])} deleted'
	return op


def k_edit(ctx, cases):
	"""case: mode (transient | session | file), preload (file: all taxa loaded up front / on demand), taxa, genomes, steps
	[{warm: [[helper, taxon(, taxon | genome)]...], edits: [[op, ...]...], call: classify | item | query | match, rows:
	[distance vectors]}...].  Per step: the helpers are called (warm-up, not judged), the edits are applied to the SAME
	objects, then every row is classified and judged against the harness's table as it is after the edits."""
	import os
	import shutil
	import warnings
	from vf import impl as vimpl
	plan = Plan()
	base = None
	for ci, case in enumerate(cases):
		steps = edit_plan(case)
		edited = False
		nontriv = False
		for st, (_, taxa, genomes, _b) in zip(case['steps'], steps):
			edited |= any(e[0] in STRUCTURAL for e in st['edits'])
			nontriv |= edited and nontrivial_for(taxa, genomes, st['rows'])
		ctx.case(case, nontrivial=nontriv)
		path = None
		if case['mode'] == 'file':
			if base is None:
				base = vimpl.scratch_dir('gambit-verif-c03e-')
			path = os.path.join(base, f'c{ci}.gdb')
		db = None
		try:
			with warnings.catch_warnings():
				warnings.simplefilter('ignore')
				try:
					db = EditDb(case, path)
				except Exception as e:
					ctx.broke('correspondence edit (building the database objects)', f'{type(e).__name__}: {e}; case {case}')
					continue
				done = []
				for k, (st, (olds, taxa, genomes, alive)) in enumerate(zip(case['steps'], steps)):
					for h in st['warm']:
						try:
							db.warm(h, alive)
						except Exception:
							ctx.count('edit:helper-raised')
					try:
						for e, old in zip(st['edits'], olds):
							db.apply(e, old)
							done.append(edit_text(e))
					except Exception as e:
						ctx.broke('correspondence edit (an edit could not be applied to the objects)',
						          f'step {k}: {type(e).__name__}: {e}; case {case}')
						break
					tag = f'step {k} [{case["mode"]} objects, {st["call"]}]' + (f' after {len(done)} edit(s), last: {"; ".join(done[-3:])}' if done else '')
					for q, (o, side, c) in enumerate(db.classify(st['call'], st['rows'])):
						r = st['rows'][q]
						if c is None:
							plan.item(ci, f'{tag} row {q}', taxa, genomes, r, o, side)
						else:
							plan.item(ci, f'{tag} row {q} genome #{c} alone', taxa, [genomes[c]], [r[c]], o, side)
					# the objects must say what the table says (read only through .taxon / .parent)
					try:
						got = db.lineages()
					except Exception as e:
						got = f'{type(e).__name__}: {e}'
					exp = [[(i + 1, taxa[i][1], taxa[i][2]) for i in lineage_ix(taxa, g)] for g in genomes]
					if got != exp:
						ctx.broke('correspondence edit (objects vs the harness\'s table after the edits)',
						          f'step {k}: objects {got} table {exp}; case {case}')
						break
		finally:
			if db is not None:
				db.close()
			if path is not None:
				try:
					os.unlink(path)
				except OSError:
					pass
	plan.run(ctx, 'edit', cases, first_only=True)
	if base is not None:
		shutil.rmtree(base, ignore_errors=True)


KINDS = {'cls': k_cls, 'chain': k_chain, 'csv': k_csv, 'cmp': k_cmp, 'api': k_api, 'qry': k_qry, 'db': k_db, 'edit': k_edit}
BATCH = 1500


# ---- generators ----------------------------------------------------------------------------------
THR_GRID = [None, 0.25, 0.3, 0.6]


def boundary_dists(thrs):
	"""binary32 distances around the given thresholds: the threshold's neighbours in binary32 and itself when
	representable"""
	out = set()
	for t in thrs:
		if t is None:
			continue
		c = f32(t)
		for n in (-1, 0, 1):
			v = f32_step(abs(c), n)
			out.add(v if c >= 0 else -v)
	return sorted(out)


def random_forest(rng, n, chainy):
	taxa = []
	for i in range(n):
		if i == 0 or rng.random() < 0.15:
			p = -1
		elif rng.random() < chainy:
			p = i - 1
		else:
			p = rng.randrange(i)
		r = rng.random()
		if r < 0.3:
			thr = None
		elif r < 0.55:
			thr = rng.choice([0.0, 0.05, 0.1, 0.25, 0.3, 0.5, 0.6, 0.75, 0.9, 1.0])
		elif r < 0.6:
			thr = rng.choice([-0.1, 1.5, 5e-324, 1e-40, 2.0 ** -149, 0.1 + 2.0 ** -30])
		else:
			thr = rng.random()
		taxa.append([p, thr, rng.random() < 0.6])
	return taxa


def random_dists(rng, taxa, m):
	pool = boundary_dists([t[1] for t in taxa if t[1] is not None and abs(t[1]) < 3e38])
	base = []
	for _ in range(m):
		r = rng.random()
		if pool and r < 0.55:
			base.append(rng.choice(pool))
		elif r < 0.65:
			base.append(rng.choice([0.0, 1.0, f32(0.5), f32(1e-40), f32(0.999)]))
		else:
			base.append(f32(rng.random()))
	if m >= 2 and rng.random() < 0.4:   # tie at the minimum (or elsewhere)
		i, j = rng.sample(range(m), 2)
		base[j] = base[i] if rng.random() < 0.5 else min(base)
	return [d if d >= 0 else 0.0 for d in base]


# ---- generators of the audit streams ---------------------------------------------------------------
ODD = ['a,b', 'say "x"', 'line\nbreak', 'cr\r\nlf', 'tab\there', ' lead', 'trail ', 'café ∂ \U0001F600', "o'q", 'NULL',
       'None', '0', '-', 'x;y', '=1+1', '[Clostridium] x', 'a\\b', '""', ',', 'nan', '\xa0']
RANKS = [None, None, 'species', 'genus', 'sub,species', 'no rank', '0']


def odd_text(rng, i, unique):
	if rng.random() < 0.45:
		return f'taxon {i}'
	base = rng.choice(ODD)
	return f'{base} {i}' if unique or rng.random() < 0.7 else base


def random_meta(rng, n, m):
	"""names (not necessarily distinct), ranks, NCBI ids of n taxa; distinct descriptions of m genomes"""
	tmeta = [[odd_text(rng, i, False), rng.choice(RANKS), rng.choice([None, 0, i + 1, 562, 2 ** 40 + i])] for i in range(n)]
	gdesc = [odd_text(rng, j, True) + f' #{j}' for j in range(m)]
	return tmeta, gdesc


def dists_for(rng, taxa, m, dt):
	"""distance vector whose values are exactly representable in the dtype, on / next to the thresholds IN THAT DTYPE"""
	import numpy as np
	base = random_dists(rng, taxa, m)
	if dt in ('f32', 'be32'):
		return base
	thrs = [t[1] for t in taxa if t[1] is not None and 0 <= t[1] < 60000]
	out = []
	for d in base:
		if thrs and rng.random() < 0.5:
			t = rng.choice(thrs)
			if dt == 'f64':
				d = rng.choice([t, math.nextafter(t, -1.0), math.nextafter(t, 4.0)])
			else:
				h = np.float16(t)
				d = float(rng.choice([h, np.nextafter(h, np.float16(-1)), np.nextafter(h, np.float16(4))]))
		elif dt == 'f16':
			d = float(np.float16(d))
		out.append(d if d >= 0 and d == d else 0.0)
	if m >= 2 and rng.random() < 0.3:
		i, j = rng.sample(range(m), 2)
		out[j] = min(out) if rng.random() < 0.6 else out[i]
	return out


def gen_api(rng, cont, gcont, strict, scalar, n_max=10):
	n = rng.randint(1, n_max)
	taxa = random_forest(rng, n, rng.choice([0.3, 0.7, 0.95]))
	m = rng.randint(1, 7)
	dt = cont.split(':')[0] if ':' in cont else 'f64'
	dists = dists_for(rng, taxa, m, dt)
	for t in taxa:
		if t[1] in (0.0, 1.0) and rng.random() < 0.5:
			t[1] = int(t[1])          # threshold held as a Python int
	return dict(taxa=taxa, genomes=[rng.randrange(n) for _ in range(m)], dists=dists,
	            cont=cont, gcont=gcont, strict=strict, scalar=scalar)


def gen_qry(rng, m=None, n=None):
	n = n or rng.randint(1, 10)
	taxa = random_forest(rng, n, rng.choice([0.3, 0.7, 0.95]))
	m = m or rng.randint(1, 7)
	dt = rng.choice(['f32', 'f32', 'be32', 'f64', 'f16'])
	tmeta, gdesc = random_meta(rng, n, m)
	rows = [dists_for(rng, taxa, m, dt) for _ in range(rng.randint(1, 4) if m > 100 or rng.random() < 0.93 else rng.randint(20, 60))]
	if rng.random() < 0.2:
		rows.insert(rng.randrange(len(rows) + 1), list(rng.choice(rows)))     # the same query twice
	return dict(taxa=taxa, genomes=[rng.randrange(n) for _ in range(m)], tmeta=tmeta, gdesc=gdesc,
	            rows=rows, layout=f'{dt}:{rng.choice(ORDERS)}',
	            call=rng.choice(['default', 'params', 'kw']), chunksize=rng.choice([None, 1, 2, 1000]),
	            report_closest=rng.choice([0, 1, 2, 10, 50]), npint=rng.random() < 0.3, inputs=rng.choice(['none', 'str', 'obj']),
	            gcont=rng.choice(['list', 'tuple']), twice=rng.random() < 0.3)


def gen_big(rng, m):
	"""forest + m genomes + one distance vector whose minimum sits at a chunk boundary / the ends"""
	n = rng.randint(2, 12)
	taxa = random_forest(rng, n, 0.7)
	genomes = [rng.randrange(n) for _ in range(m)]
	pool = boundary_dists([t[1] for t in taxa if t[1] is not None and 0 <= t[1] < 1]) or [f32(0.25)]
	lo = rng.choice(pool)
	dists = [f32(lo + (1 - lo) * (0.05 + 0.95 * rng.random())) for _ in range(m)]
	dists = [d if d > lo else f32_step(lo, 3) for d in dists]
	pos = rng.choice([0, m - 1, 999, 1000, 1001, rng.randrange(m), rng.randrange(m)]) % m
	dists[pos] = lo
	if rng.random() < 0.3:
		dists[rng.randrange(m)] = lo
	return taxa, genomes, dists


def gen_db(rng, big=False):
	k = rng.choice([5, 6, 7])
	cg = cg_kmers(k)
	U = rng.sample(cg, rng.randint(4, min(len(cg), 28)))
	queries = [[] if rng.random() < 0.06 else sorted(rng.sample(U, rng.randint(1, len(U)))) for _ in range(rng.randint(1, 4))]
	if rng.random() < 0.2:
		queries.append(list(rng.choice(queries)))           # the same query twice
	m = rng.randint(1001, 1080) if big else rng.randint(1, 8)
	sigs = []
	for j in range(m):
		q = rng.choice(queries)
		rest = [x for x in U if x not in q]
		r = rng.random()
		if r < 0.12:
			sig = list(q)                                   # identical to a query: distance 0
		elif r < 0.22 and sigs:
			sig = list(rng.choice(sigs))                    # identical to another reference: ties
		elif r < 0.3:
			sig = rng.sample(rest, rng.randint(0, len(rest)))   # disjoint: distance 1
		else:
			sig = (rng.sample(q, rng.randint(0, len(q))) if q else []) + rng.sample(rest, rng.randint(0, len(rest)))
		sigs.append(sorted(set(sig)) or [rng.choice(U)])
	if big:
		# the unique minimum of query 0 lies in the second chunk of 1000 references
		q0 = queries[0] = queries[0] or [U[0]]
		alt = sorted(set(q0) ^ {U[-1]}) or [U[1]]
		sigs = [alt if x == sorted(q0) else x for x in sigs]
		sigs[rng.choice([1000, m - 1, rng.randrange(1000, m)])] = sorted(q0)
	n = rng.randint(1, 10)
	taxa = random_forest(rng, n, rng.choice([0.3, 0.7, 0.95]))
	pairs = [jacc32(q, r) for q in queries for r in sigs[-40:]]
	for t in taxa:
		if t[1] is not None and rng.random() < 0.75:
			d32, d64 = rng.choice(pairs)
			t[1] = rng.choice([d32, d32, d64, d64, f32_step(d32, -1) if d32 > 0 else d32, f32_step(d32, 1)])
		if t[2] and rng.random() < 0.5:
			t[2] = None
	tmeta, gdesc = random_meta(rng, n, m)
	api = [['default', None, None]]
	if not big:
		api.append([rng.choice(['params', 'kw', 'single', 'parse']), rng.choice([None, 1, 2, 3, 1000]), rng.choice([0, 1, 10])])
	cli = ['csv'] + [x for x in ('csv-nostrict', 'json') if rng.random() < 0.5] + (['fasta'] if rng.random() < 0.2 else [])
	return dict(k=k, taxa=taxa, tmeta=tmeta, gdesc=gdesc, refs=[[s_, rng.randrange(n)] for s_ in sigs], queries=queries, api=api, cli=cli)


def rand_thr(rng):
	r = rng.random()
	if r < 0.25:
		return None
	if r < 0.6:
		return rng.choice([0.0, 0.05, 0.1, 0.25, 0.3, 0.5, 0.6, 0.75, 0.9, 1.0])
	if r < 0.65:
		return rng.choice([-0.1, 1.5, 1e-40, 2.0 ** -149, 0.1 + 2.0 ** -30])
	return rng.random()


def gen_one_edit(rng, f):
	"""one random curator edit (or session operation) that is applicable to the table f; None if the draw is not"""
	live = [i for i, a in enumerate(f.alive) if a]
	above = sorted({i for g in f.genomes for i in lineage_ix(f.taxa, g)[1:]})      # strict ancestors of a genome's taxon
	r = rng.random()
	if f.sess and r < 0.12:
		return [rng.choice(SESSION_OPS)]
	if r < 0.5:
		x = rng.choice(above) if above and rng.random() < 0.6 else rng.choice(live)
		p = -1 if rng.random() < 0.2 else rng.choice(live)
		via = rng.choice(REPARENT_VIA if f.sess else REPARENT_VIA[:2])
		return ['reparent', x, p, via]
	if r < 0.62:
		return ['threshold', rng.choice(live), rand_thr(rng)]
	if r < 0.7:
		x = rng.choice(live)
		return ['report', x, not f.taxa[x][2] if rng.random() < 0.9 else f.taxa[x][2]]
	if r < 0.8:
		return ['insert', rng.choice(live), rand_thr(rng), rng.random() < 0.6, rng.choice(INSERT_VIA)]
	if r < 0.85:
		return ['add', -1 if rng.random() < 0.2 else rng.choice(live), rand_thr(rng), rng.random() < 0.6]
	if r < 0.95:
		return ['move', rng.randrange(len(f.genomes)), rng.choice(live), rng.choice(MOVE_VIA if f.sess else MOVE_VIA[:2])]
	return ['delete', rng.choice(live)]


def gen_edit(rng, mode):
	"""a small forest, 1..4 reference genomes (mostly on deep taxa), and 2..6 steps of (warm-up helpers, 0..3 edits,
	classification of 1..3 distance vectors on / next to the thresholds of the forest as it is then)"""
	n = rng.randint(2, 9)
	taxa = random_forest(rng, n, rng.choice([0.6, 0.85, 0.97]))
	depth = [len(lineage_ix(taxa, i)) for i in range(n)]
	deep = [i for i in range(n) if depth[i] >= 3] or [i for i in range(n) if depth[i] >= 2] or list(range(n))
	m = rng.randint(1, 4)
	genomes = [rng.choice(deep) if rng.random() < 0.6 else rng.randrange(n) for _ in range(m)]
	f = EditForest(taxa, genomes, mode)
	steps = []
	for k in range(rng.randint(2, 6)):
		live = [i for i, a in enumerate(f.alive) if a]
		warm = []
		if rng.random() < 0.3:
			warm.append(['all'])
		for _ in range(rng.choice([0, 0, 1, 2, 3])):
			h = rng.choice(EDIT_HELPERS[:-1])
			warm.append([h, rng.choice(live), rng.randrange(m)] if h == 'has_genome' else
			            [h, rng.choice(live), rng.choice(live)] if h == 'lca' else [h, rng.choice(live)])
		edits = []
		if k > 0 or rng.random() < 0.15:
			for _ in range(rng.choice([0, 1, 1, 1, 1, 2, 3]) if k > 0 else 1):
				for _try in range(8):
					e = gen_one_edit(rng, f)
					try:
						f.apply(e)
					except ValueError:
						continue
					edits.append(e)
					break
		cur = [t for i, t in enumerate(f.taxa) if f.alive[i]]
		rows = [random_dists(rng, cur, m) for _ in range(rng.choice([1, 1, 2, 3]))]
		steps.append(dict(warm=warm, edits=edits, call=rng.choice(EDIT_CALLS), rows=rows))
	case = dict(mode=mode, taxa=taxa, genomes=genomes, steps=steps)
	if mode == 'file':
		case['preload'] = rng.random() < 0.5
	return case


def audit_streams(ctx):
	rng = ctx.rng
	# A1. direct call forms: every (distance container x genome container x strict spelling x scalar type)
	conts = ['list', 'tuple'] + [f'{dt}:{o}' for dt in DTYPES for o in ORDERS]
	n_a = 0
	for _ in range(ctx.pick(4, 20)):
		for cont in conts:
			for gcont in ('list', 'tuple'):
				for strict in ('omit', 'false'):
					for scalar in ('py', 'np64', 'same'):
						yield 'api', gen_api(rng, cont, gcont, strict, scalar)
						n_a += 1
	ctx.count('stream:api-call-forms', n_a)

	# A2. query() on a supplied matrix: items + all CSV columns, dtypes / memory layouts / call forms / odd names / ties
	n_q = ctx.pick(1200, 10000)
	for _ in range(n_q):
		yield 'qry', gen_qry(rng)
	ctx.count('stream:query-items+csv-columns', n_q)

	# A3. deep taxonomies: chains of depth 20..200 (monotonicity included) and forests of 40..150 taxa
	n_d = ctx.pick(60, 600)
	for _ in range(n_d):
		depth = rng.randint(20, 200)
		taxa = random_forest(rng, depth, 1.0)
		for t in taxa:
			if rng.random() < 0.5:
				t[1] = None
		yield 'chain', dict(lineage=[[t[1], t[2]] for t in reversed(taxa)], dists=sorted(set(random_dists(rng, taxa, rng.randint(3, 8)))))
	ctx.count('stream:deep-chains', n_d)
	n_df = ctx.pick(150, 1500)
	for _ in range(n_df):
		n = rng.randint(40, 150)
		taxa = random_forest(rng, n, rng.choice([0.9, 0.97, 0.99]))
		m = rng.randint(1, 6)
		yield 'cls', dict(taxa=taxa, genomes=[rng.randrange(n) for _ in range(m)], dists=random_dists(rng, taxa, m))
	ctx.count('stream:deep-forests', n_df)

	# A4. long distance vectors (200 .. 3000 reference genomes; minimum at 0 / 999 / 1000 / 1001 / the end)
	n_b = ctx.pick(12, 60)
	for i in range(n_b):
		taxa, genomes, dists = gen_big(rng, rng.choice([200, 1000, 1001, 1500, 3000]))
		yield 'cls', dict(taxa=taxa, genomes=genomes, dists=dists)
	ctx.count('stream:long-vectors', n_b)
	n_bq = ctx.pick(2, 12)
	for i in range(n_bq):
		c = gen_qry(rng, m=rng.choice([1001, 1200]))
		c['layout'] = 'f32:' + c['layout'].split(':')[1]
		c['rows'] = [gen_big(rng, len(c['genomes']))[2] for _ in c['rows'][:2]]
		yield 'qry', c
	ctx.count('stream:long-vectors-query', n_bq)

	# A5. real database directories (persisted objects, real signatures, Python API + command line)
	n_db = ctx.pick(75, 600)
	for _ in range(n_db):
		yield 'db', gen_db(rng)
	ctx.count('stream:database-dirs', n_db)
	n_bd = ctx.pick(1, 4)
	for _ in range(n_bd):
		yield 'db', gen_db(rng, big=True)
	ctx.count('stream:database-dirs>1000-genomes', n_bd)

	# A6. edit sequences on live objects: classify, edit the taxonomy / thresholds / flags / genome assignment through the
	#     ORM (attribute, backref collection, foreign-key column + refresh / expire / commit, rollback), classify again
	for mode, n_e in (('transient', ctx.pick(600, 4000)), ('session', ctx.pick(250, 1500)), ('file', ctx.pick(200, 1200))):
		for _ in range(n_e):
			yield 'edit', gen_edit(rng, mode)
		ctx.count(f'stream:edit-sequences-{mode}', n_e)


def generate(ctx):
	rng = ctx.rng
	ctx.rule(RULE)

	# 1. exhaustive lineages: every chain of depth <= D over thresholds {None, .25, .3, .6} x report flag,
	#    each at every boundary distance (0.3 and 0.6 are not binary32 values: both neighbours are used)
	D = ctx.pick(4, 5)
	grid = [f32(0.1)] + boundary_dists([0.25, 0.3, 0.6]) + [f32(0.5), f32(0.9)]
	grid = sorted(set(grid))
	n_ex = 0
	for depth in range(1, D + 1):
		for combo in itertools.product([(t, r) for t in THR_GRID for r in (True, False)], repeat=depth):
			yield 'chain', dict(lineage=[[t, r] for t, r in combo], dists=grid)
			n_ex += 1
	ctx.count('stream:exhaustive-chains', n_ex)

	# 2. exhaustive forests with <= 3 taxa x thresholds {None, .3, .6} x two genomes anywhere x distance pairs
	n_f = 0
	dgrid = [f32(0.25), f32(0.3), f32_step(f32(0.3), -1), f32(0.5), f32(0.7)]
	for n in (1, 2, 3):
		for parents in itertools.product(*[range(-1, i) for i in range(n)]):
			for thrs in itertools.product([None, 0.3, 0.6], repeat=n):
				taxa = [[parents[i], thrs[i], i % 2 == 0] for i in range(n)]
				for g0 in range(n):
					for g1 in range(n):
						for d0, d1 in itertools.product(dgrid, repeat=2):
							if ctx.quick and n == 3 and (d0, d1) not in ((dgrid[1], dgrid[1]), (dgrid[2], dgrid[3]), (dgrid[3], dgrid[2]), (dgrid[4], dgrid[0])):
								continue
							yield 'cls', dict(taxa=taxa, genomes=[g0, g1], dists=[d0, d1])
							n_f += 1
	ctx.count('stream:exhaustive-forests<=3', n_f)
	ctx.exhaustive = True
	ctx.extra['exhaustive_scope'] = (f'all lineages of depth <= {D} over thresholds {{none, 0.25, 0.3, 0.6}} x report flag, each at '
	                                 f'{len(grid)} boundary distances; all forests with <= 3 taxa x thresholds {{none, 0.3, 0.6}} x two genomes '
	                                 f'on any taxa x ' + ('4 (n=3) / 25 distance pairs' if ctx.quick else '25 distance pairs'))

	# 3. random forests: several roots, depth up to ~10, missing / non-monotone thresholds, unreportable taxa,
	#    genomes on internal nodes, ties, distances on and next to the thresholds
	n_r = ctx.pick(12000, 100000)
	for _ in range(n_r):
		n = rng.randint(1, 14)
		taxa = random_forest(rng, n, rng.choice([0.3, 0.7, 0.95]))
		m = rng.randint(1, 8)
		genomes = [rng.randrange(n) for _ in range(m)]
		yield 'cls', dict(taxa=taxa, genomes=genomes, dists=random_dists(rng, taxa, m))
	ctx.count('stream:random-forests', n_r)

	# 4. random deep chains with many distances (monotonicity)
	n_c = ctx.pick(2000, 15000)
	for _ in range(n_c):
		depth = rng.randint(2, 12)
		taxa = random_forest(rng, depth, 1.0)
		lin = [[t[1], t[2]] for t in reversed(taxa)]
		ds = sorted(set(random_dists(rng, taxa, rng.randint(3, 10))))
		yield 'chain', dict(lineage=lin, dists=ds)
	ctx.count('stream:random-chains', n_c)

	# 5. query() + CSV export
	n_q = ctx.pick(800, 6000)
	for _ in range(n_q):
		n = rng.randint(1, 10)
		taxa = random_forest(rng, n, 0.7)
		m = rng.randint(1, 6)
		genomes = [rng.randrange(n) for _ in range(m)]
		rows = []
		for _q in range(rng.randint(1, 4)):
			r = random_dists(rng, taxa, m)
			lo = min(r)
			i0 = r.index(lo)
			r = [d if j == i0 or d > lo else f32_step(max(d, lo), 1 + j) for j, d in enumerate(r)]
			rows.append(r)
		yield 'csv', dict(taxa=taxa, genomes=genomes, rows=rows)
	ctx.count('stream:query-csv', n_q)

	# 6. comparison boundary pairs
	n_p = 0
	thr_samples = [0.25, 0.3, 0.6, 0.1, 0.7, 1.0, 0.0, 1e-40, 5e-324, 2.0 ** -149, 2.0 ** -150, 0.1 + 2.0 ** -30, 1 / 3, 0.999999999]
	thr_samples += [rng.random() for _ in range(ctx.pick(300, 3000))]
	for t in thr_samples:
		c = f32_bits(f32(t))
		for n in (-2, -1, 0, 1, 2):
			b = c + n
			if 0 <= b <= 0x7f7fffff:
				yield 'cmp', dict(d_bits=b, t_bits=f64_bits(t))
				n_p += 1
	ctx.count('stream:cmp-boundaries', n_p)

	# 6b. audit streams (see the coverage table in the module docstring)
	yield from audit_streams(ctx)

	# 7. malformed: no distances, fewer genomes than distances, genome without taxon
	mal = [dict(taxa=[[-1, 0.5, True]], genomes=[0], dists=[]),
	       dict(taxa=[[-1, 0.5, True]], genomes=[], dists=[]),
	       dict(taxa=[[-1, 0.5, True]], genomes=[0], dists=[f32(0.5), f32(0.25)]),
	       dict(taxa=[[-1, 0.5, True]], genomes=[None], dists=[f32(0.25)]),
	       dict(taxa=[[-1, 0.5, True]], genomes=[0, None], dists=[f32(0.25), f32(0.5)]),
	       dict(taxa=[[-1, 0.5, True]], genomes=[0, None], dists=[f32(0.5), f32(0.25)]),
	       dict(taxa=[[-1, 0.5, True]], genomes=[0, 0, 0], dists=[f32(0.5)])]
	for c in mal:
		ctx.count('stream:malformed')
		yield 'cls', c
