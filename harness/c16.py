"""C16 -- the distance-matrix command labels and fills every cell correctly.

Tie: B.  `gambit dist -o FILE` is run in process (click.testing.CliRunner on gambit.cli.cli, imported
in place) for every way of supplying the two sides:

    queries     -q FILE ...   |  --ql LIST --qdir DIR  |  --qs SIGFILE
    references  -r FILE ...   |  --rl LIST --rdir DIR  |  --rs SIGFILE  |  -d (database of `gambit -d DIR`)  |  -s

with -k/-p given or left to the signature file / database / default, -c 1..4, and the written CSV is
parsed with the csv module.  The harness builds every input itself (FASTA files from seeded sequences,
list files, signature files, database directories) and derives from its own structures
  * the expected table, by an independent Python oracle: labels = file name without directory and
    without one gzip and one FASTA extension (ids of the signature file / database as stored), cell =
    round(Fraction(exact binary32 value) * 10^4) (exact, half to even) of gambit.metric.jaccarddist of
    reference signatures computed in pure Python from the sequences;
  * the model's answer: Model/C16.v `dist_cmd` (op 1601) with the same distances as an oracle table,
    and the Coq specification table (op 1612; C16_cells / C16_square prove the two equal).
Kinds:  cli (above; with --square the run is repeated with the queries supplied on both sides and the
two CSV files must be equal), fmt (format(np.float32, '0.4f') against op 1602 / 1611 and Fraction),
dump (gambit.cluster.dump_dmat_csv on arbitrary float32 matrices and ids, including length mismatches),
label (gambit.cli.common.get_file_id against op 1603), ids (get_sequence_files call forms), size (sides of 1001..2500
signatures: command line and kernel calls against a class-table oracle), and the two
sequence kinds of the state and aliasing audit (table at the end of this text): cliseq (a script of commands
over one pool of files, run in one fresh process) and libseq (a script of library calls over one pool of objects).

A difference between the CSV and the expected table is a violation with the case as replay.  A
difference between model and implementation that leaves the expected table intact (error class of a
malformed command line, ...) is reported as a broken tie.

Coverage audit (item of the property text -> stream that drives it ON THE IMPLEMENTATION; "P" = the property predicate,
i.e. the whole CSV against the expected table, is checked there; "+" = added by the audit):
  header = reference labels, rows = query label + cells, input order   cli-ways-grid, all cli streams            P
  cell = true distance rounded to 4 decimals (half-even, exact)        cli (all), fmt-*, cli-synthetic-ties (ties) P
  3 x 5 ways of supplying the sides                                    cli-ways-grid (10 x each), cli-variants +  P
  --square symmetric, zero diagonal, = queries on both sides           every square case (second run, CSV equal)  P
  -k/-p given / implied by signature file, database, default 11/ATGAC  cli-ways-grid                              P
  + k > 8 (uint32 / uint64 indices: 12, 16, 17, 20, 32), 9/ACG        cli-variants                               P
  + -p spelled in lower / mixed case                                   cli-variants (pcase)                       P
  core counts 1..4 and none                                            cli-ways-grid                              P
  + more workers than files / processors (5, 8, 16)                    cli-variants                               P
  + long option names (--square --use-db --cores --prefix --db --progress)   cli-variants (long)                  P
  + options in any order, -q / -r interleaved                          cli-variants (order)                       P
  + database through GAMBIT_DB_PATH instead of -d DIR                  cli-variants (dbenv)                       P
  + database configured but references supplied otherwise (ignored)    cli-variants (idle dbdir)                  P
  + list file without --qdir/--rdir: absolute entries, entries relative to the current directory; absolute entries
    together with an unrelated --Xdir                                  cli-variants (list.pre)                    P
  + relative paths for every file option, run inside another directory cli-variants (cwd)                         P
  + an older, longer output file exists (must be replaced)             cli-variants (stale)                       P
  + compression contrary to the file name (content decides; the label only looks at the name)   cli-variants (gzflip)   P
  + CONTAINER of a gzip genome file (-q / -r / --ql / --rl / --square): the same genomes as plain files and as gzip files
    written by other tools than gzip.open: `gzip FILE` header (FNAME, mtime), every optional header field (FEXTRA FNAME
    FCOMMENT FHCRC), 2..5 concatenated members cut anywhere (cat a.gz b.gz, pigz -i), empty members first / middle / last,
    bgzip (BGZF 'BC' extra field, blocks of 64 / 1000 / 4096 / 65280 bytes + the empty end-of-file member; genomes of
    140..200 kb in 3..4 real blocks under the default 11 / ATGAC), named with and without '.gz' (a plain file named
    '.gz' too); against each other, --square, and against the signature file / database of the same genomes
    (the whole file is the genome: a reader that stops at a member boundary shows in every cell of the row)      cli-gzip-containers   P
  + signature file / database stored with a wider or signed value dtype (mixed widths on the two sides), ids stored as
    NumPy 'U' / 'S' arrays or as integers of other widths             cli-variants (vary_store)                  P
  + labels that repeat: files with the same derived label, the very same path twice (-q X -q X, list entry twice was
    already there), repeated ids in signature file / database, the same labels on both sides   cli-duplicate-labels   P
  + empty sides: empty list file, signature file / database without signatures, both sides empty   cli-empty-sides  P
  + larger sets (12..30 on a side)                                     cli-many                                   P
  + the command as a real process (python -m gambit ...; real stdout/stderr, OpenMP, worker processes)   cli-process   P
  + SIZE CLASS: a side of 1001, 1002, 1024, 1026, 1500, 2049, 2050, 2500 (and random sizes between) tiny signatures (0/1..4 k-mers out of
    4..8, so few distinct distances), supplied as signature file / database: --square (against the expected table, hence
    symmetric with zero diagonal, and against --qs X --rs X), one side of the class x 1..5, both sides of the class
    (thorough); jaccarddist_pairwise / jaccarddist_matrix at these sizes on SignatureArray / SignatureList / list / open
    signature file with out= prefilled with NaN (a cell never written shows) and chunk sizes around the sizes.  quick: one
    square table in 1026..1200 (1002 is in the corpus), the sizes above 2000 through a narrow table and the library calls (pairwise at >= 2050)   size-class (kind size)   P
  labels needing CSV quoting, blank lines / padding / CR LF in list files, a listed file twice    cli-ways-grid   P
  test database of the repository as references                        cli-testdb (2 in quick)                    P
  malformed command lines (two of a group, none, missing file, -d without database)   malformed (tie only: the
    property does not speak about them)
  gambit.cluster.dump_dmat_csv (the writer), contiguous float32, list ids, path as str          dump              P
  + the same handed over as Fortran-order / transposed / strided / negative-stride / big-endian / float64 / list of
    rows; ids as tuple / object / 'U' / int64 arrays / ints; destination as Path / open text file / StringIO /
    keyword arguments                                                  dump-forms                                 P
  gambit.cli.common.get_file_id(str)                                   label                                      P
  + get_file_id(Path / PurePath), get_sequence_files(explicit as str / Path / tuple, listfile as open file / path,
    listfile_dir as str / Path)                                        ids-forms (label oracle only, no Coq model) P
  + the same sources / files / objects in SEVERAL calls (roles swapped, two databases, two directories, other -k/-p, a file
    rewritten, failing calls in between, repeats, a second thread)     cliseq, libseq (table "State and aliasing" below)  P
Not driven (stated, not hidden): sides of more than 2600 genomes; sides of more than 30 genomes supplied as SEQUENCE files (the
size class comes in through signature files and the database only); the Coq model on tables of the size class (10^6..10^7
cells are not sent over the wire: kind size is judged by the class-table oracle alone); FASTA content classes (several records, line ends; C01/C06/C13 -- every file here holds
one record with N runs and lower case; the gzip CONTAINER of a file is driven, stream cli-gzip-containers), other accepted names of the database files (C04), k-mer parameter mismatches
between the sources (C14), non-UTF-8 file names, corner= / fmt= of dump_dmat_csv (not used by the command).
The audit streams use the model comparison too wherever the case is in the modelled domain (all cli and dump cases:
the variations do not change what the model sees except the list text / names, which are sent as written); kind ids
is judged by the label oracle alone.

FINDING F1 (genuine defect of the code as found, found by cli-duplicate-labels, repaired by a fix: commit,
repo_fixes/C16-dup-int-ids.diff): when the ids of a signature file or of the database are INTEGERS and one value
occurred twice, `gambit dist` died with
    TypeError: sequence item 0: expected str instance, numpy.int64 found
in gambit/cli/common.py warn_duplicate_file_ids (', '.join(duplicates)); with repeated string ids it printed the
warning and wrote the matrix.  The stream keeps generating the input and it is judged like every other case.

State and aliasing (audit of what can outlive ONE call).  Columns: R = reused across >= 2 calls whose other arguments differ
(other collection / size / parameters / role), in both orders;  U = checked unmodified after every call;  F = a call that fails
part-way is interleaved and a good call on the same objects follows;  D = the same call twice must give the same result;
T = also called from a second thread (started and joined: calls never overlap -- no entry point is advertised as safe for
concurrent use; the command forks its own worker processes from the process the earlier steps ran in).
"+" added by this audit, "x" was there before, "-" not applicable / not judged (reason given), "." not driven.

  entry point / object that outlives the call                                                      R U F D T  stream
  -- gambit dist (click.testing.CliRunner on gambit.cli.cli; python -m gambit) -----------------------------------------------
  module globals of gambit.cli.dist / gambit.cli.common / gambit.metric / gambit.cluster (a memo of
    parsed files or of opened signature files, remembered parameters), class attributes of CLIContext,
    DEFAULT_KMERSPEC (the one shared default object), the click Group / Command objects, the OpenMP
    thread count set by -c (process-wide, never reset)                                             + - + + +  cliseq
  the input FILES (FASTA, list file, signature file, database directory): one source as queries and
    as references; one query set against two databases of different size, and back; one list file
    against two directories holding the same names; files with the same derived label; signature
    files with ids in common; sha1 of every file below the pool before / after each step (a file that
    appears or disappears counts)                                                                  + + + + +  cliseq
  a FASTA file that gets another content between two runs (a cache keyed by path alone)            + . + . .  cliseq (rewrite)
  a genome file whose gzip stream consists of SEVERAL members (state of the decompressor carried
    from member to member within ONE read of one file; each case is a single command, two for
    --square: nothing outlives the call, the same genome is read from a plain file and from one or
    two containers in the same command)                                                            - - - . .  cli-gzip-containers
  the output file: the table of an earlier run of another shape is in place, made longer (the output
    is documented to be replaced)                                                                  + - + + .  cliseq; x cli-variants (stale)
  signature files the command leaves open (load_signatures without close)                          + + + . .  cliseq
  state after a FAILING command: list entry missing in the middle, gzip FASTA truncated in the middle
    of the -q / -r files (either side), truncated signature file, -k/-p contradicting a signature file
    (fails after both sides were loaded), two options of one group, output directory missing (fails at
    the very end, after everything was computed); the failing step is the twin of the good step that
    follows with other -k/-p or an older file content; its own outcome is not judged (a table written
    by it is a broken tie)                                                                         + + + . +  cliseq
  a cliseq script runs in ONE process forked from a server that has imported gambit and run nothing, so a violation found
  in a campaign is reproduced by replaying that script alone.  The cli streams keep running all their cases in the harness
  process (what one case leaves behind reaches the next, as before; a single-case replay cannot show such a leak).
  -- jaccarddist_matrix / jaccarddist_pairwise as dist_cmd calls them --------------------------------------------------------
  queries / refs: plain list, tuple, SignatureList, SignatureArray (values, bounds), HDF5Signatures of
    a file that stays OPEN over the script (as in dist_cmd); narrow / wide / signed value types; one
    collection as queries and as references, against collections of other sizes (0..5), both orders;
    observables: per signature dtype + bytes, values / bounds, k-mer parameters, own ids           + + + + +  libseq
  out= (DOCUMENTED to be written and returned): a fresh buffer, and ONE buffer per shape handed over
    again and again; must hold the new matrix and be what is returned                              + - + + +  libseq
  the matrix RETURNED with out=None must not alias hidden state: every earlier result is compared
    with its bytes at return after every later step                                                + + + + +  libseq
  chunksize                                                                                        . - . . .  libseq (rare)
  ref_indices / indices / flat: not used by dist_cmd                                               - - - - -  (C05, C20)
  failing calls: a float64 array in the middle of the queries (ValueError part-way, out= half
    written: not judged), out= of the wrong shape                                                  . + + . +  libseq
  -- dump_dmat_csv -----------------------------------------------------------------------------------------------------------
  dmat; row_ids / col_ids as list, tuple, NumPy object / 'U' arrays, the .ids array of the open
    signature file; ONE object as row and column ids (what --square hands over)                    + + + + +  libseq; + dump, dump-forms (U)
  destination: one path written again and again (replaced); ONE StringIO and ONE open text file for
    the whole script (appended to; must still be open: the caller closes it)                       + + + . +  libseq; + dump-forms (open)
  failing calls: one row id too many (ValueError after the rows were written), row ids from a
    container of the caller that raises part-way                                                   . + + . +  libseq
  -- get_sequence_files / get_file_id -----------------------------------------------------------------------------------------
  explicit: list of str / list of Path / tuple handed over again; the lists RETURNED are reversed,
    extended and emptied by the harness after every call (a later call must not hand them back)    + + . + +  libseq (seqfiles); + ids (U)
  listfile as an open text file: consumed by reading (file semantics, not judged); as a path       - - - x -  ids
  -- format(np.float32, '0.4f'), get_file_id(str): pure functions of immutable arguments             - - - x -  fmt, label
Not judged: what a failing call leaves in the output file or in out=; thread SAFETY (overlapping calls); state kept on disk
outside the pool directory (a cache below $HOME or the temporary directory escapes the file check, not the table check).
"""
import csv
import gzip
import os
import random
import re
import struct
import subprocess
import sys
import zlib
from fractions import Fraction

PROP = 'C16'
RULE = ('cli: (genomes, way of supplying queries x way of supplying references, k/prefix given or not, cores) -> CSV '
        'table or error class; non-trivial: >=2 queries and >=2 references (or --square with >=3 queries) and at least '
        'two different cell texts off the diagonal.  fmt: binary32 bit pattern -> text; non-trivial: finite, not an '
        'integer multiple of 10^-4 (so rounding happens).  dump: matrix + ids -> rows or ValueError; non-trivial: >=2x2. '
        'label: path -> file id; non-trivial: a directory part and a recognised extension.  '
        'audit streams (same cli / dump kinds and rules): cli-variants = a grid case spelled, ordered, supplied or stored another way '
        '(long options, option order, GAMBIT_DB_PATH, idle database, list entries absolute / relative to the current directory, relative '
        'paths, stale output file, compression contrary to the name, wider / signed value dtypes and other id arrays in signature files, '
        'k up to 32, prefix case, many workers); cli-gzip-containers = (3..4 related genomes; every genome FILE written as plain bytes or as a gzip container: '
        'gzip(1) header, all header fields, several members, empty members, BGZF; with / without .gz in the name; files | list file on either side, '
        '--square, or signature file / database of the same genomes on the other side) -> the CSV table of the genomes, as in kind cli; cli-duplicate-labels; cli-empty-sides (trivial by the rule above, still judged); cli-many '
        '(12..30 on a side); cli-process (python -m gambit); dump-forms = dump with other memory layouts / id containers / destinations; '
        'ids: list of paths + call form of get_sequence_files / get_file_id -> labels; non-trivial: >=2 paths, one with directory and extension.  '
        'size-class (kind size): (seed of n = 1001..2600 signatures of 0/1..4 k-mers out of a universe of 4..8, k/prefix, ids plain / integer / repeating / '
        'needing quotes, storage dtype, cores, -k/-p given or not; --square | --rs Y | -d with the other side 1..5 or also of the class) -> the whole CSV, '
        'and for --square the CSV of --qs X --rs X; or (collection form, out= absent / prefilled with NaN, chunksize) -> float32 bit patterns of every cell of '
        'jaccarddist_pairwise / jaccarddist_matrix; non-trivial: a side of more than 1000 signatures and at least two different cell texts.  '
        'sequence streams (state and aliasing): cliseq = (pool of FASTA files in two directories, list files, signature files, databases, two '
        'k-mer parameter sets; script of 2..6 gambit dist commands over the pool, some built to fail, some after a file was rewritten, some in a '
        'second thread / as a real process) -> per good step the CSV table, judged as in kind cli, + input files unchanged + same command, same '
        'table; the whole script runs in one fresh process; non-trivial: >=2 good steps with a non-trivial table.  libseq = (pool of signature '
        'collections in five container forms with id containers, path lists; script of 2..6 calls jaccarddist_matrix / jaccarddist_pairwise + '
        'dump_dmat_csv, get_sequence_files, some built to fail) -> per good step bit patterns of the matrix and the CSV table (op 1605 on the same), '
        '+ caller objects unmodified + earlier results unchanged + same call, same result; non-trivial: >=2 good steps, a collection with >=2 signatures')
TRUSTED = ['csv module: csv.reader(csv.writer(rows)) returns the rows (labels with commas, quotes, CR, LF included); the '
           'table is compared after parsing, quoting is not modelled',
           'click option parsing / pathlib: `-q PATH` reaches dist_cmd as Path(PATH), whose last component is that of PATH',
           'h5py / load_signatures return the ids and signatures that were stored (C12), calc_file_signatures returns the '
           'signatures of the files in order (C13), FASTA parsing (C01/C06): files enter the model as the genome they hold',
           'np.float32.__format__ = float.__format__ of the exactly converted double (modelled by fmt4, sampled by kind fmt)',
           'harness: pure-Python reference signatures, Fraction rounding oracle, builders of list files / signature files / databases',
           'cli-gzip-containers: the hand-built gzip members follow RFC 1952 (every container is checked with gzip.decompress to hold exactly the '
           'bytes of the plain file before it is used, so the file IS that genome by the gzip format, which concatenates the members)',
           'kind size (size-class stream): the oracle is a table over the classes of equal signatures: cell text = round(Fraction(1 - |A n B| / |A u B|) * 10^4) '
           'half-even (0 for two empty sets; unions stay below 32 elements, so no exact tie and no binary32 effect at the fourth decimal; the kernel on one '
           'representative pair per class pair is checked against it and supplies the expected bit pattern of the library calls); every row of a class is compared '
           'with that class row as a whole list; the two CSV files of a --square case are compared as bytes first (equal bytes, equal tables); a NaN block of '
           'the matrix size is allocated and released before each run so that cells never written tend to show as nan; no Coq model at this size',
           'sequence streams: multiprocessing fork server (a cliseq script runs in a child forked from a server that imported gambit and ran '
           'nothing; the child resets the start method to the default of a plain process so that the command forks its workers as usual); '
           'sha1 of the files below the pool directory as the observable of "inputs unmodified"; ndarray.tobytes() / dtype / shape and repr of '
           'the ids as the observables of "caller objects unmodified"']
ASSUMPTIONS = ['the distance kernel is an oracle d(genome, genome) returning binary32 bit patterns (C02/C05); the harness '
               'takes it from gambit.metric.jaccarddist on its own reference signatures',
               'C16_square_both_sides assumes d symmetric with d(x,x)=+0.0 on the query genomes (C15); checked on every '
               'square case',
               'k-mer parameter mismatches between sources are C14 and not generated here',
               'labels do not contain NUL; list-file entries do not contain line breaks or leading/trailing white space '
               '(a list file cannot express them)',
               'sequence streams: calls of one script never overlap in time (second-thread steps are joined before the next step); an out= '
               'buffer is documented to be overwritten and is judged so; what a failing call leaves in the output file / out= is not judged; '
               'a cliseq script starts in a process that has run no command (state left by OTHER scripts is seen only by the in-process cli '
               'streams, whose single-case replays cannot show it)']
BATCH = 15
SHRINK = False

FASTA_EXT = ('.fasta', '.fna', '.ffn', '.faa', '.frn', '.fa')
KSPECS = [(6, 'AT'), (5, 'AC'), (7, 'ATG'), (8, 'GA'), (5, 'TTA')]
DEFAULT_KSPEC = (11, 'ATGAC')
TESTDB = 'tests/data/testdb_210818'
ERR = {1: 'usage', 2: 'nodb', 3: 'nofile', 4: 'shape', 5: 'index', 6: 'uninit', 7: 'fuel', 8: 'unreachable'}

_S = {}
_COMP = str.maketrans('ACGT', 'TGCA')


# ------------------------------------------------------------------------------------------------
# setup
# ------------------------------------------------------------------------------------------------

def setup(ctx):
	from vf import impl
	impl.check_import()
	_S['dir'] = impl.scratch_dir('gambit-verif-c16-')
	_S['n'] = 0
	_S['seq'] = {}
	_S['sig'] = {}


def _workdir():
	_S['n'] += 1
	d = os.path.join(_S['dir'], f'c{_S["n"]}')
	os.makedirs(d)
	return d


# ------------------------------------------------------------------------------------------------
# genomes, reference signatures, distances
# ------------------------------------------------------------------------------------------------

def genome_seq(g):
	"""g = {'fam': seed, 'len': n, 'mut': seed|None, 'rate': float} -> sequence (deterministic)"""
	key = (g['fam'], g['len'], g.get('mut'), g.get('rate'))
	if key in _S['seq']:
		return _S['seq'][key]
	rng = random.Random(g['fam'] * 7919 + 13)
	s = [rng.choice('ACGT') for _ in range(g['len'])]
	if g.get('mut') is not None:
		r2 = random.Random(g['mut'] * 104729 + 7)
		for i in range(len(s)):
			if r2.random() < g['rate']:
				s[i] = r2.choice('ACGT')
	s = ''.join(s)
	if len(s) > 200:
		s = s[:90] + 'NNNNN' + s[95:150].lower() + s[150:]
	_S['seq'][key] = s
	return s


def ref_signature(seq, k, prefix):
	"""pure-Python reference: sorted indices of the k-mers following `prefix` on either strand"""
	found = set()
	plen = len(prefix)
	s = seq.upper()
	for strand in (s, s.translate(_COMP)[::-1]):
		p = strand.find(prefix)
		while p >= 0:
			km = strand[p + plen:p + plen + k]
			if len(km) == k and all(c in 'ACGT' for c in km):
				idx = 0
				for c in km:
					idx = idx * 4 + 'ACGT'.index(c)
				found.add(idx)
			p = strand.find(prefix, p + 1)
	return sorted(found)


def genome_sig(g, k, prefix):
	"""a genome is a sequence spec or {'syn': [indices]} (synthetic signature, signature files only)"""
	import numpy as np
	from gambit.kmers import KmerSpec
	dt = KmerSpec(k, prefix).index_dtype
	if 'syn' in g:
		return np.array(sorted(set(g['syn'])), dtype=dt)
	key = (g['fam'], g['len'], g.get('mut'), g.get('rate'), k, prefix)
	if key not in _S['sig']:
		_S['sig'][key] = np.array(ref_signature(genome_seq(g), k, prefix), dtype=dt)
	return _S['sig'][key]


def f32_bits(x):
	import numpy as np
	return int(np.float32(x).view(np.uint32))


def f32_from_bits(b):
	import numpy as np
	return np.uint32(b).view(np.float32)


def py_fmt4(bits):
	"""independent oracle: exact value of the pattern, rounded half-even to 4 decimals"""
	x = struct.unpack('<f', struct.pack('<I', bits))[0]
	if x != x:
		return 'nan'
	if x in (float('inf'), float('-inf')):
		return 'inf' if x > 0 else '-inf'
	n = round(Fraction(abs(x)) * 10000)      # Fraction.__round__ rounds half to even, exactly
	return ('-' if bits >= 2 ** 31 else '') + f'{n // 10000}.{n % 10000:04d}'


def to_cp(s):
	return [ord(c) for c in s]


def from_cp(l):
	return ''.join(chr(c) for c in l)


# ------------------------------------------------------------------------------------------------
# independent oracle for labels / sides
# ------------------------------------------------------------------------------------------------

def py_label(path):
	name = path.rsplit('/', 1)[-1]
	if name.endswith('.gz'):
		name = name[:-3]
	for e in FASTA_EXT:
		if name.endswith(e):
			return name[:len(name) - len(e)]
	return name


def py_lines(text):
	return [l for l in (x.strip() for x in re.split('\r\n|\r|\n', text)) if l]


def py_side(side, which):
	"""-> ('ok', [(label, genome)]) | ('usage',) | ('nofile',) ; which = 'q' | 'r' (db / square handled by caller)"""
	given = [w for w in ('files', 'list', 'sigs') if side.get(w) is not None and (w != 'files' or side[w])]
	return given


def py_expected(case):
	"""-> ('ok', table) | ('usage',) | ('nodb',) | ('nofile',)"""
	q, r = case['q'], case['r']
	qg = py_side(q, 'q')
	rg = py_side(r, 'r') + (['db'] if r.get('db') else []) + (['square'] if r.get('square') else [])
	if len(qg) != 1 or len(rg) != 1:
		return ('usage',)

	def entries(side, way):
		if way == 'files':
			return [(py_label(p), g) for p, g in side['files']]
		if way == 'list':
			text, fsl = eff_list(case, side, 'q' if side is q else 'r', case.get('_wd', ''))
			fs = dict((n, g) for n, g in fsl)
			out = []
			for l in py_lines(text):
				if l not in fs:
					return None
				out.append((py_label(l), fs[l]))
			return out
		if way == 'sigs':
			return [(str(i), g) for i, g in side['sigs']['items']]

	Q = entries(q, qg[0])
	if rg[0] == 'db':
		if case.get('dbdir') is None:
			return ('nodb',)
		R = [(str(i), g) for i, g in case['dbdir']['items']]
	elif rg[0] == 'square':
		R = Q
	else:
		R = entries(r, rg[0])
	if Q is None or R is None:
		return ('nofile',)
	D = case['_D']
	if rg[0] == 'square':
		rows = []
		for a, (lab, g) in enumerate(Q):
			cells = []
			for b, (_, h) in enumerate(Q):
				if a == b:
					cells.append('0.0000')
				else:
					lo, hi = (g, h) if a < b else (h, g)
					cells.append(py_fmt4(D[lo][hi]))
			rows.append([lab] + cells)
	else:
		rows = [[lab] + [py_fmt4(D[g][h]) for _, h in R] for lab, g in Q]
	return ('ok', [[''] + [lab for lab, _ in R]] + rows)


# ------------------------------------------------------------------------------------------------
# building inputs
# ------------------------------------------------------------------------------------------------

# gzip containers (RFC 1952) as tools other than Python's gzip.open write them: `gzip FILE` (FNAME, mtime), every optional
# header field, several concatenated members (cat a.gz b.gz, pigz -i), empty members first / in the middle / last, bgzip
# (BGZF: members of < 64 KiB with a 'BC' extra subfield and an empty end-of-file member).  All of them hold exactly the
# bytes of the plain file (checked when written), so the genome, hence the expected table, is the same.
GZC_MODES = ['single', 'fname', 'hdr', 'multi', 'multi-empty', 'bgzf-small', 'bgzf']


def _gz_member(data, level=6, flags=0, extra=b'', fname=b'', comment=b'', mtime=0, xfl=0, osb=255):
	hdr = b'\x1f\x8b\x08' + bytes([flags]) + struct.pack('<IBB', mtime, xfl, osb)
	if flags & 4:
		hdr += struct.pack('<H', len(extra)) + extra
	if flags & 8:
		hdr += fname + b'\0'
	if flags & 16:
		hdr += comment + b'\0'
	if flags & 2:
		hdr += struct.pack('<H', zlib.crc32(hdr) & 0xffff)
	co = zlib.compressobj(level, zlib.DEFLATED, -15)
	body = co.compress(data) + co.flush()
	return hdr + body + struct.pack('<II', zlib.crc32(data), len(data) & 0xffffffff)


def _bgzf_member(data):
	co = zlib.compressobj(6, zlib.DEFLATED, -15)
	body = co.compress(data) + co.flush()
	bsize = 18 + len(body) + 8
	if bsize > 65536:
		raise RuntimeError('harness error: BGZF member larger than 64 KiB')
	return _gz_member(data, flags=4, extra=b'BC' + struct.pack('<HH', 2, bsize - 1))


def gz_container(data, mode, seed):
	"""the bytes `data` as a gzip file of the flavour `mode` (deterministic in seed)"""
	r = random.Random(seed)
	if mode == 'single':
		blob = gzip.compress(data, r.choice([1, 6, 9]), mtime=0)
	elif mode == 'fname':
		blob = _gz_member(data, flags=8, fname=b'genome.fa', mtime=1700000000 + r.randrange(1 << 20), osb=3)
	elif mode == 'hdr':
		blob = _gz_member(data, flags=2 | 4 | 8 | 16, extra=b'XY\x03\x00abc', fname=b'a b.fa', comment=b'written by harness/c16.py',
		                  mtime=r.randrange(1 << 32), xfl=2, osb=3, level=r.choice([1, 6, 9]))
	elif mode in ('multi', 'multi-empty'):
		cuts = sorted({0, len(data)} | {r.randrange(len(data) + 1) for _ in range(r.randint(1, 4))})
		pieces = [data[a:b] for a, b in zip(cuts, cuts[1:])] or [b'']
		if mode == 'multi-empty':
			where = r.choice(['first', 'middle', 'last', 'all'])
			if where in ('middle', 'all') and len(pieces) > 1:
				pieces.insert(r.randrange(1, len(pieces)), b'')
			if where in ('first', 'all'):
				pieces.insert(0, b'')
			if where in ('last', 'all') or (where == 'middle' and len(pieces) < 2):
				pieces.append(b'')
		blob = b''.join(_gz_member(x, level=r.choice([1, 6, 9])) for x in pieces)
	elif mode in ('bgzf', 'bgzf-small'):
		size = 65280 if mode == 'bgzf' else r.choice([64, 1000, 4096])
		blob = b''.join(_bgzf_member(data[i:i + size]) for i in range(0, len(data), size)) + _bgzf_member(b'')
	else:
		raise ValueError(mode)
	if gzip.decompress(blob) != data:
		raise RuntimeError(f'harness error: gzip container {mode} does not hold the data')
	return blob


def _write_fasta(path, seq, gz, container=None):
	"""gz: written through gzip.open (one member); container = [mode, seed]: 'plain' or one of GZC_MODES (overrides gz)"""
	os.makedirs(os.path.dirname(path), exist_ok=True)
	text = '>contig1 test\n' + '\n'.join(seq[j:j + 70] for j in range(0, len(seq), 70)) + '\n'
	if container is not None:
		data = text.encode('ascii')
		with open(path, 'wb') as f:
			f.write(data if container[0] == 'plain' else gz_container(data, container[0], container[1]))
		return
	if gz:
		with gzip.open(path, 'wt') as f:
			f.write(text)
	else:
		with open(path, 'w') as f:
			f.write(text)


def _write_sigs(path, items, genomes, k, prefix, int_ids=False, dtype=None, idkind=None):
	"""dtype: storage dtype of the signature values (default: the KmerSpec's); idkind: None (object array of str, or
	int64 with int_ids) | 'U' | 'S' (NumPy fixed-width strings) | an integer dtype name ('u1', 'i4', 'u8' ...)"""
	import numpy as np
	from gambit.kmers import KmerSpec
	from gambit.sigs import SignatureList, AnnotatedSignatures, SignaturesMeta, dump_signatures
	kspec = KmerSpec(k, prefix)
	dt = np.dtype(dtype) if dtype else kspec.index_dtype
	sl = SignatureList([genome_sig(genomes[g], k, prefix).astype(dt) for _, g in items], kspec, dtype=dt)
	if int_ids:
		ids = np.array([int(i) for i, _ in items], dtype=np.dtype(idkind) if idkind else np.int64)
	elif idkind == 'U':
		ids = np.array([i for i, _ in items], dtype=str) if items else np.array([], dtype='U1')
	elif idkind == 'S':
		ids = np.array([i.encode('ascii') for i, _ in items]) if items else np.array([], dtype='S1')
	else:
		ids = np.array([i for i, _ in items], dtype=object)
	dump_signatures(path, AnnotatedSignatures(sl, ids, SignaturesMeta(id_attr='key')), 'hdf5')


def _make_db(d, items, genomes, k, prefix, int_ids=False, dtype=None, idkind=None):
	import sqlite3
	os.makedirs(d, exist_ok=True)
	con = sqlite3.connect(os.path.join(d, 'genomes.gdb'))
	con.execute('create table if not exists t (x integer)')
	con.commit()
	con.close()
	_write_sigs(os.path.join(d, 'signatures.gs'), items, genomes, k, prefix, int_ids, dtype, idkind)


def kspec_of(case):
	"""the k-mer parameters in force: -k/-p if given, else those of a signature source, else the default"""
	if case.get('kopt'):
		return case['k'], case['prefix']
	uses_sigs = case['q'].get('sigs') is not None or case['r'].get('sigs') is not None or \
		(case['r'].get('db') and case.get('dbdir') is not None)
	return (case['k'], case['prefix']) if uses_sigs else DEFAULT_KSPEC


def variant(case):
	"""the optional variation record of a case (all keys optional; absent = the plain command line):
	long (long option names), dbenv (database through GAMBIT_DB_PATH), order (seed: option groups shuffled, -q / -r
	keeping their relative order), cwd (run inside the work directory with relative paths), stale (an older, longer
	output file exists), proc (a real `python -m gambit` process), gzflip (m: compression of some files contrary to
	their name), pcase ('lower' | 'mixed' spelling of -p), gzc ({file name as in files / list.fs: [mode, seed]}: that
	sequence file is written as 'plain' bytes or as the gzip container gz_container(mode, seed), whatever its name says)"""
	return case.get('v') or {}


def container_of(case, rel):
	return (variant(case).get('gzc') or {}).get(rel)


def is_gz(case, rel):
	"""whether the file named rel is written gzip-compressed: by its name, unless the case flips it (compression is
	detected from the content, the label only looks at the name)"""
	gz = rel.endswith('.gz')
	m = variant(case).get('gzflip')
	if m is not None and (zlib.crc32(rel.encode()) + m) % 3 == 0:
		gz = not gz
	return gz


def eff_list(case, side, which, wd):
	"""list file as written: (text, [(name as listed, genome)]); 'pre' = None (names relative to --Xdir) | 'abs' (absolute
	entries, no --Xdir) | 'absdir' (absolute entries and an unrelated --Xdir) | 'rel' (entries relative to the current
	directory, no --Xdir; needs v.cwd)"""
	lst = side['list']
	pre = lst.get('pre')
	if not pre:
		return lst['text'], [(n, g) for n, g in lst['fs']]
	prefix = (which + 'l/') if pre == 'rel' else os.path.join(wd, which + 'l') + '/'
	out = []
	for piece in re.split('(\r\n|\r|\n)', lst['text']):
		core = piece.strip()
		if core and piece not in ('\r\n', '\r', '\n'):
			a = len(piece) - len(piece.lstrip())
			piece = piece[:a] + prefix + core + piece[a + len(core):]
		out.append(piece)
	return ''.join(out), [(prefix + n, g) for n, g in lst['fs']]


def build_side(case, side, which, wd, args):
	"""write the inputs of one side below wd and append its option groups to args (a list of token lists)"""
	genomes = case['genomes']
	v = variant(case)
	ap = (lambda p: os.path.relpath(p, wd)) if v.get('cwd') else (lambda p: p)
	if side.get('files'):
		for n, (rel, g) in enumerate(side['files']):
			path = os.path.join(wd, which + 'f', rel)
			_write_fasta(path, genome_seq(genomes[g]), is_gz(case, rel), container_of(case, rel))
			args.append(['-' + which, ap(path)])
	if side.get('list') is not None:
		base = os.path.join(wd, which + 'l')
		os.makedirs(base, exist_ok=True)
		for rel, g in side['list']['fs']:
			_write_fasta(os.path.join(base, rel), genome_seq(genomes[g]), is_gz(case, rel), container_of(case, rel))
		lf = os.path.join(wd, which + '-list.txt')
		with open(lf, 'w', newline='', encoding='utf-8') as f:
			f.write(eff_list(case, side, which, wd)[0])
		args.append([f'--{which}l', ap(lf)])
		pre = side['list'].get('pre')
		if not pre:
			args.append([f'--{which}dir', ap(base)])
		elif pre == 'absdir':
			args.append([f'--{which}dir', ap(wd)])
	if side.get('sigs') is not None:
		sf = os.path.join(wd, which + '-sigs.gs')
		sg = side['sigs']
		_write_sigs(sf, sg['items'], genomes, case['k'], case['prefix'], sg.get('int_ids', False), sg.get('dtype'), sg.get('idkind'))
		args.append([f'--{which}s', ap(sf)])


def file_paths(case, side, which, wd):
	"""paths as typed on the command line (what the model's get_file_id sees; a relative spelling has the same last
	component)"""
	return [[os.path.join(wd, which + 'f', rel), g] for rel, g in (side.get('files') or [])]


def wire_side(case, side, which, wd):
	files = [[to_cp(p), g] for p, g in file_paths(case, side, which, wd)]
	lst = side.get('list')
	ql, fs = [], []
	if lst is not None:
		text, fsl = eff_list(case, side, which, wd)
		ql = [to_cp(text)]
		fs = [[to_cp(n), g] for n, g in fsl]
	sg = side.get('sigs')
	qs = [[[to_cp(str(i)), g] for i, g in sg['items']]] if sg is not None else []
	return files, ql, fs, qs


def wire_params(case, wd):
	q = wire_side(case, case['q'], 'q', wd)
	r = wire_side(case, case['r'], 'r', wd)
	db = [[[to_cp(str(i)), g] for i, g in case['dbdir']['items']]] if case.get('dbdir') is not None else []
	return [q[0], q[1], q[2], q[3], r[0], r[1], r[2], r[3], bool(case['r'].get('db')), db, bool(case['r'].get('square'))]


def distances(case):
	"""D[a][b] = bits of jaccarddist(sig a, sig b), rows only for genomes that can be queries"""
	from gambit.metric import jaccarddist
	k, prefix = kspec_of(case)
	genomes = case['genomes']
	sigs = [genome_sig(g, k, prefix) for g in genomes]
	qrows = set()
	q = case['q']
	for _, g in (q.get('files') or []):
		qrows.add(g)
	if q.get('list') is not None:
		qrows.update(g for _, g in q['list']['fs'])
	if q.get('sigs') is not None:
		qrows.update(g for _, g in q['sigs']['items'])
	D = []
	for a in range(len(genomes)):
		if a in qrows:
			D.append([f32_bits(jaccarddist(sigs[a], sigs[b])) for b in range(len(genomes))])
		else:
			D.append([])
	return D, sorted(qrows)


# ------------------------------------------------------------------------------------------------
# running the command
# ------------------------------------------------------------------------------------------------

STALE = 'stale,output\n' + 'x,9.9999,"old"\n' * 400


def _classify_failure(text, exc_name):
	if 'mutually exclusive' in text or 'is required' in text:
		return ('usage',)
	if 'Must supply path to database' in text:
		return ('nodb',)
	if exc_name == 'FileNotFoundError':
		return ('nofile',)
	return None


def _read_csv(out):
	try:
		with open(out, newline='', encoding='utf-8') as f:
			return ('ok', [row for row in csv.reader(f)])
	except Exception as e:
		return ('unreadable', f'{type(e).__name__}: {e}')


def run_cli(args, out, env=None, cwd=None, proc=False, stale=False, keep=False):
	"""run `gambit ARGS` (in process through click's CliRunner, or as a real process) and read the CSV it wrote; keep: an
	output file that exists is left where it is (command sequences)"""
	outp = os.path.join(cwd, out) if cwd and not os.path.isabs(out) else out
	if os.path.exists(outp) and not keep:
		os.remove(outp)
	if stale:
		with open(outp, 'w') as f:
			f.write(STALE)
	if proc:
		e = dict(os.environ)
		e.update(env or {})
		res = subprocess.run([sys.executable, '-m', 'gambit'] + list(args), env=e, cwd=cwd, capture_output=True, text=True, timeout=300)
		if res.returncode == 0:
			return _read_csv(outp)
		text = (res.stdout or '') + (res.stderr or '')
		m = re.findall(r'^(\w+(?:\.\w+)*Error)\b', text, re.M)
		return _classify_failure(text, m[-1].rsplit('.', 1)[-1] if m else None) or ('exit', res.returncode, text[-300:])
	from click.testing import CliRunner
	import gambit.cli
	old = os.getcwd()
	try:
		if cwd:
			os.chdir(cwd)
		res = CliRunner().invoke(gambit.cli.cli, args, env=env)
	finally:
		os.chdir(old)
	if res.exit_code == 0 and res.exception is None:
		return _read_csv(outp)
	text = res.output or ''
	if isinstance(res.exception, SystemExit) or res.exception is None:
		return _classify_failure(text, None) or ('exit', res.exit_code, text[-300:])
	if isinstance(res.exception, FileNotFoundError):
		return ('nofile',)
	return ('raised', type(res.exception).__name__, str(res.exception)[:300])


LONG = {'-s': '--square', '-d': '--use-db', '-c': '--cores', '-p': '--prefix'}


def spell_prefix(prefix, pcase):
	if pcase == 'lower':
		return prefix.lower()
	if pcase == 'mixed':
		return ''.join(c.lower() if i % 2 else c for i, c in enumerate(prefix))
	return prefix


def command(case, wd, both_sides=False):
	"""-> (args, out, run): run = keyword arguments of run_cli (environment, directory, process, stale output)"""
	v = variant(case)
	ap = (lambda p: os.path.relpath(p, wd)) if v.get('cwd') else (lambda p: p)
	root, env = [], None
	if case.get('dbdir') is not None:
		if case['dbdir'].get('testdb'):
			dbd = os.path.join(os.environ.get('VERIF_REPO', '/repo'), TESTDB)
		else:
			dbd = os.path.join(wd, 'db')
			if not os.path.isdir(dbd):
				dd = case['dbdir']
				_make_db(dbd, dd['items'], case['genomes'], case['k'], case['prefix'], dd.get('int_ids', False), dd.get('dtype'), dd.get('idkind'))
		if v.get('dbenv'):
			env = {'GAMBIT_DB_PATH': dbd}
		else:
			root = ['--db' if v.get('long') else '-d', ap(dbd)]
	out = ap(os.path.join(wd, 'both.csv' if both_sides else 'out.csv'))
	groups = [['-o', out]]
	if case.get('kopt'):
		groups += [['-k', str(case['k'])], ['-p', spell_prefix(case['prefix'], v.get('pcase'))]]
	if case.get('cores') is not None:
		groups.append(['-c', str(case['cores'])])
	if case.get('progress') is False:
		groups.append(['--no-progress'])
	elif v.get('long') and case.get('progress') is True:
		groups.append(['--progress'])
	side = []
	build_side(case, case['q'], 'q', wd, side)
	if both_sides:
		# the same sources a second time, as references
		ren = {'-q': '-r', '--ql': '--rl', '--qdir': '--rdir', '--qs': '--rs'}
		side += [[ren.get(g[0], g[0])] + g[1:] for g in list(side)]
	else:
		build_side(case, case['r'], 'r', wd, side)
		if case['r'].get('db'):
			side.append(['-d'])
		if case['r'].get('square'):
			side.append(['-s'])
	groups += side
	if v.get('order') is not None:
		# any order of the options; the -q (and the -r) options keep their relative order, which is the input order
		r2 = random.Random(v['order'])
		sh = list(groups)
		r2.shuffle(sh)
		for opt in ('-q', '-r'):
			orig = [g for g in groups if g[0] == opt]
			it = iter(orig)
			sh = [next(it) if g[0] == opt else g for g in sh]
		groups = sh
	if v.get('long'):
		groups = [[LONG.get(g[0], g[0])] + g[1:] for g in groups]
	args = root + ['dist'] + [t for g in groups for t in g]
	run = dict(env=env, cwd=wd if v.get('cwd') else None, proc=bool(v.get('proc')), stale=bool(v.get('stale')))
	return args, out, run


def _short(t):
	return t if t[0] != 'ok' else ('ok', [[c[:40] for c in row[:12]] for row in t[1][:12]])


def k_cli(ctx, cases):
	prepared = []
	for case in cases:
		case = dict(case)
		if case.get('dbdir') is not None and case['dbdir'].get('testdb'):
			_fill_testdb(case)
		wd = _workdir()
		D, qrows = distances(case)
		case['_D'] = D
		case['_wd'] = wd
		prepared.append((case, wd, D, qrows))
	ans = None
	if ctx.model_ok:
		reqs = []
		for case, wd, D, _ in prepared:
			p = wire_params(case, wd)
			reqs += [(1601, [D, p]), (1612, [D, p])]
		ans = ctx.model(reqs)
	for j, (case, wd, D, qrows) in enumerate(prepared):
		pub = {k: v for k, v in case.items() if not k.startswith('_')}
		if pub.get('dbdir') is not None and pub['dbdir'].get('testdb'):
			pub = cases[j]
		args, out, run = command(case, wd)
		obs = run_cli(args, out, **run)
		exp = py_expected(case)
		ways = _ways(case)
		ctx.count('cli:q=' + ways[0])
		ctx.count('cli:r=' + ways[1])
		ctx.count('cli:' + exp[0])
		nontriv = False
		if exp[0] == 'ok':
			body = exp[1][1:]
			off = {c for a, row in enumerate(body) for b, c in enumerate(row[1:]) if not (case['r'].get('square') and a == b)}
			nontriv = len(body) >= 2 and len(exp[1][0]) >= 3 and len(off) >= 2 and (not case['r'].get('square') or len(body) >= 3)
		ctx.case(pub, nontrivial=nontriv)
		if nontriv:
			ctx.count('cli:nontrivial')
		model = spec = None
		if ans is not None:
			m = ans[2 * j]
			model = ('ok', [[from_cp(c) for c in row] for row in m[1]]) if m[0] == 0 else (ERR.get(m[1], f'err{m[1]}'),)
			s = ans[2 * j + 1]
			spec = ('ok', [[from_cp(c) for c in row] for row in s[0]]) if s else None
		desc = f'gambit dist [{ways[0]} x {ways[1]}] k/prefix={"given" if case.get("kopt") else "implied"} cores={case.get("cores")}'
		if variant(case):
			desc += f' variation={variant(case)}'
		if exp[0] == 'ok':
			if obs != exp:
				what = _first_diff(obs, exp)
				ctx.violation('cli', pub, f'{desc}: {what}', impl=_short(obs), spec=_short(exp), model=_short(model) if model else None,
				              args=[a.replace(wd, '$WD') for a in args])
				continue
		else:
			# malformed command line: the property says nothing; only the tie is checked
			if obs[0] == 'ok':
				ctx.broke('correspondence cli (malformed command line accepted)', f'case {pub}: expected {exp[0]}, the command wrote {str(obs)[:300]}')
				continue
			if obs[0] != exp[0]:
				ctx.broke('correspondence cli (error class)', f'case {pub}: expected {exp[0]}, got {str(obs)[:300]}')
				continue
		if model is not None and model != exp:
			ctx.broke('correspondence cli (model of dist_cmd != implementation; expected table holds)',
			          f'case {pub}: model={str(_short(model))[:400]} impl={str(_short(obs))[:400]}')
		if spec is not None and model is not None and exp[0] == 'ok' and spec != model:
			ctx.broke('Coq specification table != Coq model table (contradicts C16_cells / C16_square)', f'case {pub}')
		# --square: symmetric, zero diagonal, equal to the queries on both sides
		if exp[0] == 'ok' and case['r'].get('square'):
			ctx.count('cli:square-both-sides')
			sym_ok = all(D[a][b] == D[b][a] for a in qrows for b in qrows) and all(D[a][a] == 0 for a in qrows)
			if not sym_ok:
				ctx.broke('hypothesis of C16_square_both_sides (kernel symmetric, zero self-distance)', f'case {pub}')
			t = obs[1]
			n = len(t) - 1
			bad = [(a, b) for a in range(n) for b in range(n) if t[a + 1][b + 1] != t[b + 1][a + 1]] + \
				[(a, a) for a in range(n) if t[a + 1][a + 1] != '0.0000']
			if bad:
				ctx.violation('cli', pub, f'{desc}: square output not symmetric / diagonal not 0.0000 at {bad[:3]}', impl=_short(obs), spec=_short(exp))
				continue
			args2, out2, run2 = command(case, wd, both_sides=True)
			obs2 = run_cli(args2, out2, **run2)
			if obs2 != obs:
				ctx.violation('cli', pub, f'{desc}: --square differs from supplying the queries on both sides: {_first_diff(obs2, obs)}',
				              impl=_short(obs), both_sides=_short(obs2), spec=_short(exp))


def dup_int_ids(case):
	"""a signature source in use whose INTEGER ids repeat (finding F1)"""
	def dup(src):
		return src is not None and src.get('int_ids') and len({i for i, _ in src['items']}) < len(src['items'])
	return bool(dup(case['q'].get('sigs')) or dup(case['r'].get('sigs')) or (case['r'].get('db') and dup(case.get('dbdir'))))


def _ways(case):
	def w(side, extra=()):
		g = [x for x in ('files', 'list', 'sigs') if side.get(x) is not None and (x != 'files' or side[x])]
		g += [x for x in extra if side.get(x)]
		return '+'.join(g) or 'none'
	return w(case['q']), w(case['r'], ('db', 'square'))


def _first_diff(obs, exp):
	if obs[0] != 'ok':
		return f'the command failed ({obs}) where a table was expected'
	a, b = obs[1], exp[1]
	if len(a) != len(b):
		return f'{len(a)} CSV rows, expected {len(b)}'
	for i, (x, y) in enumerate(zip(a, b)):
		if len(x) != len(y):
			return f'row {i} has {len(x)} fields, expected {len(y)}'
		for jx, (c, e) in enumerate(zip(x, y)):
			if c != e:
				where = 'header' if i == 0 else ('label' if jx == 0 else 'cell')
				return f'{where} at row {i} column {jx} is {c!r}, expected {e!r}'
	return 'tables differ'


def _fill_testdb(case):
	"""references = the signatures of the repository's test database (ids as stored)"""
	import numpy as np
	from gambit.sigs import load_signatures
	path = os.path.join(os.environ.get('VERIF_REPO', '/repo'), TESTDB)
	gs = [f for f in os.listdir(path) if f.endswith('.gs')][0]
	with load_signatures(os.path.join(path, gs)) as sigs:
		ids = [str(i) for i in sigs.ids]
		arrs = [np.array(sigs[i]) for i in range(len(sigs))]
	n0 = len(case['genomes'])
	step = case['dbdir'].get('step', 1)
	case['genomes'] = case['genomes'] + [{'syn': [int(x) for x in a]} for a in arrs]
	case['dbdir'] = dict(case['dbdir'], items=[[ids[i], n0 + i] for i in range(len(ids))])
	case['k'], case['prefix'] = 6, 'AT'


# ------------------------------------------------------------------------------------------------
# fmt / dump / label
# ------------------------------------------------------------------------------------------------

def k_fmt(ctx, cases):
	ans = ctx.model([(1602, b) for b in cases] + [(1611, b) for b in cases]) if ctx.model_ok else None
	n = len(cases)
	for i, b in enumerate(cases):
		x = f32_from_bits(b)
		impl = format(x, '0.4f')
		exp = py_fmt4(b)
		fin = ((b >> 23) & 255) != 255
		frac = Fraction(float(x)) * 10000 if fin else None
		ctx.case(dict(bits=b), nontrivial=bool(fin and frac.denominator != 1))
		if fin and frac.denominator == 2:
			ctx.count('fmt:ties')
		if impl != exp:
			ctx.violation('fmt', b, f"format(np.float32 bits {b} = {float(x)!r}, '0.4f') = {impl!r}, exact half-even rounding gives {exp!r}",
			              impl=impl, spec=exp, model=from_cp(ans[i][1]) if ans and ans[i][0] == 0 else None)
			continue
		if ans is None:
			continue
		m = from_cp(ans[i][1]) if ans[i][0] == 0 else ERR.get(ans[i][1])
		if m != impl:
			ctx.broke('correspondence fmt (fmt4 != format(x, "0.4f"))', f'bits {b}: impl={impl!r} model={m!r}')
		s = ans[n + i]
		if fin:
			N = int(exp.lstrip('-').replace('.', ''))
			if not s or s[0] != (1 if b >= 2 ** 31 else 0) or s[1] != N:
				ctx.broke('specification of the rounding (scaled4) != Fraction oracle', f'bits {b}: spec={s} oracle={(b >= 2 ** 31, N)}')


def k_dump(ctx, cases):
	import numpy as np
	from gambit.cluster import dump_dmat_csv
	reqs = []
	for c in cases:
		reqs.append((1605, [[[[b] for b in row] for row in c['m']], [to_cp(s) for s in c['rows']], [to_cp(s) for s in c['cols']]]))
	ans = ctx.model(reqs) if ctx.model_ok else None
	wd = _workdir()
	for i, c in enumerate(cases):
		nr, nc = len(c['m']), len(c['cols'])
		m = np.array([b for row in c['m'] for b in row], dtype=np.uint32).view(np.float32).reshape(nr, len(c['m'][0]) if nr else nc)
		out = os.path.join(wd, f'd{i}.csv')
		form = c.get('form') or {}
		try:
			obs = _dump_form(dump_dmat_csv, out, m, c['rows'], c['cols'], form)
			if form:
				ctx.count('dump:layout=' + form.get('layout', 'C'))
		except CallerObjectChanged as e:
			ctx.case(c, nontrivial=nr >= 2 and nc >= 2)
			ctx.violation('dump', c, f'dump_dmat_csv changed an object of its caller: {e}')
			continue
		except ValueError:
			obs = ('shape',)
		if len(c['rows']) != nr:
			exp = ('shape',)
		else:
			exp = ('ok', [[''] + list(c['cols'])] + [[rid] + [py_fmt4(b) for b in row] for rid, row in zip(c['rows'], c['m'])])
		ctx.case(c, nontrivial=exp[0] == 'ok' and nr >= 2 and nc >= 2)
		ctx.count('dump:' + exp[0])
		if obs != exp:
			if exp[0] == 'ok':
				ctx.violation('dump', c, f'dump_dmat_csv: {_first_diff(obs, exp)}', impl=_short(obs), spec=_short(exp))
			else:
				ctx.broke('correspondence dump (row ids and matrix rows of different length accepted)', f'case {c}: {str(obs)[:200]}')
			continue
		if ans is not None:
			a = ans[i]
			mod = ('ok', [[from_cp(x) for x in row] for row in a[1]]) if a[0] == 0 else (ERR.get(a[1]),)
			if mod != obs:
				ctx.broke('correspondence dump (model of dump_dmat_csv != implementation)', f'case {c}: model={str(mod)[:300]} impl={str(obs)[:300]}')


class CallerObjectChanged(Exception):
	"""a call changed an object that belongs to its caller"""


def _dump_form(dump_dmat_csv, out, m, rows, cols, form):
	"""the same matrix / ids / destination handed over in another form (memory layout, dtype, container, file object)"""
	import io
	import pathlib
	import numpy as np
	lay = form.get('layout', 'C')
	if lay == 'F':
		m = np.asfortranarray(m)
	elif lay == 'T':
		m = np.ascontiguousarray(m.T).T                   # a transposed view
	elif lay == 'strided':
		big = np.full((2 * m.shape[0] + 1, 3 * m.shape[1] + 2), np.float32(0.4321), dtype=np.float32)
		big[1::2, 2::3] = m
		m = big[1::2, 2::3]
	elif lay == 'rev':
		m = np.ascontiguousarray(m[::-1, ::-1])[::-1, ::-1]
	elif lay == 'be':
		m = m.astype('>f4')
	elif lay == 'f8':
		m = m.astype(np.float64)                          # exact
	elif lay == 'rows':
		m = [m[i] for i in range(m.shape[0])]             # a plain list of rows
	def ids(l, kind):
		if kind == 'tuple':
			return tuple(l)
		if kind == 'np_obj':
			a = np.empty(len(l), dtype=object)
			a[:] = l
			return a
		if kind == 'np_U':
			return np.array(l, dtype=str) if l else np.array([], dtype='U1')
		if kind == 'np_int':
			return np.array([int(x) for x in l], dtype=np.int64)
		if kind == 'ints':
			return [int(x) for x in l]
		return list(l)
	r, c = ids(rows, form.get('rows', 'list')), ids(cols, form.get('cols', 'list'))
	if form.get('alias') and list(rows) == list(cols) and form.get('rows', 'list') == form.get('cols', 'list'):
		c = r                                             # ONE object as row and column ids, as dist_cmd --square hands it over
	dest = form.get('file', 'str')
	obs_m = lambda: [np.asarray(x).tobytes() for x in m] if isinstance(m, list) else (m.dtype.str, m.shape, m.strides, m.tobytes())
	snap = (obs_m(), _obs_ids(r), _obs_ids(c))

	def unchanged():
		now = (obs_m(), _obs_ids(r), _obs_ids(c))
		if now != snap:
			raise CallerObjectChanged(', '.join(n for n, a, b in zip(('the matrix', 'the row ids', 'the column ids'), snap, now) if a != b))
	try:
		if dest == 'path':
			dump_dmat_csv(pathlib.Path(out), m, r, c)
		elif dest == 'text':
			with open(out, 'w', newline='', encoding='utf-8') as f:
				dump_dmat_csv(f, m, r, c)
				if f.closed:
					raise CallerObjectChanged('the open file it was given is closed')
		elif dest == 'stringio':
			f = io.StringIO(newline='')
			dump_dmat_csv(f, m, r, c)
			if f.closed:
				raise CallerObjectChanged('the StringIO it was given is closed')
			unchanged()
			return ('ok', [row for row in csv.reader(io.StringIO(f.getvalue(), newline=''))])
		elif dest == 'kw':
			dump_dmat_csv(file=out, dmat=m, row_ids=r, col_ids=c)
		else:
			dump_dmat_csv(out, m, r, c)
	except ValueError:
		unchanged()
		raise
	unchanged()
	with open(out, newline='', encoding='utf-8') as f:
		return ('ok', [row for row in csv.reader(f)])


def k_ids(ctx, cases):
	"""gambit.cli.common.get_sequence_files / get_file_id called the other ways their signatures allow: labels only
	(judged by the label oracle; the Coq model of get_file_id is compared on the same paths by kind label)"""
	import io
	import pathlib
	from gambit.cli.common import get_sequence_files, get_file_id
	wd = _workdir()
	for n, c in enumerate(cases):
		paths, form = c['paths'], c['form']
		exp = [py_label(p) for p in paths]
		if form == 'explicit-str':
			arg = list(paths)
			got = get_sequence_files(arg)[0]
			if arg != paths:
				ctx.violation('ids', c, f'get_sequence_files changed the list of paths it was given: {arg!r}', impl=arg, spec=paths)
				continue
		elif form == 'explicit-path':
			arg = [pathlib.Path(p) for p in paths]
			got = get_sequence_files(arg, None, None)[0]
			if arg != [pathlib.Path(p) for p in paths] or any(type(a) is not type(pathlib.Path('x')) for a in arg):
				ctx.violation('ids', c, f'get_sequence_files changed the list of paths it was given: {arg!r}', impl=[str(a) for a in arg], spec=paths)
				continue
		elif form == 'explicit-tuple':
			got = get_sequence_files(explicit=tuple(paths), listfile=None, listfile_dir='.')[0]
		elif form == 'file-id-path':
			got = [get_file_id(pathlib.Path(p)) for p in paths]
		elif form == 'file-id-purepath':
			got = [get_file_id(pathlib.PurePosixPath(p)) for p in paths]
		elif form == 'listfile-textio':
			got = get_sequence_files(None, io.StringIO(''.join(p + '\n' for p in paths)), 'some/dir')[0]
		elif form == 'listfile-path':
			lf = os.path.join(wd, f'l{n}.txt')
			with open(lf, 'w', encoding='utf-8') as f:
				f.write('\n'.join(paths))
			got = get_sequence_files(listfile=lf, listfile_dir=pathlib.Path('some/dir'))[0]
		else:
			raise ValueError(form)
		ctx.case(c, nontrivial=len(paths) >= 2 and any('/' in p and py_label(p) != p.rsplit('/', 1)[-1] for p in paths))
		ctx.count('ids:' + form)
		if got is None and not paths:
			continue        # "no explicit files": (None, None) is the documented answer for an empty argument
		if list(got or []) != exp:
			ctx.violation('ids', c, f'labels through {form}: {got!r}, expected {exp!r}', impl=got, spec=exp)


def k_label(ctx, cases):
	from gambit.cli.common import get_file_id
	ans = ctx.model([(1603, to_cp(p)) for p in cases]) if ctx.model_ok else None
	for i, p in enumerate(cases):
		impl = get_file_id(p)
		exp = py_label(p)
		ctx.case(dict(path=p), nontrivial='/' in p and exp != p.rsplit('/', 1)[-1])
		if impl != exp:
			ctx.violation('label', p, f'get_file_id({p!r}) = {impl!r}, expected {exp!r}', impl=impl, spec=exp)
		elif ans is not None and from_cp(ans[i]) != impl:
			ctx.broke('correspondence label (model get_file_id != implementation)', f'{p!r}: model={from_cp(ans[i])!r} impl={impl!r}')


# ------------------------------------------------------------------------------------------------
# state and aliasing: sequences of calls over shared objects (kinds cliseq, libseq)
# ------------------------------------------------------------------------------------------------

SEQ_LEFTOVER = 'left,over,"from an earlier run"\n' * 40
KS_PAIRS = [[[5, 'AC'], [5, 'TTA']], [[6, 'AT'], [5, 'AT']], [[6, 'AT'], [6, 'TA']], [[7, 'ATG'], [8, 'GA']],
            [[11, 'ATGAC'], [6, 'AT']], [[5, 'AT'], [11, 'ATGAC']], [[11, 'ATGAC'], [11, 'ATGAA']]]
CLI_BAD = ('missing', 'truncgz', 'truncsigs', 'kspec', 'usage', 'outdir')
LIB_BAD = ('baddtype', 'badout', 'badids', 'raiseiter')


def _in_thread(fn):
	"""run fn() in a second thread (started and joined: calls never overlap) and hand back its result / exception"""
	import threading
	box = {}

	def run():
		try:
			box['r'] = fn()
		except BaseException as e:      # handed to the caller
			box['e'] = e
	t = threading.Thread(target=run)
	t.start()
	t.join()
	if 'e' in box:
		raise box['e']
	return box['r']


def _tree_digest(wd, skip=()):
	"""{path relative to wd: sha1 of the content} of every file below wd, except the top-level names in skip"""
	import hashlib
	out = {}
	for root, dirs, fs in os.walk(wd):
		if root == wd:
			dirs[:] = [d for d in dirs if d not in skip]
		for fn in fs:
			if root == wd and fn in skip:
				continue
			p = os.path.join(root, fn)
			with open(p, 'rb') as f:
				out[os.path.relpath(p, wd)] = hashlib.sha1(f.read()).hexdigest()
	return out


def _digest_diff(a, b):
	return ', '.join([f'{k} changed' for k in sorted(a) if k in b and a[k] != b[k]] + [f'{k} removed' for k in sorted(set(a) - set(b))] +
	                 [f'{k} appeared' for k in sorted(set(b) - set(a))])


def seq_build(case, wd):
	"""the pool of a command sequence below wd: FASTA files p/REL (and p2/REL: the same names, other contents), list files
	l<i>.txt (entries relative to p or p2), signature files s<i>.gs, database directories db<i>, and the broken inputs of the
	failing steps (bad-*).  A source is ['files', [i..]] | ['list', i] | ['list', i, 1] (read against p2) | ['sigs', i] | ['db', i] |
	['square']"""
	import io
	genomes = case['genomes']
	os.makedirs(os.path.join(wd, 'p'), exist_ok=True)
	for n, (rel, g) in enumerate(case['files']):
		_write_fasta(os.path.join(wd, 'p', rel), genome_seq(genomes[g]), rel.endswith('.gz'))
		if case.get('dir2'):
			# a second directory with the same names and other contents (a list file read against either)
			_write_fasta(os.path.join(wd, 'p2', rel), genome_seq(genomes[case['dir2'][n]]), rel.endswith('.gz'))
	for i, l in enumerate(case['lists']):
		with open(os.path.join(wd, f'l{i}.txt'), 'w', newline='', encoding='utf-8') as f:
			f.write(l['text'])
		lines = py_lines(l['text'])
		h = (len(lines) + 1) // 2
		with open(os.path.join(wd, f'bad-l{i}.txt'), 'w', encoding='utf-8') as f:
			f.write('\n'.join(lines[:h] + ['no-such-file.fa'] + lines[h:]) + '\n')
	for i, s in enumerate(case['sigs']):
		k, p = case['kspecs'][s['ks']]
		path = os.path.join(wd, f's{i}.gs')
		_write_sigs(path, s['items'], genomes, k, p, s.get('int_ids', False), s.get('dtype'), s.get('idkind'))
		with open(path, 'rb') as f:
			data = f.read()
		with open(os.path.join(wd, f'bad-s{i}.gs'), 'wb') as f:
			f.write(data[:len(data) * 11 // 20])
	for i, d in enumerate(case['dbs']):
		k, p = case['kspecs'][d['ks']]
		_make_db(os.path.join(wd, f'db{i}'), d['items'], genomes, k, p, d.get('int_ids', False), d.get('dtype'), d.get('idkind'))
	buf = io.BytesIO()
	with gzip.GzipFile(fileobj=buf, mode='wb', mtime=0) as f:
		f.write(('>contig1\n' + genome_seq({'fam': 5, 'len': 3000}) + '\n').encode())
	with open(os.path.join(wd, 'bad-trunc.fa.gz'), 'wb') as f:
		f.write(buf.getvalue()[:len(buf.getvalue()) // 2])


def seq_step_case(case, step, cur):
	"""one step as a plain cli case (what py_expected / distances / wire_params understand); cur[i] = the genome pool file i
	holds now.  -> (case, [kspec number of every signature source in use])"""
	files = case['files']

	def side(src):
		if src[0] == 'files':
			return {'files': [[files[i][0], cur[i]] for i in src[1]]}
		if src[0] == 'list':
			held = case['dir2'] if len(src) > 2 and src[2] else cur
			return {'files': [], 'list': {'text': case['lists'][src[1]]['text'], 'fs': [[rel, held[i]] for i, (rel, _) in enumerate(files)]}}
		return {'files': [], 'sigs': {'items': case['sigs'][src[1]]['items']}}
	q, r = step['q'], step['r']
	c = {'genomes': case['genomes'], 'q': side(q), 'cores': step.get('cores'), 'progress': False}
	src_ks = [case['sigs'][s[1]]['ks'] for s in (q, r) if s[0] == 'sigs']
	if r[0] == 'db':
		c['r'] = {'files': [], 'db': True}
		c['dbdir'] = {'items': case['dbs'][r[1]]['items']}
		src_ks.append(case['dbs'][r[1]]['ks'])
	elif r[0] == 'square':
		c['r'] = {'files': [], 'square': True}
	else:
		c['r'] = side(r)
	ks = step.get('ks')
	eff = ks if ks is not None else (src_ks[0] if src_ks else None)
	c['kopt'] = ks is not None
	c['k'], c['prefix'] = case['kspecs'][eff] if eff is not None else DEFAULT_KSPEC
	return c, src_ks


def seq_command(case, step, wd):
	"""-> (args, out): the command line of a step over the pool below wd; step['bad'] breaks it in one way"""
	bad = step.get('bad')
	q, r = step['q'], step['r']
	usable = {'missing': 'list' in (q[0], r[0]), 'truncgz': 'files' in (q[0], r[0]), 'truncsigs': 'sigs' in (q[0], r[0]),
	          'kspec': 'sigs' in (q[0], r[0]) or r[0] == 'db', 'usage': True, 'outdir': True}
	if bad and not usable.get(bad):
		bad = 'outdir'
	done = []
	other = {'q': r, 'r': q}
	need = {'truncgz': 'files', 'missing': 'list', 'truncsigs': 'sigs'}.get(bad)

	def src_args(src, which):
		if need and not done and step.get('badside', which) != which and other[which][0] == need:
			return src_args_(src, which, False)       # the other side is the one to break
		return src_args_(src, which, True)

	def src_args_(src, which, may):
		if src[0] == 'files':
			a = [['-' + which, os.path.join(wd, 'p', case['files'][i][0])] for i in src[1]]
			if bad == 'truncgz' and may and not done:
				done.append(1)
				a.insert((len(a) + 1) // 2, ['-' + which, os.path.join(wd, 'bad-trunc.fa.gz')])
			return [t for g in a for t in g]
		if src[0] == 'list':
			name = f'l{src[1]}.txt'
			if bad == 'missing' and may and not done:
				done.append(1)
				name = 'bad-' + name
			return [f'--{which}l', os.path.join(wd, name), f'--{which}dir', os.path.join(wd, 'p2' if len(src) > 2 and src[2] else 'p')]
		if src[0] == 'sigs':
			name = f's{src[1]}.gs'
			if bad == 'truncsigs' and may and not done:
				done.append(1)
				name = 'bad-' + name
			return [f'--{which}s', os.path.join(wd, name)]
		return ['-d'] if src[0] == 'db' else ['-s']
	out = os.path.join(wd, 'nodir', 'out.csv') if bad == 'outdir' else os.path.join(wd, f'out{step.get("out", 0)}.csv')
	args = (['-d', os.path.join(wd, f'db{r[1]}')] if r[0] == 'db' else []) + ['dist', '-o', out, '--no-progress']
	ks = step.get('ks')
	if bad == 'kspec':
		ks = 1 - seq_step_case(case, step, [g for _, g in case['files']])[1][0]
	if ks is not None:
		args += ['-k', str(case['kspecs'][ks][0]), '-p', case['kspecs'][ks][1]]
	if step.get('cores') is not None:
		args += ['-c', str(step['cores'])]
	args += src_args(q, 'q') + src_args(r, 'r')
	if bad == 'usage':
		args += ['-r', os.path.join(wd, 'p', case['files'][0][0])] if r[0] == 'square' else ['-s']
	return args, out


def _table_nontrivial(exp, square):
	if exp[0] != 'ok':
		return False
	body = exp[1][1:]
	off = {c for a, row in enumerate(body) for b, c in enumerate(row[1:]) if not (square and a == b)}
	return len(body) >= 2 and len(exp[1][0]) >= 3 and len(off) >= 2 and (not square or len(body) >= 3)


def _model_table(m):
	return ('ok', [[from_cp(c) for c in row] for row in m[1]]) if m[0] == 0 else (ERR.get(m[1], f'err{m[1]}'),)


SEQ_SKIP = ('out0.csv', 'out1.csv', 'nodir')


def cliseq_run(case, wd):
	"""every step of a command sequence over the pool below wd, in order, in the calling process
	-> [{'obs': table or failure, 'changed': what happened to the input files ('' = nothing), 'args': command line}]"""
	_S.setdefault('seq', {})
	_S.setdefault('sig', {})
	recs = []
	for step in case['steps']:
		how = step.get('how', 'cli')
		if step.get('rewrite'):
			i, g = step['rewrite']
			rel = case['files'][i][0]
			_write_fasta(os.path.join(wd, 'p', rel), genome_seq(case['genomes'][g]), rel.endswith('.gz'))
		before = _tree_digest(wd, SEQ_SKIP)
		args, out = seq_command(case, step, wd)
		if os.path.exists(out):
			# the table of an earlier step stays in place, made longer: it has to be replaced, not patched
			with open(out, 'a') as f:
				f.write(SEQ_LEFTOVER)
		run = lambda: run_cli(args, out, proc=(how == 'proc'), keep=True)
		obs = _in_thread(run) if how == 'thread' else run()
		after = _tree_digest(wd, SEQ_SKIP)
		recs.append({'obs': obs, 'changed': _digest_diff(before, after) if after != before else '', 'args': args})
	return recs


def _cliseq_child(conn, case, wd, start_method):
	try:
		# a child of the fork server would start its own workers (calc_file_signatures) through that server; the command
		# under test starts them the way a plain Python process does
		import multiprocessing
		multiprocessing.set_start_method(start_method, force=True)
		conn.send(('ok', cliseq_run(case, wd)))
	except BaseException:          # reported to the parent
		import traceback
		conn.send(('error', traceback.format_exc()))
	finally:
		conn.close()


def cliseq_isolated(ctx, case, wd):
	"""cliseq_run in a process forked from a server that has imported gambit and has run nothing: what one sequence leaves
	behind in module globals, caches, OpenMP settings ... cannot reach another sequence, so a violation found in a campaign is
	reproduced by replaying that sequence alone.  (The in-process cli streams keep running all their cases in one process.)"""
	if os.environ.get('VERIF_C16_SEQ_INPROCESS'):
		ctx.count('cliseq:run-in-the-harness-process')
		return cliseq_run(case, wd)
	import multiprocessing as mp
	if 'mp' not in _S:
		c = mp.get_context('forkserver')
		c.set_forkserver_preload(['gambit.cli', 'gambit.cli.dist', 'click.testing', 'h5py', 'numpy', 'harness.c16'])
		_S['mp'] = c
	c = _S['mp']
	rd, wr = c.Pipe(duplex=False)
	p = c.Process(target=_cliseq_child, args=(wr, case, wd, mp.get_context().get_start_method()))
	p.start()
	wr.close()
	try:
		if not rd.poll(900):
			raise RuntimeError('cliseq: the sequence did not finish within 900 s')
		res = rd.recv()
	except EOFError:
		res = ('error', 'the process running the sequence died without an answer')
	finally:
		rd.close()
		p.join(30)
		if p.is_alive():
			p.kill()
	if res[0] != 'ok':
		raise RuntimeError('cliseq: ' + res[1])
	ctx.count('cliseq:run-in-a-fresh-process')
	return res[1]


def cliseq_records(ctx, case, wd):
	"""the records of the script, from a fresh process; should that machinery fail (not the script), from this process"""
	try:
		return cliseq_isolated(ctx, case, wd)
	except (RuntimeError, OSError, EOFError) as e:
		ctx.count('cliseq:fresh-process-failed-run-in-the-harness-process')
		ctx.extra['cliseq_fresh_process_failure'] = str(e)[-600:]
		for name in SEQ_SKIP[:2]:
			if os.path.exists(os.path.join(wd, name)):
				os.remove(os.path.join(wd, name))
		seq_build(case, wd)
		return cliseq_run(case, wd)


def k_cliseq(ctx, cases):
	"""a script of `gambit dist` runs over ONE pool of files, all in one process that has run nothing before (cliseq_isolated);
	every good step is judged like a cli case; the input files must stay as they were; the same command on the same inputs
	must write the same table"""
	import json
	plans, reqs, where = [], [], []
	for ci, case in enumerate(cases):
		wd = _workdir()
		cur = [g for _, g in case['files']]
		plan = []
		for n, step in enumerate(case['steps']):
			if step.get('rewrite'):
				cur = list(cur)
				cur[step['rewrite'][0]] = step['rewrite'][1]
			sc, _ = seq_step_case(case, step, cur)
			D, qrows = distances(sc)
			sc['_D'], sc['_wd'] = D, wd
			plan.append((step, sc, list(cur)))
			if not step.get('bad'):
				reqs.append((1601, [D, wire_params(sc, wd)]))
				where.append((ci, n))
		plans.append((case, wd, plan))
	ans = dict(zip(where, ctx.model(reqs))) if ctx.model_ok and reqs else {}
	for ci, (case, wd, plan) in enumerate(plans):
		seq_build(case, wd)
		recs = cliseq_records(ctx, case, wd)
		seen = {}
		good_nontrivial = 0
		failed = None
		for n, ((step, sc, cur), rec) in enumerate(zip(plan, recs)):
			bad = step.get('bad')
			obs = rec['obs']
			ctx.count('cliseq:steps')
			ctx.count('cliseq:how=' + step.get('how', 'cli'))
			if step.get('rewrite'):
				ctx.count('cliseq:file-rewritten-between-steps')
			desc = f'step {n} of {len(plan)} ({"built to fail: " + bad if bad else "good"}): gambit {" ".join(a.replace(wd, "$WD") for a in rec["args"])}'
			if rec['changed']:
				failed = (f'{desc}: the command changed its input files: {rec["changed"]}', obs, None)
				break
			if bad:
				ctx.count('cliseq:failing-step:' + bad)
				if obs[0] == 'ok':
					ctx.broke('correspondence cliseq (a step built to fail wrote a table)', f'{desc}: {str(obs)[:300]}: case {case}')
				continue
			exp = py_expected(sc)
			if exp[0] != 'ok':
				ctx.broke('harness cliseq (a good step without an expected table)', f'{desc}: {exp}: case {case}')
				continue
			if _table_nontrivial(exp, step['r'][0] == 'square'):
				good_nontrivial += 1
			ctx.count('cliseq:good-step-after-failing-step' if n and plan[n - 1][0].get('bad') else 'cliseq:good-step')
			if obs != exp:
				failed = (f'{desc}: {_first_diff(obs, exp)}', obs, exp)
				break
			m = ans.get((ci, n))
			if m is not None and _model_table(m) != exp:
				ctx.broke('correspondence cliseq (model of dist_cmd != implementation; expected table holds)',
				          f'{desc}: model={str(_short(_model_table(m)))[:400]}: case {case}')
			key = json.dumps([step['q'], step['r'], step.get('ks'), cur])
			if key in seen:
				ctx.count('cliseq:same-call-again')
				if seen[key][1] != obs:
					failed = (f'{desc}: the same command on the same inputs wrote another table at step {seen[key][0]}: {_first_diff(obs, seen[key][1])}', obs, seen[key][1])
					break
			seen[key] = (n, obs)
		ctx.case(case, nontrivial=good_nontrivial >= 2)
		if good_nontrivial >= 2:
			ctx.count('cliseq:nontrivial')
		if failed:
			ctx.violation('cliseq', case, 'sequence of gambit dist commands over one pool of files (run alone in a fresh process): ' + failed[0],
			              impl=_short(failed[1]), spec=_short(failed[2]) if failed[2] else None)


# -- library level: the calls dist_cmd makes, on shared Python objects -----------------------------------------------

def _lib_coll(case, c, wd, n, sigs):
	"""-> (signatures object as the caller holds it, ids object as the caller holds it, closer | None)"""
	import numpy as np
	from gambit.kmers import KmerSpec
	from gambit.sigs import SignatureList, SignatureArray, AnnotatedSignatures, SignaturesMeta, dump_signatures, load_signatures
	kspec = KmerSpec(case['k'], case['prefix'])
	dt = np.dtype(c['dtype']) if c.get('dtype') else kspec.index_dtype
	arrs = [sigs[g].astype(dt) for g in c['g']]
	form = c['form']
	close = None
	if form == 'list':
		obj = list(arrs)
	elif form == 'tuple':
		obj = tuple(arrs)
	elif form == 'siglist':
		obj = SignatureList(arrs, kspec, dtype=dt)
	elif form == 'sigarray':
		obj = SignatureArray(arrs, kspec, dtype=dt)
	elif form == 'h5':
		path = os.path.join(wd, f'coll{n}.gs')
		ids = np.array(list(c['ids']), dtype=object)
		dump_signatures(path, AnnotatedSignatures(SignatureList(arrs, kspec, dtype=dt), ids, SignaturesMeta(id_attr='key')), 'hdf5')
		obj = load_signatures(path)            # stays open for the whole sequence, as in dist_cmd
		close = obj.close
	else:
		raise ValueError(form)
	idf = c.get('idform', 'list')
	if idf == 'own' and form == 'h5':
		ids = obj.ids
	elif idf == 'tuple':
		ids = tuple(c['ids'])
	elif idf == 'np_obj':
		ids = np.empty(len(c['ids']), dtype=object)
		ids[:] = c['ids']
	elif idf == 'np_U':
		ids = np.array(c['ids'], dtype=str) if c['ids'] else np.array([], dtype='U1')
	else:
		ids = list(c['ids'])
	return obj, ids, close


def _obs_sigs(obj):
	"""what a caller can see of a signature collection: per signature dtype and bytes, k-mer parameters, own ids"""
	import numpy as np
	items = [(np.asarray(obj[i]).dtype.str, np.asarray(obj[i]).tobytes()) for i in range(len(obj))]
	ks = getattr(obj, 'kmerspec', None)
	extra = []
	for name in ('values', 'bounds'):
		a = getattr(obj, name, None)
		if isinstance(a, np.ndarray):
			extra.append((name, a.dtype.str, a.shape, a.tobytes()))
	own = getattr(obj, 'ids', None)
	return (type(obj).__name__, len(obj), items, (ks.k, bytes(ks.prefix)) if ks is not None else None, extra, _obs_ids(own) if own is not None else None,
	        str(getattr(obj, 'dtype', '')))


def _obs_ids(ids):
	import numpy as np
	if isinstance(ids, np.ndarray):
		return ('ndarray', ids.dtype.str, ids.shape, [repr(x) for x in ids.tolist()])
	return (type(ids).__name__, [repr(x) for x in ids])


def _lib_expected(case, D, step):
	"""-> (bit patterns of the matrix, expected table) for a good matrix / pairwise step"""
	Q = case['colls'][step['q']]
	if step['op'] == 'pairwise':
		n = len(Q['g'])
		bits = [[0 if a == b else D[Q['g'][min(a, b)]][Q['g'][max(a, b)]] for b in range(n)] for a in range(n)]
		R = Q
	else:
		R = case['colls'][step['r']]
		bits = [[D[g][h] for h in R['g']] for g in Q['g']]
	table = [[''] + [str(i) for i in R['ids']]] + [[str(i)] + [py_fmt4(b) for b in row] for i, row in zip(Q['ids'], bits)]
	return bits, ('ok', table)


class _Raiser:
	"""row ids handed over as an iterable that raises part-way (an error of the caller's own container)"""
	def __init__(self, ids, at):
		self.ids, self.at = list(ids), at

	def __iter__(self):
		for n, x in enumerate(self.ids):
			if n == self.at:
				raise RuntimeError('raised by the caller\'s container')
			yield x

	def __len__(self):
		return len(self.ids)


def k_libseq(ctx, cases):
	"""the calls dist_cmd makes (jaccarddist_matrix / jaccarddist_pairwise, then dump_dmat_csv; get_sequence_files) as a script
	over ONE pool of Python objects; judged per step by the expected table and bit patterns, plus: caller's objects unmodified,
	earlier results unchanged, same call same result"""
	import io
	import json
	import pathlib
	import numpy as np
	from gambit.metric import jaccarddist, jaccarddist_matrix, jaccarddist_pairwise
	from gambit.cluster import dump_dmat_csv
	from gambit.cli.common import get_sequence_files
	prepared, reqs, where = [], [], []
	for ci, case in enumerate(cases):
		k, prefix = case['k'], case['prefix']
		sigs = [genome_sig(g, k, prefix) for g in case['genomes']]
		D = [[f32_bits(jaccarddist(a, b)) for b in sigs] for a in sigs]
		exps = {}
		for n, step in enumerate(case['steps']):
			if step['op'] in ('matrix', 'pairwise'):
				exps[n] = _lib_expected(case, D, step)
				if not step.get('bad'):
					bits, (_, table) = exps[n]
					reqs.append((1605, [[[[b] for b in row] for row in bits], [to_cp(r[0]) for r in table[1:]], [to_cp(c) for c in table[0][1:]]]))
					where.append((ci, n))
		prepared.append((case, sigs, exps))
	ans = dict(zip(where, ctx.model(reqs))) if ctx.model_ok and reqs else {}
	for ci, (case, sigs, exps) in enumerate(prepared):
		wd = _workdir()
		closers = []
		failed = None
		try:
			pool = []
			for n, c in enumerate(case['colls']):
				obj, ids, close = _lib_coll(case, c, wd, n, sigs)
				pool.append((obj, ids))
				if close:
					closers.append(close)
			paths = [[(pathlib.Path(p) if pl.get('as') == 'path' else p) for p in pl['paths']] for pl in case.get('paths', [])]
			paths = [tuple(p) if pl.get('as') == 'tuple' else p for p, pl in zip(paths, case.get('paths', []))]
			bufs = {}
			sio = io.StringIO(newline='')
			text = open(os.path.join(wd, 'stream.csv'), 'w+', newline='', encoding='utf-8')
			closers.append(text.close)
			snap = lambda: ([(_obs_sigs(o), _obs_ids(i)) for o, i in pool], [(type(p).__name__, [repr(x) for x in p]) for p in paths])
			before = snap()
			results = []          # (step number, array returned, its bytes, buffer key | None)
			seen = {}
			good = 0
			for n, step in enumerate(case['steps']):
				bad = step.get('bad')
				op = step['op']
				desc = f'step {n} of {len(case["steps"])}: {json.dumps(step)}'
				ctx.count('libseq:steps')
				ctx.count('libseq:op=' + op)
				call = _in_thread if step.get('thread') else (lambda f: f())
				if step.get('thread'):
					ctx.count('libseq:second-thread')
				if op == 'seqfiles':
					pl = case['paths'][step['paths']]
					src = paths[step['paths']]
					if step.get('form') == 'listfile':
						lf = os.path.join(wd, f'paths{step["paths"]}.txt')
						with open(lf, 'w', encoding='utf-8') as f:
							f.write('\n'.join(pl['paths']) + '\n')
						ids, files = call(lambda: get_sequence_files(None, lf, 'some/dir'))
						exp_paths = [os.path.join('some/dir', p) for p in pl['paths']]
					else:
						ids, files = call(lambda: get_sequence_files(src))
						exp_paths = list(pl['paths'])
					exp = [py_label(p) for p in pl['paths']]
					if list(ids) != exp or [os.fspath(f) for f in files] != [os.fspath(pathlib.Path(p)) for p in exp_paths]:
						failed = (f'{desc}: get_sequence_files gave ids {ids!r}, files {[os.fspath(f) for f in files]!r}; expected ids {exp!r}', ids, exp)
						break
					# the lists handed back belong to the caller: changing them must not reach a later call
					ids.reverse()
					ids.append('changed-by-the-caller')
					del files[:]
					good += 1
				else:
					Qo, Qi = pool[step['q']]
					Ro, Ri = pool[step['r']] if op == 'matrix' else (Qo, Qi)
					bits, exp = exps[n]
					shape = (len(bits), len(bits[0]) if bits else len(Ri))
					kw = {}
					key = None
					if step.get('out') == 'new':
						kw['out'] = np.full(shape, np.float32(0.4321), dtype=np.float32)
					elif step.get('out') == 'reuse':
						key = shape
						kw['out'] = bufs.setdefault(shape, np.full(shape, np.float32(0.4321), dtype=np.float32))
					if bad == 'badout':
						kw['out'] = np.zeros((shape[0] + 1, shape[1]), dtype=np.float32)
					if op == 'matrix' and step.get('chunk'):
						kw['chunksize'] = step['chunk']
					qarg = Qo
					if bad == 'baddtype':
						items = [Qo[i] for i in range(len(Qo))]
						items.insert((len(items) + 1) // 2, np.array([0.5, 1.5]))
						qarg = items
					try:
						if op == 'matrix':
							dmat = call(lambda: jaccarddist_matrix(qarg, Ro, **kw))
						else:
							dmat = call(lambda: jaccarddist_pairwise(qarg, **kw))
						raised = None
					except Exception as e:      # noqa: judged below
						dmat, raised = None, e
					if bad in ('baddtype', 'badout'):
						ctx.count('libseq:failing-step:' + bad)
						# (a wrong element is only looked at when there is something to compare it with)
						if raised is None and (bad == 'badout' or (len(Ro) if op == 'matrix' else len(Qo))):
							ctx.broke('correspondence libseq (a call built to fail returned)', f'{desc}: case {case}')
					elif raised is not None:
						failed = (f'{desc}: raised {type(raised).__name__}: {raised}', None, exp)
						break
					else:
						got = np.asarray(dmat)
						if got.dtype != np.float32 or got.shape != shape or got.view(np.uint32).tolist() != bits:
							failed = (f'{desc}: the matrix returned is not the expected one (float32 bit patterns)',
							          got.view(np.uint32).tolist() if got.dtype == np.float32 else repr(got), bits)
							break
						if 'out' in kw and got.size and not np.shares_memory(got, kw['out']):
							failed = (f'{desc}: out= was given and the matrix returned is another array', None, None)
							break
						# an out= buffer handed over again is overwritten by documentation; every other earlier result must be as it was
						results[:] = [r for r in results if r[3] is None or r[3] != key]
						stored = got.tobytes()
						# dump
						rows_arg = Qi
						if bad == 'badids':
							rows_arg = list(Qi) + ['one-too-many']
						elif bad == 'raiseiter':
							rows_arg = _Raiser(Qi, len(Qi) // 2)
						dest = step.get('dest', 'path')
						start = None
						if dest == 'sio':
							target = sio
							start = len(sio.getvalue())
						elif dest == 'text':
							target = text
							text.flush()
							start = text.tell()
						elif dest == 'pathlib':
							target = pathlib.Path(wd, 'lib.csv')
						else:
							target = os.path.join(wd, 'lib.csv')
						try:
							call(lambda: dump_dmat_csv(target, dmat, rows_arg, Ri))
							raised = None
						except Exception as e:      # noqa: judged below
							raised = e
						if dmat.tobytes() != stored:
							failed = (f'{desc}: dump_dmat_csv changed the matrix it was given', np.asarray(dmat).view(np.uint32).tolist(), bits)
							break
						results.append((n, dmat, stored, key))
						if bad in ('badids', 'raiseiter'):
							ctx.count('libseq:failing-step:' + bad)
							if raised is None and (bad == 'badids' or len(Qi)):
								ctx.broke('correspondence libseq (a call built to fail returned)', f'{desc}: case {case}')
						elif raised is not None:
							failed = (f'{desc}: dump_dmat_csv raised {type(raised).__name__}: {raised}', None, exp)
							break
						else:
							if dest == 'sio':
								if sio.closed:
									failed = (f'{desc}: dump_dmat_csv closed the caller\'s file object', None, None)
									break
								obs = ('ok', [row for row in csv.reader(io.StringIO(sio.getvalue()[start:], newline=''))])
							elif dest == 'text':
								if text.closed:
									failed = (f'{desc}: dump_dmat_csv closed the caller\'s file object', None, None)
									break
								text.flush()
								text.seek(start)
								obs = ('ok', [row for row in csv.reader(text)])
								text.seek(0, 2)
							else:
								obs = _read_csv(os.path.join(wd, 'lib.csv'))
							if obs != exp:
								failed = (f'{desc}: {_first_diff(obs, exp)}', obs, exp)
								break
							m = ans.get((ci, n))
							if m is not None and _model_table(m) != exp:
								ctx.broke('correspondence libseq (model of dump_dmat_csv != implementation; expected table holds)', f'case {case}: {desc}')
							good += 1
							sk = json.dumps([op, step['q'], step.get('r')])
							if sk in seen:
								ctx.count('libseq:same-call-again')
								if seen[sk] != (bits, obs):
									failed = (f'{desc}: the same call on the same objects gave another result than before', obs, seen[sk][1])
									break
							seen[sk] = (bits, obs)
				after = snap()
				if after != before:
					which = [f'collection {i}' for i, (a, b) in enumerate(zip(before[0], after[0])) if a != b] + \
						[f'path list {i}' for i, (a, b) in enumerate(zip(before[1], after[1])) if a != b]
					failed = (f'{desc}: the call changed an object of the caller: {", ".join(which)}', None, None)
					break
				stale = [r[0] for r in results if np.asarray(r[1]).tobytes() != r[2]]
				if stale:
					failed = (f'{desc}: the matrix returned by step {stale[0]} changed afterwards (a result aliases hidden state)', None, None)
					break
				if bad:
					ctx.count('libseq:failing-steps')
			nontriv = good >= 2 and any(len(c['g']) >= 2 for c in case['colls'])
			ctx.case(case, nontrivial=nontriv)
			if nontriv:
				ctx.count('libseq:nontrivial')
		finally:
			for c in closers:
				try:
					c()
				except Exception:
					pass
		if failed:
			ctx.violation('libseq', case, 'sequence of library calls (distance matrix, CSV writer, sequence-file ids) over one pool of objects: ' + failed[0],
			              impl=_short(failed[1]) if isinstance(failed[1], tuple) else failed[1], spec=_short(failed[2]) if isinstance(failed[2], tuple) else failed[2])


# -- size class: a side of 1001 .. 2500 signatures (kind size) -------------------------------------------------------

SIZE_MID = [1001, 1002, 1024, 1026, 1500]  # block + 1 (the last size ONE block of 1000 / 1024 columns after a row serves), block + 2, inside
SIZE_TOP = [2049, 2050, 2500]              # the same around 2048, and above 2 x 1024 + 2 / 2 x 1000 + 2
SIZE_KSPECS = [(5, 'AC'), (6, 'AT'), (7, 'ATG'), (8, 'GA'), (11, 'ATGAC'), (16, 'AT')]


def size_sets(case):
	"""the signatures of a size-class case, from its seed: every signature holds lo..maxlen k-mer indices out of a universe of
	`univ` indices (few distinct signatures, few distinct distances)  ->  (queries, references) as lists of sorted tuples;
	with r = 'square' / 'same' the references ARE the queries"""
	rng = random.Random(case['seed'])
	U = rng.sample(range(4 ** case['k']), case['univ'])
	lo = 0 if case.get('empty') else 1
	hi = min(case['maxlen'], case['univ'])

	def draw(n):
		return [tuple(sorted(rng.sample(U, rng.randint(lo, hi)))) for _ in range(n)]
	Q = draw(case['nq'])
	R = Q if case['r'] in ('square', 'same') else draw(case['nr'])
	return Q, R


def size_ids(style, n, tag):
	if style == 'int':
		return [str(1000 + 3 * i) for i in range(n)]
	if style == 'dup':
		return [f'{tag}{i % 7}' for i in range(n)]            # labels that repeat
	if style == 'odd':
		return [f'{tag} {i}, "x"' if i % 3 == 0 else f'{tag}/{i}.fa' for i in range(n)]      # need CSV quoting
	return [f'{tag}{i:04d}' for i in range(n)]


def size_tables(Q, R, k, prefix):
	"""equal signatures form a class; per pair (query class, reference class): the exact distance 1 - |A n B| / |A u B| (0 for two
	empty sets) rounded half-even to four decimals as text, and the binary32 pattern the distance kernel returns for one
	representative pair.  -> (class of every query, class of every reference, text[a][b], bits[a, b], kernel_agrees)"""
	import numpy as np
	from gambit.kmers import KmerSpec
	from gambit.metric import jaccarddist
	dt = KmerSpec(k, prefix).index_dtype
	cq, cr = {}, {}
	qc = [cq.setdefault(s, len(cq)) for s in Q]
	rc = [cr.setdefault(s, len(cr)) for s in R]
	qs, rs = list(cq), list(cr)
	qa = [np.array(x, dtype=dt) for x in qs]
	ra = [np.array(y, dtype=dt) for y in rs]
	rset = [frozenset(y) for y in rs]
	text = []
	bits = np.zeros((len(qs), len(rs)), dtype=np.uint32)
	agrees = True
	for a, x in enumerate(qs):
		sx = frozenset(x)
		row = []
		for b, sy in enumerate(rset):
			u = len(sx | sy)
			d = Fraction(0) if u == 0 else 1 - Fraction(len(sx & sy), u)
			n = round(d * 10000)
			row.append(f'{n // 10000}.{n % 10000:04d}')
			bits[a, b] = f32_bits(jaccarddist(qa[a], ra[b]))
			if py_fmt4(int(bits[a, b])) != row[-1]:
				agrees = False
		text.append(row)
	return qc, rc, text, bits, agrees


def _size_poison(shape):
	"""a block of the size of the distance matrix, filled with NaN, is allocated and released just before the run: a cell the
	implementation never writes then tends to show as nan rather than as a plausible leftover of an earlier matrix"""
	import numpy as np
	p = np.full(shape, np.nan, dtype=np.float32)
	del p


def _size_table_diff(rows, qids, rids, qc, ROW, square):
	"""None if the parsed CSV is the expected table, else (description, excerpt of what was read, excerpt of what was expected)"""
	if len(rows) != len(qids) + 1:
		return f'{len(rows)} CSV rows, expected {len(qids) + 1}', None, None
	if rows[0] != [''] + rids:
		j = next((j for j, (c, e) in enumerate(zip(rows[0], [''] + rids)) if c != e), min(len(rows[0]), len(rids) + 1))
		return f'header has {len(rows[0])} fields (expected {len(rids) + 1}), first difference at column {j}', rows[0][max(0, j - 2):j + 3], ([''] + rids)[max(0, j - 2):j + 3]
	bad = [i for i, row in enumerate(rows[1:]) if row[:1] != [qids[i]] or row[1:] != ROW[qc[i]]]
	if not bad:
		return None
	i = bad[0]
	row, exp = rows[i + 1], [qids[i]] + ROW[qc[i]]
	if len(row) != len(exp):
		return f'row {i + 1} has {len(row)} fields, expected {len(exp)}', row[:6], exp[:6]
	j = next(j for j, (c, e) in enumerate(zip(row, exp)) if c != e)
	what = f'{"label" if j == 0 else "cell"} at row {i + 1} ({qids[i]!r}) column {j} ({rids[j - 1]!r}) is {row[j]!r}, expected {exp[j]!r}' if j else \
		f'label of row {i + 1} is {row[0]!r}, expected {exp[0]!r}'
	ncell = sum(1 for i2 in bad if len(rows[i2 + 1]) == len(ROW[qc[i2]]) + 1 for c, e in zip(rows[i2 + 1][1:], ROW[qc[i2]]) if c != e)
	what += f'; {ncell} wrong cells in {len(bad)} wrong rows'
	if ncell and square and all(len(r) == len(rows[0]) for r in rows):
		n = len(qids)
		asym = sum(1 for a in bad for b in range(n) if rows[a + 1][b + 1] != rows[b + 1][a + 1])
		diag = sum(1 for a in bad if rows[a + 1][a + 1] != '0.0000')
		what += f'; the square table is not symmetric at {asym} cells of these rows, {diag} diagonal cells are not 0.0000'
	return what, {'row': i + 1, 'col': j, 'cells': row[max(1, j - 2):j + 3]}, {'row': i + 1, 'col': j, 'cells': exp[max(1, j - 2):j + 3]}


def _size_cli(ctx, case, Q, R, qc, rc, text, wd):
	"""gambit dist with a side of the size class, supplied as signature file / database; the whole CSV against the expected
	table; --square also against the run with the queries on both sides"""
	k, prefix = case['k'], case['prefix']
	nq, nr = len(Q), len(R)
	square = case['r'] == 'square'
	qclasses = sorted(set(qc), key=qc.index)
	reps_q = {c: Q[qc.index(c)] for c in qclasses}
	genomes, gq = [], {}
	for c in qclasses:
		gq[c] = len(genomes)
		genomes.append({'syn': list(reps_q[c])})
	style = case.get('ids', 'plain')
	qids = size_ids(style, nq, 'q')
	qf = os.path.join(wd, 'q-sigs.gs')
	_write_sigs(qf, [[qids[i], gq[qc[i]]] for i in range(nq)], genomes, k, prefix, style == 'int', case.get('dtype'), case.get('idkind'))
	root, side = [], []
	if square:
		rids = qids
		side = ['-s']
	else:
		gr = {}
		for c in sorted(set(rc), key=rc.index):
			gr[c] = len(genomes)
			genomes.append({'syn': list(R[rc.index(c)])})
		rids = size_ids(style, nr, 'r')
		items = [[rids[i], gr[rc[i]]] for i in range(nr)]
		if case['r'] == 'db':
			_make_db(os.path.join(wd, 'db'), items, genomes, k, prefix, style == 'int', case.get('dtype'), case.get('idkind'))
			root, side = ['-d', os.path.join(wd, 'db')], ['-d']
		else:
			rf = os.path.join(wd, 'r-sigs.gs')
			_write_sigs(rf, items, genomes, k, prefix, style == 'int', case.get('dtype'), case.get('idkind'))
			side = ['--rs', rf]
	opts = ['--no-progress']
	if case.get('kopt'):
		opts += ['-k', str(k), '-p', prefix]
	if case.get('cores') is not None:
		opts += ['-c', str(case['cores'])]
	out = os.path.join(wd, 'out.csv')
	args = root + ['dist', '-o', out] + opts + ['--qs', qf] + side
	ROW = {c: [text[c][rc[j]] for j in range(nr)] for c in set(qc)}
	_size_poison((nq, nr))
	obs = run_cli(args, out)
	shown = [a.replace(wd, '$WD') for a in args]
	desc = f'gambit {" ".join(shown)} ({nq} queries x {nr} references)'
	if obs[0] != 'ok':
		return f'{desc}: the command failed ({str(obs)[:300]}) where a table was expected', obs, None
	diff = _size_table_diff(obs[1], qids, rids, qc, ROW, square)
	if diff:
		return f'{desc}: {diff[0]}', diff[1], diff[2]
	if square:
		ctx.count('size:square-both-sides')
		out2 = os.path.join(wd, 'both.csv')
		args2 = ['dist', '-o', out2] + opts + ['--qs', qf, '--rs', qf]
		_size_poison((nq, nq))
		obs2 = run_cli(args2, out2)      # the two files are compared as bytes first (equal bytes, equal tables)
		with open(out, 'rb') as f1, open(out2, 'rb') as f2:
			same = obs2[0] == 'ok' and f1.read() == f2.read()
		if not same and obs2 != obs:
			return (f'{desc}: --square differs from supplying the queries on both sides (--qs X --rs X): {_first_diff(obs2, obs)}',
			        _short(obs), _short(obs2))
	return None


def _size_lib(ctx, case, Q, R, qc, rc, bits, wd):
	"""jaccarddist_pairwise / jaccarddist_matrix as dist_cmd calls them, on collections of the size class; out= prefilled with NaN
	shows every cell that is not written"""
	import numpy as np
	from gambit.kmers import KmerSpec
	from gambit.sigs import SignatureList, SignatureArray, AnnotatedSignatures, SignaturesMeta, dump_signatures, load_signatures
	from gambit.metric import jaccarddist_matrix, jaccarddist_pairwise
	kspec = KmerSpec(case['k'], case['prefix'])
	dt = np.dtype(case['dtype']) if case.get('dtype') else kspec.index_dtype
	closers = []

	def coll(S, name):
		arrs = [np.array(x, dtype=dt) for x in S]
		form = case.get('form', 'sigarray')
		if form == 'list':
			return arrs
		if form == 'siglist':
			return SignatureList(arrs, kspec, dtype=dt)
		if form == 'h5':
			path = os.path.join(wd, name + '.gs')
			ids = np.array([f'{name}{i}' for i in range(len(S))], dtype=object)
			dump_signatures(path, AnnotatedSignatures(SignatureList(arrs, kspec, dtype=dt), ids, SignaturesMeta(id_attr='key')), 'hdf5')
			obj = load_signatures(path)           # open during the call, as in dist_cmd
			closers.append(obj.close)
			return obj
		return SignatureArray(arrs, kspec, dtype=dt)
	try:
		qo = coll(Q, 'q')
		pairwise = case['op'] == 'pairwise'
		ro = qo if case['r'] in ('square', 'same') else coll(R, 'r')
		shape = (len(Q), len(R))
		kw = {}
		if case.get('out') == 'nan':
			kw['out'] = np.full(shape, np.nan, dtype=np.float32)
		else:
			_size_poison(shape)
		if not pairwise and case.get('chunk'):
			kw['chunksize'] = case['chunk']
		desc = f'{"jaccarddist_pairwise(sigs" if pairwise else "jaccarddist_matrix(queries, " + ("queries" if ro is qo else "refs")}' + \
			''.join(f', {k}={"<float32 array filled with NaN>" if k == "out" else v}' for k, v in kw.items()) + \
			f') on {case.get("form", "sigarray")} collections of {shape[0]} x {shape[1]} signatures'
		try:
			got = jaccarddist_pairwise(qo, **kw) if pairwise else jaccarddist_matrix(qo, ro, **kw)
		except Exception as e:      # noqa: a good call
			return f'{desc}: raised {type(e).__name__}: {e}', None, None
		got = np.asarray(got)
		if got.dtype != np.float32 or got.shape != shape:
			return f'{desc}: returned dtype {got.dtype} shape {got.shape}, expected float32 {shape}', None, None
		if 'out' in kw and not np.shares_memory(got, kw['out']):
			return f'{desc}: out= was given and the matrix returned is another array', None, None
		E = bits[np.ix_(qc, rc)] if len(Q) and len(R) else np.zeros(shape, dtype=np.uint32)
		G = got.view(np.uint32)
		if not np.array_equal(G, E):
			wrong = np.argwhere(G != E)
			i, j = (int(x) for x in wrong[0])
			what = f'{desc}: {len(wrong)} cells differ from the distance of their pair (float32 bit patterns), first at [{i}, {j}]: {float(got[i, j])!r}, expected {float(E.view(np.float32)[i, j])!r}'
			nan = int(np.isnan(got).sum())
			if nan:
				what += f'; {nan} cells still hold the NaN of the buffer handed over / released before the call (never written)'
			if shape[0] == shape[1] and ro is qo:
				what += f'; not symmetric at {int((G != G.T).sum())} cells, {int((np.diagonal(G) != 0).sum())} diagonal cells are not +0.0'
			return what, {'at': [i, j], 'value': repr(float(got[i, j])), 'bits': int(G[i, j])}, {'at': [i, j], 'value': repr(float(E.view(np.float32)[i, j])), 'bits': int(E[i, j])}
		return None
	finally:
		for c in closers:
			try:
				c()
			except Exception:
				pass


def k_size(ctx, cases):
	"""size class: one side (or both) holds 1001 .. 2500 signatures.  mode cli: gambit dist --qs X with -s / --rs Y / -d, the whole
	CSV against the expected table (labels in order, every cell = exact distance rounded to four decimals; --square: hence
	symmetric with zero diagonal, and equal to the --qs X --rs X run).  mode lib: the kernel calls dist_cmd makes, float32 bit
	patterns of every cell.  No Coq model here (a table of 10^6 .. 10^7 cells is not sent over the wire): the oracle is the
	class table of size_tables."""
	for case in cases:
		Q, R = size_sets(case)
		qc, rc, text, bits, agrees = size_tables(Q, R, case['k'], case['prefix'])
		off = {text[a][b] for a in set(qc) for b in set(rc)}
		nontriv = max(len(Q), len(R)) > 1000 and min(len(Q), len(R)) >= 1 and len(off) >= 2
		ctx.case(case, nontrivial=nontriv)
		ctx.count('size:mode=' + case['mode'] + ':' + (case.get('op') or case['r']))
		ctx.count('size:n>2000' if max(len(Q), len(R)) > 2000 else ('size:n>1001' if max(len(Q), len(R)) > 1001 else 'size:n<=1001'))
		if nontriv:
			ctx.count('size:nontrivial')
		if not agrees:
			ctx.broke('hypothesis of kind size (the distance kernel on a pair of tiny signatures, rounded to four decimals, is the exact '
			          'Jaccard distance rounded to four decimals; C02/C05)', f'case {case}')
		wd = _workdir()
		if case['mode'] == 'cli':
			fail = _size_cli(ctx, case, Q, R, qc, rc, text, wd)
		else:
			fail = _size_lib(ctx, case, Q, R, qc, rc, bits, wd)
		if fail:
			ctx.violation('size', case, 'size class (a side of more than 1000 signatures): ' + fail[0], impl=fail[1], spec=fail[2])
		import shutil
		shutil.rmtree(wd, ignore_errors=True)      # tens of megabytes of CSV per case


KINDS = {'cli': k_cli, 'fmt': k_fmt, 'dump': k_dump, 'label': k_label, 'ids': k_ids, 'cliseq': k_cliseq, 'libseq': k_libseq, 'size': k_size}


# ------------------------------------------------------------------------------------------------
# generators
# ------------------------------------------------------------------------------------------------

STEM_CHARS = 'abcXYZ019_-.'
ODD_CHARS = [',', '"', ' ', ';', '#', "'", 'é', '中', '=', '(', '\t']
EXTS = ['.fasta', '.fna', '.ffn', '.faa', '.frn', '.fa', '.fa', '.fasta', '', '.txt', '.fas', '.FASTA', '.fa.fa', '.gz.fa', '.fasta.fna']
PADS = ['', '', ' ', '  ', '\t', ' \t', '\x0c', '\x0b', '\xa0', ' ', '\x1c', '\x85']


def rand_stem(rng, list_ok=True):
	n = rng.choice([0, 1, 1, 2, 3, 5, 8])
	s = ''.join(rng.choice(STEM_CHARS) for _ in range(n))
	if rng.random() < 0.3:
		pos = rng.randint(0, len(s))
		s = s[:pos] + rng.choice(ODD_CHARS) + s[pos:]
	if not list_ok and rng.random() < 0.08:
		pos = rng.randint(0, len(s))
		s = s[:pos] + rng.choice(['\n', '\r']) + s[pos:]
	if rng.random() < 0.1:
		s += rng.choice(['.fa', '.gz', '.fasta'])
	return s


def rand_name(rng, used, list_ok=True):
	"""relative path of a sequence file, unique, a valid file name"""
	for _ in range(50):
		stem = rand_stem(rng, list_ok)
		name = stem + rng.choice(EXTS) + rng.choice(['', '', '.gz'])
		if list_ok:
			name = name.strip()
		if not name or name in ('.', '..') or name != name.strip() and list_ok:
			continue
		sub = rng.choice(['', '', 'sub/', 'a b/c/', 'x.fa/'])
		rel = sub + name
		if len(name.encode()) > 200 or any(rel == u or rel.startswith(u + '/') or u.startswith(rel + '/') for u in used):
			continue
		used.add(rel)
		return rel
	rel = f'g{len(used)}.fasta'
	used.add(rel)
	return rel


def rand_id(rng, used):
	for _ in range(50):
		s = rand_stem(rng, list_ok=False) + rng.choice(['', '', '.fasta', '/1', ' x'])
		if s not in used and '\x00' not in s:
			used.add(s)
			return s
	s = f'id{len(used)}'
	used.add(s)
	return s


def rand_genomes(rng, n):
	"""a few families of related sequences (small and large distances), identical copies, an empty genome"""
	fams = [rng.randrange(10 ** 6) for _ in range(max(1, n // 3))]
	out = []
	for i in range(n):
		r = rng.random()
		ln = rng.choice([600, 1500, 3000, 6000])
		fam = rng.choice(fams)
		if r < 0.08:
			out.append({'fam': fam, 'len': 0})
		elif r < 0.3:
			out.append({'fam': fam, 'len': 3000})
		else:
			out.append({'fam': fam, 'len': 3000 if r < 0.8 else ln, 'mut': rng.randrange(10 ** 6), 'rate': rng.choice([0.002, 0.01, 0.05, 0.2])})
	return out


def syn_genomes(rng):
	"""synthetic signatures whose distances are odd/32 (exact ties at the fourth decimal) and other small ratios"""
	c = rng.choice(range(1, 32, 2))
	s = (c + 1) // 2
	a = 32 - c + s
	off = rng.choice([0, 0, 100, 1000])
	A = [off + x for x in range(0, a)]
	B = [off + x for x in range(s, 32)]
	return [{'syn': A}, {'syn': B}, {'syn': []}, {'syn': [off + x for x in range(rng.randint(1, 40))]}]


def make_list(rng, entries, genomes_n):
	"""list-file text for entries [(rel, g)], with padding, blank lines and different line ends"""
	eol = rng.choice(['\n', '\n', '\r\n', '\r'])
	lines = []
	for rel, g in entries:
		if rng.random() < 0.25:
			lines.append(rng.choice(['', ' ', '\t ']))
		lines.append(rng.choice(PADS) + rel + rng.choice(PADS))
	text = eol.join(lines)
	if lines and rng.random() < 0.7:
		text += eol
	return text


def rand_side(rng, way, pick, list_ok_names=True):
	"""way in files|list|sigs ; pick() -> genome index"""
	n = rng.choice([0, 1, 1, 2, 2, 3, 3, 4, 5, 6]) if way != 'files' else rng.choice([1, 1, 2, 2, 3, 3, 4, 5, 6])
	used = set()
	if way == 'files':
		return {'files': [[rand_name(rng, used, list_ok=False), pick()] for _ in range(n)]}
	if way == 'list':
		ent = [[rand_name(rng, used), pick()] for _ in range(n)]
		fs = list(ent)
		# a file may be listed twice; extra files may exist
		if ent and rng.random() < 0.2:
			ent.append(rng.choice(ent))
		if rng.random() < 0.2:
			fs.append([rand_name(rng, used), pick()])
		return {'files': [], 'list': {'text': make_list(rng, ent, 0), 'fs': fs}}
	if way == 'sigs':
		n = max(n, 1)
		if rng.random() < 0.15:
			base = rng.randrange(1000)
			return {'files': [], 'sigs': {'items': [[str(base + 7 * i), pick()] for i in range(n)], 'int_ids': True}}
		return {'files': [], 'sigs': {'items': [[rand_id(rng, used), pick()] for _ in range(n)]}}
	raise ValueError(way)


def rand_case(rng, qway, rway, syn=False):
	k, prefix = rng.choice(KSPECS)
	if syn:
		genomes = syn_genomes(rng) + rand_genomes(rng, 2)
		k, prefix = rng.choice([(6, 'AT'), (7, 'ATG'), (8, 'GA')])
	else:
		genomes = rand_genomes(rng, rng.randint(2, 7))
	seqg = [i for i, g in enumerate(genomes) if 'syn' not in g]
	allg = list(range(len(genomes)))

	def pick_for(way):
		pool = allg if way in ('sigs', 'db') else seqg
		return lambda: rng.choice(pool)

	case = {'k': k, 'prefix': prefix, 'genomes': genomes}
	case['q'] = rand_side(rng, qway, pick_for(qway))
	if rway in ('files', 'list', 'sigs'):
		case['r'] = rand_side(rng, rway, pick_for(rway))
	elif rway == 'db':
		case['r'] = {'files': [], 'db': True}
		used = set()
		n = rng.randint(1, 6)
		if rng.random() < 0.15:
			case['dbdir'] = {'items': [[str(3 + 5 * i), pick_for('db')()] for i in range(n)], 'int_ids': True}
		else:
			case['dbdir'] = {'items': [[rand_id(rng, used), pick_for('db')()] for _ in range(n)]}
	else:
		case['r'] = {'files': [], 'square': True}
	uses_sigs = qway == 'sigs' or rway in ('sigs', 'db')
	case['kopt'] = (rng.random() < 0.5) if uses_sigs else (rng.random() < 0.85)
	case['cores'] = rng.choice([None, 1, 2, 3, 4])
	case['progress'] = rng.choice([True, False])
	return case


def malformed(rng):
	"""command lines the model rejects: two options of a group, none, a listed file that does not exist, -d without a database"""
	out = []
	base = lambda: rand_case(rng, 'files', 'files')
	c = base(); c['q'] = dict(c['q'], sigs={'items': [['s1', 0]]}); c['kopt'] = True; out.append(c)
	c = base(); c['q'] = dict(c['q'], list={'text': 'a.fa\n', 'fs': [['a.fa', 0]]}); out.append(c)
	c = base(); c['q'] = {'files': []}; out.append(c)
	c = base(); c['r'] = {'files': []}; out.append(c)
	c = base(); c['r'] = dict(c['r'], square=True); out.append(c)
	c = base(); c['r'] = dict(c['r'], db=True); c['dbdir'] = {'items': [['d1', 0]]}; c['kopt'] = True; out.append(c)
	c = rand_case(rng, 'files', 'db'); c['dbdir'] = None; c['kopt'] = True; out.append(c)
	c = rand_case(rng, 'files', 'sigs'); c['r'] = dict(c['r'], square=True); c['kopt'] = True; out.append(c)
	c = rand_case(rng, 'files', 'square'); c['r'] = dict(c['r'], list={'text': 'a.fa\n', 'fs': [['a.fa', 0]]}); out.append(c)
	c = rand_case(rng, 'list', 'files'); c['q']['list']['text'] += 'missing-file.fasta\n'; out.append(c)
	c = rand_case(rng, 'files', 'list'); c['r']['list']['text'] = 'nothing-here.fa\n' + c['r']['list']['text']; out.append(c)
	return out


def fmt_stream(ctx, rng):
	import numpy as np
	# every tie: odd/32, and neighbours
	for c in range(1, 32, 2):
		b = f32_bits(c / 32)
		for x in (b - 1, b, b + 1):
			yield 'fmt', x
	for c in (1, 3, 5, 33, 63, 65, 12345):
		yield 'fmt', f32_bits(c / 32)
		yield 'fmt', f32_bits(-c / 32)
	ctx.count('stream:fmt-ties')
	# every ratio s/u a Jaccard distance of small sets can take
	umax = ctx.pick(48, 128)
	seen = set()
	for u in range(1, umax + 1):
		for s in range(0, u + 1):
			b = f32_bits(np.float32(s) / np.float32(u))
			if b not in seen:
				seen.add(b)
				yield 'fmt', b
	ctx.count('stream:fmt-small-ratios', len(seen))
	# all multiples of 2^-13 in [0,1]
	for i in range(0, 2 ** 13 + 1, ctx.pick(3, 1)):
		yield 'fmt', f32_bits(i / 8192)
	# decimal boundaries: x.xxxx5 neighbourhoods
	for _ in range(ctx.pick(1500, 20000)):
		n = rng.randrange(0, 10001)
		b = f32_bits((n + 0.5) / 10000)
		yield 'fmt', b + rng.randint(-2, 2)
	# specials and extremes
	for b in (0, 2 ** 31, 1, 2 ** 31 + 1, 0x007FFFFF, 0x00800000, 0x3F800000, 0x3F7FFFFF, 0x3F800001, 0x7F7FFFFF, 0xFF7FFFFF,
	          0x7F800000, 0xFF800000, 0x7FC00000, 0xFFC00000, 0x7F800001, 0x4B000000, 0x4B800000, 0x38D1B717, 0x3851B717, 0x3851B716):
		yield 'fmt', b
	ctx.count('stream:fmt-special')
	# random patterns: in [0,1], anywhere
	for _ in range(ctx.pick(3000, 60000)):
		yield 'fmt', f32_bits(rng.random())
		yield 'fmt', rng.randrange(2 ** 32)
		yield 'fmt', f32_bits(rng.random() * 10 ** rng.randint(-8, 3))


def dump_stream(ctx, rng):
	for _ in range(ctx.pick(150, 1500)):
		nr, nc = rng.randint(0, 5), rng.randint(0, 5)
		used = set()
		m = [[rng.choice([f32_bits(rng.random()), f32_bits(rng.choice(range(1, 32, 2)) / 32), 0, 0x3F800000, f32_bits(rng.random() * 3 - 1)])
		      for _ in range(nc)] for _ in range(nr)]
		rows = [rand_id(rng, used) for _ in range(nr)]
		cols = [rand_id(rng, used) for _ in range(nc)]
		r = rng.random()
		if r < 0.1 and nc > 0:
			rows = rows + ['extra']
			ctx.count('stream:malformed')
		elif r < 0.2 and nr > 0 and nc > 0:
			rows = rows[:-1]
			ctx.count('stream:malformed')
		yield 'dump', {'m': m, 'rows': rows, 'cols': cols}


def label_stream(ctx, rng):
	for stem in ['', 'a', 'a.b', 'x.fa', '.fasta', 'a.gz', '.gz', 'fasta', 'a.fasta.gz.gz', 'afa', 'a.f', 'gz']:
		for ext in EXTS + ['.gz', '.fa.gz.gz', '.fasta.gz', '.fagz', 'fa', '.fa.', '.fna.fna']:
			for d in ['', 'd/', '/abs/dir/', './', 'x.fasta/', '//']:
				yield 'label', d + stem + ext
	for _ in range(ctx.pick(2000, 30000)):
		used = set()
		yield 'label', rng.choice(['', '/tmp/', 'a/b/', './', '../']) + rand_name(rng, used, list_ok=False)


# ------------------------------------------------------------------------------------------------
# audit streams: input classes / spellings / channels the grid above does not reach
# ------------------------------------------------------------------------------------------------

VKSPECS = [(12, 'AT'), (16, 'AT'), (17, 'AT'), (20, 'TA'), (32, 'GA'), (11, 'ATGAC'), (9, 'ACG'), (5, 'AT')]
INT_KINDS = ['u1', 'i2', 'u2', 'i4', 'u4', 'i8', 'u8']


def wider_dtypes(k, prefix):
	"""integer types that can store every index of a k-mer of length k, other than the KmerSpec's own"""
	bits = 2 * k
	return [t for t, b in (('u2', 16), ('i4', 31), ('u4', 32), ('i8', 63), ('u8', 64)) if b >= bits]


def vary_store(rng, src, k, prefix):
	"""a signature file / database stored with another value dtype and another kind of id array"""
	if rng.random() < 0.6:
		src['dtype'] = rng.choice(wider_dtypes(k, prefix))
	ids = [i for i, _ in src['items']]
	if src.get('int_ids'):
		hi = max([int(i) for i in ids] + [0])
		src['idkind'] = rng.choice([t for t in INT_KINDS if hi < 2 ** (8 * int(t[1]) - (t[0] == 'i'))])
	elif rng.random() < 0.6:
		ascii_ok = all(i.isascii() and '\x00' not in i for i in ids)
		src['idkind'] = rng.choice(['U', 'S'] if ascii_ok else ['U'])


def variant_case(rng, qw, rw, proc=False):
	"""a case of the grid, spelled / supplied / stored differently (see `variant`)"""
	c = rand_case(rng, qw, rw)
	v = {}
	if rng.random() < 0.5:
		c['k'], c['prefix'] = rng.choice(VKSPECS)
	if rng.random() < 0.5:
		v['long'] = True
	if rng.random() < 0.6:
		v['order'] = rng.randrange(10 ** 6)
	if rng.random() < 0.35:
		v['cwd'] = True
	if rng.random() < 0.4:
		v['stale'] = True
	if rng.random() < 0.5:
		v['gzflip'] = rng.randrange(3)
	if c['kopt'] and rng.random() < 0.5:
		v['pcase'] = rng.choice(['lower', 'mixed'])
	if c['cores'] is None or rng.random() < 0.3:
		c['cores'] = rng.choice([None, 1, 1, 2, 2, 5, 8, 16])        # more workers than files, than processors
	for which in ('q', 'r'):
		side = c[which]
		if side.get('list') is not None:
			side['list']['pre'] = rng.choice([None, 'abs', 'absdir', 'rel'])
			if side['list']['pre'] == 'rel':
				v['cwd'] = True
		if side.get('sigs') is not None:
			vary_store(rng, side['sigs'], c['k'], c['prefix'])
	if rw == 'db':
		vary_store(rng, c['dbdir'], c['k'], c['prefix'])
		if rng.random() < 0.5:
			v['dbenv'] = True
	elif rng.random() < 0.3:
		# a database is configured (option or environment) but the references come from elsewhere: it must be ignored
		used = set()
		c['dbdir'] = {'items': [[rand_id(rng, used), rng.randrange(len(c['genomes']))] for _ in range(rng.randint(1, 3))]}
		if rng.random() < 0.5:
			v['dbenv'] = True
	if proc:
		v['proc'] = True
	c['v'] = v
	return c


def dup_side(rng, way, pick, pool):
	"""a side with labels that occur more than once: different files with the same derived label, the same path given
	twice, repeated ids in a signature file"""
	n = rng.randint(2, 5)
	if way in ('files', 'list'):
		base = rng.choice(pool)
		cands = [base + '.fa', base + '.fasta', base + '.fa.gz', 'sub/' + base + '.fna', 'x.fa/' + base, base + '.frn.gz', 'a b/c/' + base + '.faa', base]
		rng.shuffle(cands)
		names = cands[:n]
		used = set(names)
		if rng.random() < 0.5:
			names.insert(rng.randint(0, len(names)), rand_name(rng, used, list_ok=(way == 'list')))
		ent = [[nm, pick()] for nm in names]
		uniq = list(ent)
		if rng.random() < 0.6:
			ent.insert(rng.randint(0, len(ent)), list(rng.choice(ent)))      # the very same path once more
		if way == 'files':
			return {'files': ent}
		return {'files': [], 'list': {'text': make_list(rng, ent, 0), 'fs': uniq}}
	if rng.random() < 0.2:
		# integer ids that repeat (finding F1, repaired; see module docstring)
		return {'files': [], 'sigs': {'items': [[str(rng.choice([3, 3, 11])), pick()] for _ in range(n + 1)], 'int_ids': True}}
	ids = [rng.choice(pool + [pool[0] + '.fa']) for _ in range(n)]
	return {'files': [], 'sigs': {'items': [[i, pick()] for i in ids]}}


def dup_case(rng, qw, rw):
	c = rand_case(rng, qw, rw)
	seqg = list(range(len(c['genomes'])))
	pick = lambda: rng.choice(seqg)
	pool = rng.choice([['a', 'b'], ['g 1', 'a'], ['x,y', 'z'], ['s.t', 's']])     # both sides draw labels from the same pool
	c['q'] = dup_side(rng, qw, pick, pool)
	if rw in ('files', 'list', 'sigs'):
		c['r'] = dup_side(rng, rw, pick, pool)
	elif rw == 'db':
		c['dbdir'] = dict(dup_side(rng, 'sigs', pick, pool)['sigs'])
	uses_sigs = qw == 'sigs' or rw in ('sigs', 'db')
	c['kopt'] = (rng.random() < 0.5) if uses_sigs else True
	return c


def empty_case(rng, qw, rw):
	"""one or both sides are the empty set (an empty list file, a signature file / database without signatures)"""
	c = rand_case(rng, qw, rw)
	el = lambda: {'files': [], 'list': {'text': rng.choice(['', '\n', ' \n\t\r\n', '\r']), 'fs': []}}
	es = lambda: {'files': [], 'sigs': {'items': []}}
	can_q = qw in ('list', 'sigs')
	can_r = rw in ('list', 'sigs', 'db')
	which = rng.choice([w for w, ok in (('q', can_q), ('r', can_r), ('qr', can_q and can_r)) if ok] or ['none'])
	if 'q' in which:
		c['q'] = el() if qw == 'list' else es()
	if 'r' in which:
		if rw == 'db':
			c['dbdir'] = {'items': []}
		else:
			c['r'] = el() if rw == 'list' else es()
	return c


def many_case(rng, qw, rw):
	"""larger sets (12..30 on a side) of short genomes"""
	fams = [rng.randrange(10 ** 6) for _ in range(3)]
	genomes = [{'fam': rng.choice(fams), 'len': 600, 'mut': rng.randrange(10 ** 6), 'rate': rng.choice([0.002, 0.01, 0.05, 0.2])}
	           for _ in range(rng.randint(8, 14))]
	k, prefix = rng.choice([(5, 'AT'), (6, 'AT'), (5, 'AC')])
	c = {'k': k, 'prefix': prefix, 'genomes': genomes}
	pick = lambda: rng.randrange(len(genomes))

	def side(way):
		n = rng.randint(12, 30)
		used = set()
		if way == 'files':
			return {'files': [[f'd{i % 3}/m{i}.fa' + rng.choice(['', '.gz']), pick()] for i in range(n)]}
		if way == 'list':
			ent = [[f'm{i}.fna', pick()] for i in range(n)]
			return {'files': [], 'list': {'text': make_list(rng, ent, 0), 'fs': ent}}
		return {'files': [], 'sigs': {'items': [[f'id{(i * 7) % n}-{i}', pick()] for i in range(n)]}}

	c['q'] = side(qw)
	if rw in ('files', 'list', 'sigs'):
		c['r'] = side(rw)
	elif rw == 'db':
		c['r'] = {'files': [], 'db': True}
		c['dbdir'] = dict(side('sigs')['sigs'])
	else:
		c['r'] = {'files': [], 'square': True}
	c['kopt'] = True
	c['cores'] = rng.choice([None, 2, 3, 4])
	c['progress'] = rng.choice([True, False])
	return c


def dump_forms_stream(ctx, rng):
	"""dump_dmat_csv on the same kind of matrices, handed over in other forms"""
	layouts = ['F', 'T', 'strided', 'rev', 'be', 'f8', 'rows', 'C']
	for n in range(ctx.pick(200, 2000)):
		nr, nc = rng.randint(0, 6), rng.randint(0, 6)
		if n < 40:
			nr, nc = rng.randint(2, 6), rng.randint(2, 6)
		used = set()
		m = [[rng.choice([f32_bits(rng.random()), f32_bits(rng.choice(range(1, 32, 2)) / 32), 0, 0x3F800000, f32_bits(rng.random() * 3 - 1)])
		      for _ in range(nc)] for _ in range(nr)]
		form = {'layout': layouts[n % len(layouts)], 'file': rng.choice(['str', 'path', 'text', 'stringio', 'kw'])}
		for side, cnt in (('rows', nr), ('cols', nc)):
			form[side] = rng.choice(['list', 'tuple', 'np_obj', 'np_U', 'np_int', 'ints'])
		rows = [str(rng.randrange(-50, 10 ** 6)) for _ in range(nr)] if form['rows'] in ('np_int', 'ints') else [rand_id(rng, used) for _ in range(nr)]
		cols = [str(rng.randrange(-50, 10 ** 6)) for _ in range(nc)] if form['cols'] in ('np_int', 'ints') else [rand_id(rng, used) for _ in range(nc)]
		if rng.random() < 0.08 and nc > 0 and form['layout'] != 'rows':
			rows = rows + [rows[-1] if rows else '7']
			ctx.count('stream:malformed')
		elif nr == nc and rng.random() < 0.5:
			# one object as row ids and column ids (what --square does)
			form['cols'] = form['rows']
			cols = list(rows)
			form['alias'] = True
			ctx.count('stream:dump-forms-one-ids-object')
		ctx.count('stream:dump-forms')
		yield 'dump', {'m': m, 'rows': rows, 'cols': cols, 'form': form}


def ids_stream(ctx, rng):
	forms = ['explicit-str', 'explicit-path', 'explicit-tuple', 'file-id-path', 'file-id-purepath', 'listfile-textio', 'listfile-path']
	for n in range(ctx.pick(350, 3500)):
		form = forms[n % len(forms)]
		used = set()
		k = rng.choice([1, 2, 3, 5]) if n % 11 or form.startswith('file-id') else 0
		paths = [rng.choice(['', '/tmp/', 'a/b/', './', '../', '/']) + rand_name(rng, used, list_ok=form.startswith('listfile')) for _ in range(k)]
		if paths and rng.random() < 0.3:
			paths.insert(rng.randint(0, len(paths)), rng.choice(paths))
		ctx.count('stream:ids-forms')
		yield 'ids', {'paths': paths, 'form': form}


GZC_EXTS = ['.fasta', '.fna', '.fa', '.ffn', '.frn', '.faa', '']


def gzc_case(rng, qw, rw, modes, big=False):
	"""the genome-file channel fed with gzip CONTAINERS: a few related genomes, each written as a plain file and as gzip files
	of the flavours handed out by `modes` (an endless iterator over GZC_MODES), with and without a '.gz' suffix (the content
	decides, the label only looks at the name), supplied as files / list file on either side, against each other, --square, or
	against the same genomes from a signature file / database.  The expected table is that of the genomes, as everywhere."""
	fam = rng.randrange(10 ** 6)
	if big:
		# default parameters (11 / ATGAC need long genomes), files of 2..3 real bgzip blocks of 65280 bytes
		k, prefix, kopt = 11, 'ATGAC', False
		lens = [rng.choice([140000, 170000, 200000]) for _ in range(3)]
	else:
		k, prefix = rng.choice(KSPECS)
		kopt = True
		lens = [rng.choice([1500, 3000, 3000, 6000]) for _ in range(rng.randint(3, 4))]
	genomes = [{'fam': fam, 'len': lens[0]}]
	for ln in lens[1:]:
		genomes.append({'fam': fam, 'len': ln, 'mut': rng.randrange(10 ** 6), 'rate': rng.choice([0.01, 0.03, 0.05, 0.1])})
	n = len(genomes)
	gzc = {}
	used = [0]

	def name(mode, tag):
		used[0] += 1
		gzname = rng.random() < (0.25 if mode == 'plain' else 0.7)       # a plain file may be called .gz, a gzip file need not
		rel = rng.choice(['', '', 'sub/']) + f'{tag}{used[0]}{mode[0]}' + rng.choice(GZC_EXTS) + ('.gz' if gzname else '')
		gzc[rel] = [mode, rng.randrange(1 << 30)]
		return rel

	def side(way, which, plain_share):
		order = list(range(n))
		rng.shuffle(order)
		if way in ('files', 'list'):
			ent = []
			for g in order:
				mode = 'plain' if rng.random() < plain_share else (rng.choice(['bgzf', 'multi']) if big else next(modes))
				ent.append([name(mode, which), g])
			if way == 'files':
				return {'files': ent}
			return {'files': [], 'list': {'text': make_list(rng, ent, 0), 'fs': ent}}
		ids = set()
		return {'files': [], 'sigs': {'items': [[rand_id(rng, ids), g] for g in order]}}

	case = {'k': k, 'prefix': prefix, 'genomes': genomes, 'kopt': kopt}
	case['q'] = side(qw, 'q', 0.15)
	if rw in ('files', 'list'):
		# the other side: mostly the plain files of the same genomes (a container read short shows as a non-zero distance to
		# its own plain file), some as another container
		case['r'] = side(rw, 'r', 0.6 if qw != 'sigs' else 0.0)
	elif rw == 'sigs':
		case['r'] = side('sigs', 'r', 0)
	elif rw == 'db':
		case['r'] = {'files': [], 'db': True}
		ids = set()
		case['dbdir'] = {'items': [[rand_id(rng, ids), g] for g in range(n)]}
	else:
		case['r'] = {'files': [], 'square': True}
	if qw == 'sigs' or rw in ('sigs', 'db'):
		case['kopt'] = rng.random() < 0.5
	case['cores'] = rng.choice([None, 1, 2, 3])
	case['progress'] = False
	case['v'] = {'gzc': gzc}
	if rng.random() < 0.3:
		case['v']['long'] = True
	return case


def gzc_stream(ctx, rng):
	order = list(GZC_MODES)
	rng.shuffle(order)

	def forever():
		while True:
			yield from order
	modes = forever()
	# every way of handing over genome FILES, on either side; the signature file / database as the other side ties the file
	# channel to the stored signatures of the same genomes
	ways = [('files', 'files'), ('list', 'list'), ('files', 'square'), ('list', 'square'), ('files', 'list'), ('list', 'files'),
	        ('files', 'sigs'), ('sigs', 'list'), ('list', 'db'), ('sigs', 'files'), ('files', 'db')]
	for rd in range(ctx.pick(1, 8)):
		for qw, rw in (ways[:9] if rd == 0 else ways):
			ctx.count('stream:cli-gzip-containers')
			yield 'cli', gzc_case(rng, qw, rw, modes)
	for qw, rw in [('files', 'files')] + [rng.choice(ways[:6]) for _ in range(ctx.pick(0, 5))]:
		ctx.count('stream:cli-gzip-containers')
		yield 'cli', gzc_case(rng, qw, rw, modes, big=True)


def audit_streams(ctx, rng):
	qways, rways = ['files', 'list', 'sigs'], ['files', 'list', 'sigs', 'db', 'square']
	grid = [(q, r) for q in qways for r in rways]
	# (a) spellings, channels, storage: every supply combination, several times
	for _ in range(ctx.pick(4, 30)):
		for qw, rw in grid:
			ctx.count('stream:cli-variants')
			yield 'cli', variant_case(rng, qw, rw)
	# (b) labels that occur more than once
	for _ in range(ctx.pick(1, 10)):
		for qw, rw in grid:
			ctx.count('stream:cli-duplicate-labels')
			yield 'cli', dup_case(rng, qw, rw)
	# (c) empty sides
	for qw, rw in rng.sample([g for g in grid if g[0] != 'files' or g[1] in ('list', 'sigs', 'db')], ctx.pick(8, 11)) * ctx.pick(1, 5):
		ctx.count('stream:cli-empty-sides')
		yield 'cli', empty_case(rng, qw, rw)
	# (d) larger sets
	for _ in range(ctx.pick(3, 20)):
		ctx.count('stream:cli-many')
		yield 'cli', many_case(rng, rng.choice(qways), rng.choice(rways))
	# (e) the command as a real process (`python -m gambit`)
	procs = [('files', 'list'), ('list', 'db'), ('sigs', 'files')] + [rng.choice(grid) for _ in range(ctx.pick(0, 9))]
	for qw, rw in procs:
		ctx.count('stream:cli-process')
		yield 'cli', variant_case(rng, qw, rw, proc=True)
	# (f) genome files as gzip containers other than the single member gzip.open writes
	yield from gzc_stream(ctx, rng)
	yield from dump_forms_stream(ctx, rng)
	yield from ids_stream(ctx, rng)


# ------------------------------------------------------------------------------------------------
# sequence streams (state and aliasing audit)
# ------------------------------------------------------------------------------------------------

SEQ_IDS = ['a', 'b', 'g 1', 'x,y', '7', 'a.fa', 's.t']


SEQ_THEMES = ('orders', 'dbs', 'params', 'dirs', 'rewrite', 'fail', 'repeat', 'sigfiles')


def rand_cliseq(rng, theme=None, proc=False):
	"""a pool of files (several with the same derived label, a second directory with the same names and other contents,
	signature files / databases of different sizes with ids in common, two k-mer parameter sets that collide in k or in the
	prefix) and a script of 2..6 commands over it, made of blocks: 'orders' (two sources in both roles), 'dbs' (one query set
	against two databases and back), 'params' (the same sequence files under -k/-p A, B, none), 'dirs' (one list file against two
	directories and back), 'rewrite' (a file gets another content between two runs), 'fail' (a step broken in one way -- with
	other parameters or an older file content -- just before its good twin), 'repeat' (a step verbatim after another one),
	'sigfiles' (two signature files with ids in common against the same references)"""
	genomes = rand_genomes(rng, rng.randint(4, 7))
	ng = len(genomes)
	kspecs = [list(x) for x in rng.choice(KS_PAIRS)]
	if rng.random() < 0.5:
		kspecs.reverse()
	base = rng.choice(['a', 'g 1', 'x,y', 's.t'])
	names = [base + '.fa', 'sub/' + base + '.fasta.gz', 'b.fna', 'c.fa.gz', 'sub/d.fasta', base + '2.frn', 'x.fa/' + base]
	rng.shuffle(names)
	files = [[n, rng.randrange(ng)] for n in names[:rng.randint(3, 6)]]
	nf = len(files)
	lists = []
	for size in rng.sample([1, 2, 3, 4, 5], 2):
		idx = [rng.randrange(nf) for _ in range(size)]
		lists.append({'text': make_list(rng, [[files[i][0], 0] for i in idx], 0)})

	def items(n):
		ids = [rng.choice(SEQ_IDS) if rng.random() < 0.7 else rand_id(rng, set()) for _ in range(n)]
		return [[i, rng.randrange(ng)] for i in ids]
	sizes = rng.sample([1, 2, 3, 4, 5, 6], 5)
	sig_ks = [0, 0, 1]
	rng.shuffle(sig_ks)
	sigs = [{'items': items(sizes[i]), 'ks': sig_ks[i]} for i in range(3)]
	for s in sigs:
		if rng.random() < 0.3:
			vary_store(rng, s, *kspecs[s['ks']])
	dbs = [{'items': items(sizes[3]), 'ks': 0}, {'items': items(sizes[4]), 'ks': rng.choice([0, 0, 1])}]
	case = {'genomes': genomes, 'kspecs': kspecs, 'files': files, 'dir2': [rng.randrange(ng) for _ in files], 'lists': lists, 'sigs': sigs, 'dbs': dbs}

	def src_ks(step):
		return seq_step_case(case, step, [g for _, g in files])[1]

	def rand_src(ways):
		way = rng.choice(ways)
		if way == 'files':
			return ['files', [rng.randrange(nf) for _ in range(rng.choice([1, 2, 2, 3, 4]))]]
		if way == 'list':
			return ['list', rng.randrange(2)] + ([1] if rng.random() < 0.3 else [])
		if way == 'sigs':
			return ['sigs', rng.randrange(3)]
		return ['db', rng.randrange(2)] if way == 'db' else ['square']

	def fix_ks(step):
		"""-k/-p: not given, or the parameters the signature sources have (a mismatch is C14's subject)"""
		ks = src_ks(step)
		if len(set(ks)) > 1:
			return None
		step['ks'] = rng.choice([None, ks[0]]) if ks else rng.choice([None, 0, 1])
		return step

	def rand_step(qways=('files', 'list', 'sigs'), rways=('files', 'list', 'sigs', 'db', 'square')):
		while True:
			st = fix_ks({'q': rand_src(qways), 'r': rand_src(rways)})
			if st:
				return st

	def a_file(step):
		"""a file of directory p the step reads (None: it reads none)"""
		for x in (step['q'], step['r']):
			if x[0] == 'files':
				return rng.choice(x[1])
			if x[0] == 'list' and len(x) == 2 and py_lines(lists[x[1]]['text']):
				return [f[0] for f in files].index(rng.choice(py_lines(lists[x[1]]['text'])))
		return None

	def broken(s, g):
		"""step s broken in one way, to run just before the good step g"""
		kinds = ['usage', 'outdir', 'outdir', 'outdir'] + (['missing'] * 2 if 'list' in (s['q'][0], s['r'][0]) else []) + \
			(['truncgz'] * 2 if 'files' in (s['q'][0], s['r'][0]) else []) + (['truncsigs', 'kspec'] if src_ks(s) else [])
		b = {k: v for k, v in s.items() if k != 'rewrite'}
		if not src_ks(s) and rng.random() < 0.7:
			b['ks'] = rng.choice([k for k in (None, 0, 1) if k != g.get('ks')])     # the failing call differs from the next good one
		return dict(b, bad=rng.choice(kinds), badside=rng.choice(['q', 'r']))

	def block(th):
		if th == 'orders':
			s = rand_step(rways=('files', 'list', 'sigs'))
			return [s, dict(s, q=s['r'], r=s['q'])] + ([dict(s)] if rng.random() < 0.3 else [])
		if th == 'dbs':
			a = rng.randrange(2)
			while True:
				s = fix_ks({'q': rand_src(('files', 'list', 'sigs')), 'r': ['db', a]})
				t = s and fix_ks(dict(s, r=['db', 1 - a]))
				if s and t:
					return [s, t, dict(s)]
		if th == 'params':
			s = rand_step(('files', 'list'), ('files', 'list', 'square'))
			order = rng.sample([None, 0, 1], 3)
			if order[-1] is not None and rng.random() < 0.7:
				order = order[1:] + [None]
			return [dict(s, ks=k) for k in order]
		if th == 'dirs':
			s = rand_step(('list',)) if rng.random() < 0.5 else rand_step(rways=('list',))
			flip = lambda src: ['list', src[1]] + ([] if len(src) > 2 and src[2] else [1]) if src[0] == 'list' else src
			return [s, dict(s, q=flip(s['q']), r=flip(s['r']))] + ([dict(s)] if rng.random() < 0.6 else [])
		if th == 'rewrite':
			while True:
				s = rand_step()
				fi = a_file(s)
				if fi is not None:
					return [s, dict(s, rewrite=[fi, rng.randrange(ng)])]
		if th == 'fail':
			g = rand_step()
			fi = a_file(g)
			if fi is not None and rng.random() < 0.4:
				return [g, broken(g, g), dict(g, rewrite=[fi, rng.randrange(ng)])]
			return [broken(g, g), g]
		if th == 'repeat':
			s = rand_step()
			return [s, rand_step(), dict(s)]
		if th == 'sigfiles':
			same = [i for i in range(3) if sigs[i]['ks'] == 0]
			rng.shuffle(same)
			while True:
				s = fix_ks({'q': ['sigs', same[0]], 'r': rand_src(('files', 'list', 'sigs', 'db', 'square'))})
				if s:
					return [s, dict(s, q=['sigs', same[1]])] + ([dict(s)] if rng.random() < 0.4 else [])
		raise ValueError(th)
	steps = [rand_step()] if rng.random() < 0.5 else []
	for th in ([theme] if theme else []) + rng.sample(SEQ_THEMES, 2):
		b = block(th)
		if len(steps) + len(b) <= 6:
			steps += b
	if len(steps) < 2:
		steps.append(rand_step())
	if len(steps) <= 5 and not any(s.get('bad') for s in steps) and rng.random() < 0.6:
		# one more failing call: a step of the script, broken, before another one
		n = rng.randrange(len(steps))
		steps.insert(n, broken(steps[n] if rng.random() < 0.6 else rng.choice(steps), steps[n]))
	steps = [dict(s) for s in steps]
	for s in steps:
		s['cores'] = rng.choice([None, None, 1, 2, 3, 4])
		s['out'] = rng.choice([0, 0, 1])
		if rng.random() < 0.15:
			s['how'] = 'thread'
	if proc:
		rng.choice(steps)['how'] = 'proc'
	case['steps'] = steps
	return case


def rand_libseq(rng):
	"""a pool of signature collections (plain list / tuple, SignatureList, SignatureArray, an open signature file) of
	different sizes and value types with their id containers, and a script of 2..6 library calls over it"""
	k, prefix = rng.choice(KSPECS)
	genomes = rand_genomes(rng, rng.randint(3, 6))
	if rng.random() < 0.3:
		genomes += syn_genomes(rng)[:2]
		k, prefix = rng.choice([(6, 'AT'), (7, 'ATG'), (8, 'GA')])
	ng = len(genomes)
	colls = []
	for size in rng.sample([0, 1, 2, 3, 3, 4, 5], rng.randint(2, 4)):
		form = rng.choice(['list', 'tuple', 'siglist', 'sigarray', 'sigarray', 'h5', 'h5'])
		c = {'g': [rng.randrange(ng) for _ in range(size)], 'form': form,
		     'ids': [rng.choice(SEQ_IDS) if rng.random() < 0.6 else rand_id(rng, set()) for _ in range(size)]}
		if rng.random() < 0.4:
			c['dtype'] = rng.choice(wider_dtypes(k, prefix))
		c['idform'] = rng.choice(['own', 'own', 'list']) if form == 'h5' else rng.choice(['list', 'tuple', 'np_obj', 'np_U'])
		colls.append(c)
	if not any(len(c['g']) >= 2 for c in colls):
		colls[0]['g'] = [rng.randrange(ng) for _ in range(3)]
		colls[0]['ids'] = ['a', 'b', 'a']
	nc = len(colls)
	used = set()
	paths = [{'paths': [rng.choice(['', '/tmp/', 'a/b/', './']) + rand_name(rng, used, list_ok=True) for _ in range(rng.randint(1, 4))],
	          'as': rng.choice(['str', 'path', 'tuple'])} for _ in range(2)]

	def rand_step():
		r = rng.random()
		if r < 0.12:
			return {'op': 'seqfiles', 'paths': rng.randrange(2), 'form': rng.choice(['explicit', 'explicit', 'listfile'])}
		st = {'op': 'pairwise', 'q': rng.randrange(nc)} if r < 0.4 else {'op': 'matrix', 'q': rng.randrange(nc), 'r': rng.randrange(nc)}
		st['dest'] = rng.choice(['path', 'path', 'pathlib', 'sio', 'sio', 'text'])
		if rng.random() < 0.4:
			st['out'] = rng.choice(['new', 'reuse', 'reuse'])
		if st['op'] == 'matrix' and rng.random() < 0.2:
			st['chunk'] = rng.randint(1, 3)
		return st
	steps = [rand_step() for _ in range(rng.randint(2, 4))]
	mats = [s for s in steps if s['op'] == 'matrix' and s['q'] != s['r']]
	if mats and rng.random() < 0.6:
		s = rng.choice(mats)
		steps.insert(rng.randint(steps.index(s) + 1, len(steps)), dict(s, q=s['r'], r=s['q']))
	if rng.random() < 0.6:
		steps.append(dict(rng.choice(steps)))
	steps = steps[:5]
	if rng.random() < 0.6:
		cand = [n for n, s in enumerate(steps) if s['op'] != 'seqfiles']
		if cand:
			n = rng.choice(cand)
			s = steps[n]
			kinds = ['badout', 'badids'] + (['raiseiter'] if colls[s['q']]['g'] else []) + (['baddtype'] * 2 if colls[s['r' if s['op'] == 'matrix' else 'q']]['g'] else [])
			steps.insert(n, dict(s, bad=rng.choice(kinds)))
	for s in steps:
		if rng.random() < 0.12:
			s['thread'] = True
	return {'k': k, 'prefix': prefix, 'genomes': genomes, 'colls': colls, 'paths': paths, 'steps': steps}


def seq_streams(ctx, rng):
	for n in range(ctx.pick(16, 160)):
		ctx.count('stream:seq-cli')
		yield 'cliseq', rand_cliseq(rng, theme=SEQ_THEMES[n % len(SEQ_THEMES)], proc=(n % ctx.pick(16, 7) == 3))
	for _ in range(ctx.pick(160, 2000)):
		ctx.count('stream:seq-lib')
		yield 'libseq', rand_libseq(rng)


def size_stream(ctx, rng):
	"""size class (kind size): sides of 1001 .. 2500 tiny signatures.  cli: --qs X with --square (judged against the expected
	table and against --qs X --rs X), with --rs Y and with -d (one side of the class, the other of 1..5; in thorough also both);
	lib: jaccarddist_pairwise / jaccarddist_matrix on SignatureArray / SignatureList / plain list / open signature file, out= absent
	or prefilled with NaN, chunksize absent or around the sizes.  quick keeps the CSV work small: one square table above 1001,
	the sizes above 2000 through a narrow table and through the library calls"""
	def base(mode, nq, r, nr=None):
		k, prefix = rng.choice(SIZE_KSPECS)
		c = {'mode': mode, 'k': k, 'prefix': prefix, 'seed': rng.randrange(10 ** 6), 'univ': rng.randint(4, 8), 'maxlen': rng.randint(2, 4), 'nq': nq, 'r': r}
		if nr is not None:
			c['nr'] = nr
		if rng.random() < 0.25:
			c['empty'] = True
		if rng.random() < 0.3:
			c['dtype'] = rng.choice(wider_dtypes(k, prefix))
		return c

	def cli(nq, r, nr=None):
		c = base('cli', nq, r, nr)
		c['ids'] = rng.choice(['plain', 'plain', 'int', 'dup', 'odd'])
		if c['ids'] == 'int' and rng.random() < 0.5:
			c['idkind'] = rng.choice(['i4', 'u4', 'i8', 'u8'])
		elif c['ids'] in ('plain', 'dup') and rng.random() < 0.4:
			c['idkind'] = rng.choice(['U', 'S'])
		c['cores'] = rng.choice([None, 1, 2, 3, 4])
		c['kopt'] = rng.random() < 0.5
		return c

	def lib(op, nq, r, nr=None):
		c = base('lib', nq, r, nr)
		c['op'] = op
		c['form'] = rng.choice(['sigarray', 'sigarray', 'h5', 'h5', 'siglist', 'list'])
		if rng.random() < 0.7:
			c['out'] = 'nan'
		if op == 'matrix' and rng.random() < 0.7:
			n = nq if nr is None else nr
			c['chunk'] = rng.choice([1000, 1001, 999, 1024, 512, 256, n - 1, n, n + 1, n // 2, n // 2 + 1])
		return c
	between = lambda: rng.choice([rng.randint(1002, 1100), rng.randint(1002, 2600)])
	# the square table through the command line
	for n in ctx.pick([rng.choice([1026, rng.randint(1027, 1200)])], SIZE_MID + SIZE_TOP + [between() for _ in range(3)]):
		ctx.count('stream:size-class')
		yield 'size', cli(n, 'square')
	# one side of the class against a few, references from a signature file / the database; thorough: both sides of the class
	rect = [(rng.randint(1, 5), rng.choice(SIZE_TOP), rng.choice(['sigs', 'db'])), (rng.choice(SIZE_MID[1:] + SIZE_TOP), rng.randint(1, 4), rng.choice(['sigs', 'db']))]
	rect += ctx.pick([], [(rng.randint(1, 5), n, w) for n in SIZE_MID + SIZE_TOP for w in ('sigs', 'db')] + [(n, rng.randint(1, 5), 'sigs') for n in SIZE_MID + SIZE_TOP] +
	                 [(1100, 1030, 'db'), (1002, 1500, 'sigs'), (between(), between(), rng.choice(['sigs', 'db']))])
	for nq, nr, way in rect:
		ctx.count('stream:size-class')
		yield 'size', cli(nq, way, nr)
	# the kernel calls of dist_cmd
	for n in ctx.pick([rng.choice([2050, rng.randint(2051, 2300)])], (SIZE_MID + SIZE_TOP) * 2 + [between() for _ in range(4)]):
		ctx.count('stream:size-class')
		yield 'size', lib('pairwise', n, 'square')
	for n in ctx.pick([rng.choice(SIZE_MID[1:])], SIZE_MID + SIZE_TOP + [between() for _ in range(2)]):
		ctx.count('stream:size-class')
		yield 'size', lib('matrix', n, 'same')
	for nq, nr in ctx.pick([(rng.randint(1, 6), rng.choice(SIZE_MID[1:] + SIZE_TOP))], [(rng.randint(1, 6), n) for n in SIZE_MID + SIZE_TOP] + [(n, rng.randint(1, 6)) for n in SIZE_TOP] + [(1030, 1100)]):
		ctx.count('stream:size-class')
		yield 'size', lib('matrix', nq, 'sigs', nr)


def finish(ctx):
	"""report order: a cliseq violation is replayed alone in a fresh process and shows itself there; a cli case found in the
	same campaign may owe its failure to what EARLIER cases left in the harness process (its single-case replay then shows
	nothing).  The sequence violations go first."""
	ctx.violations.sort(key=lambda v: 0 if v.get('kind') == 'cliseq' else 1)       # stable


def generate(ctx):
	rng = ctx.rng
	ctx.rule(RULE)
	for a in ASSUMPTIONS:
		ctx.assume(a)
	# every combination of the 3 x 5 ways, several times (first round before the other kinds)
	qways, rways = ['files', 'list', 'sigs'], ['files', 'list', 'sigs', 'db', 'square']
	rounds = ctx.pick(10, 60)
	for rd in range(rounds):
		for qw in qways:
			for rw in rways:
				ctx.count('stream:cli-ways-grid')
				yield 'cli', rand_case(rng, qw, rw, syn=False)
		if rd == 0:
			yield from fmt_stream(ctx, rng)
			yield from label_stream(ctx, rng)
			yield from dump_stream(ctx, rng)
	ctx.exhaustive = False
	ctx.extra['ways_grid'] = f'each of the 3 x 5 supply combinations {rounds} times (+ synthetic-signature and test-database cases)'
	# synthetic signatures: exact ties through the command line (signature file / database sources)
	for _ in range(ctx.pick(12, 120)):
		qw = 'sigs'
		rw = rng.choice(['sigs', 'db', 'square', 'sigs'])
		ctx.count('stream:cli-synthetic-ties')
		yield 'cli', rand_case(rng, qw, rw, syn=True)
	# the repository's test database as reference side
	for _ in range(ctx.pick(2, 6)):
		c = rand_case(rng, rng.choice(['files', 'list']), 'db')
		c['k'], c['prefix'] = 6, 'AT'
		c['dbdir'] = {'testdb': True}
		ctx.count('stream:cli-testdb')
		yield 'cli', c
	yield from audit_streams(ctx, rng)
	yield from size_stream(ctx, rng)
	yield from seq_streams(ctx, rng)
	# malformed command lines
	for c in malformed(rng):
		ctx.count('stream:malformed')
		yield 'cli', c

