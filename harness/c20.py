"""C20 -- signature collections index like NumPy sequences and compare by content.

Tie: B.  SignatureArray (fresh and as a contiguous view), SignatureList and HDF5Signatures (scratch
files written with dump_signatures, opened with load_signatures) are indexed with the same index
expressions as a plain Python list of the same signatures.  The oracle of the property is CPython's
own list (`l[i]`, `l[a:b:s]`, `[l[i] for i in idx]`, mask filter); the extracted Coq specification
(Spec/C20.v list_getitem, op 2003) must agree with that oracle and the extracted model of the
indexing code (Model/C20.v, op 2001 = with repo_fixes/C20.diff, op 2002 = as found) with the
implementation.  impl != list oracle is a violation with the input as replay; impl == oracle but
model != impl, or Coq spec != CPython list, is a broken correspondence."""
import itertools
import os

PROP = 'C20'
RULE = ('getitem: (backing, signatures, index expression) -> signature / sub-collection items + type + k-mer '
        'parameters + dtype / error class, and the caller\'s index array afterwards; non-trivial: >= 2 signatures '
        'and the expression is not a plain in-range non-negative int.  mutate: history of list mutations on a '
        'SignatureList vs a plain list (state and outcome after every step); non-trivial: >= 3 steps of which one '
        'fails or uses a negative index.  eq: two collections (any backings) -> ==, !=; non-trivial: same length, '
        'differing in at most one element / parameter / dtype.')
TRUSTED = ['CPython list indexing/slicing/mutation is the oracle ("what a plain list would do")',
           'NumPy / h5py array reads (integer lookup, basic slice, np.arange, np.flatnonzero, np.cumsum, np.copyto) '
           'modelled as list functions in Model/C20.v',
           'collections.abc Sequence.__iter__ / MutableSequence mix-ins (pop, append) modelled from their source']
ASSUMPTIONS = ['fewer than 2^63 signatures; slice steps fit Py_ssize_t (theorem hypothesis idx_fits); np.arange lengths exact',
               'signature values fit the collection dtype (np.copyto casting=unsafe is not modelled)',
               'C20_index_unmodified is explored (caller arrays compared before/after), not proved: the Coq model is '
               'pure and has no caller-owned mutable array',
               'slice assignment / deletion, extend, reverse, clear, += on SignatureList are compared with a plain list '
               'only (not in the Coq model); bool scalars as indices are not exercised']
CORRESPONDENCES = ['getitem', 'mutate', 'eq']
SHRINK = False

ERR = {1: 'IndexError', 2: 'TypeError', 3: 'ValueError', 4: 'NumpyError', 5: 'OutOfFuel'}
KINDCODE = {'array': 0, 'hdf5': 0, 'list': 1, 'view': 2}
DT_BITS = {'int8': (8, 1), 'int16': (16, 1), 'int32': (32, 1), 'int64': (64, 1),
           'uint8': (8, 0), 'uint16': (16, 0), 'uint32': (32, 0), 'uint64': (64, 0), 'list': (64, 1), 'tuple': (64, 1)}

_state = {}


def setup(ctx):
	from vf import impl
	impl.check_import()
	_state['dir'] = impl.scratch_dir('gambit-verif-c20-')
	_state['h5'] = {}
	_state['nfile'] = 0


def teardown(ctx):
	for h in _state.get('h5', {}).values():
		try:
			h.close()
		except Exception:
			pass
	_state['h5'] = {}


def _kspec(k):
	from gambit.kmers import KmerSpec
	return [KmerSpec(6, 'AT'), KmerSpec(7, 'AT'), KmerSpec(6, 'AC')][k]


def _arrs(sigs, bits):
	import numpy as np
	dt = {16: np.uint16, 32: np.uint32, 64: np.uint64}[bits]
	return [np.array(s, dtype=dt) for s in sigs]


def _build(desc):
	"""desc = dict(kind, k, bits, sigs) -> implementation collection"""
	import numpy as np
	from gambit.sigs.base import SignatureArray, SignatureList, dump_signatures, load_signatures
	kind, k, bits, sigs = desc['kind'], desc.get('k', 0), desc.get('bits', 16), desc['sigs']
	ks = _kspec(k)
	dt = np.dtype({16: np.uint16, 32: np.uint32, 64: np.uint64}[bits])
	arrs = _arrs(sigs, bits)
	if kind == 'array':
		return SignatureArray(arrs, ks, dtype=dt)
	if kind == 'list':
		return SignatureList(arrs, ks, dtype=dt)
	if kind == 'view':
		pad = _arrs([[98, 99]], bits) + arrs + _arrs([[97]], bits)
		return SignatureArray(pad, ks, dtype=dt)[1:-1]
	if kind == 'hdf5':
		key = (k, bits, tuple(tuple(s) for s in sigs))
		h = _state['h5'].get(key)
		if h is None or not h:
			if len(_state['h5']) > 200:
				# evict the oldest half (never the collection built just before this one)
				for old_key in list(_state['h5'])[:100]:
					try:
						_state['h5'].pop(old_key).close()
					except Exception:
						pass
			_state['nfile'] += 1
			path = os.path.join(_state['dir'], f'c{_state["nfile"]}.gs')
			dump_signatures(path, SignatureArray(arrs, ks, dtype=dt), 'hdf5')
			h = load_signatures(path)
			_state['h5'][key] = h
		return h
	raise ValueError(kind)


def _wire_coll(desc):
	return [KINDCODE[desc['kind']], desc.get('k', 0), desc.get('bits', 16), [list(s) for s in desc['sigs']]]


def _sarg_py(x):
	return 1.5 if x == 'bad' else x


def _sarg_wire(x):
	return [] if x is None else ([0, 0] if x == 'bad' else [x])


def _index(idx):
	"""index description -> (python object for the implementation, wire value for the model)"""
	import numpy as np
	t = idx['t']
	if t == 'int':
		v = idx['v']
		py = v if idx.get('np') is None else getattr(np, idx['np'])(v)
		return py, [0, v]
	if t == 'slice':
		return (slice(_sarg_py(idx['a']), _sarg_py(idx['b']), _sarg_py(idx['s'])),
		        [1, _sarg_wire(idx['a']), _sarg_wire(idx['b']), _sarg_wire(idx['s'])])
	if t == 'ints':
		bits, sg = DT_BITS[idx['dt']]
		v = list(idx['v'])
		if idx['dt'] == 'list':
			py = v
		elif idx['dt'] == 'tuple':
			py = tuple(v)
		else:
			py = np.array(v, dtype=getattr(np, idx['dt']))
		return py, [2, bits, sg, v]
	if t == 'mask':
		m = [bool(b) for b in idx['v']]
		py = m if idx.get('as') == 'list' else np.array(m, dtype=bool)
		return py, [3, m]
	if t == 'nolen':
		return {'float': 1.5, 'none': None, 'complex': 2j}[idx['v']], [4]
	if t == 'badarr':
		v = idx['v']
		py = {'2d': [[0, 1]], 'float': [0.0, 1.0], 'str': 'ab', 'floatarr': np.array([1.0]), '0d': np.array(1),
		      'mixed': [0, 1.5], 'bigint': [2 ** 70], 'emptyfloat': np.array([], dtype=float)}[v]
		return py, [5]
	raise ValueError(t)


def _oracle(l, idx):
	"""what a plain Python list does"""
	n = len(l)
	t = idx['t']
	try:
		if t == 'int':
			return ['sig', l[idx['v']]]
		if t == 'slice':
			if 'bad' in (idx['a'], idx['b'], idx['s']):
				return ['err', 'TypeError']
			return ['coll', l[slice(idx['a'], idx['b'], idx['s'])]]
		if t == 'ints':
			return ['coll', [l[i] for i in idx['v']]]
		if t == 'mask':
			if len(idx['v']) != n:
				return ['err', 'IndexError']
			return ['coll', [x for x, b in zip(l, idx['v']) if b]]
		if t == 'nolen':
			return ['err', 'TypeError']
		if t == 'badarr':
			return ['err', 'IndexError']
	except IndexError:
		return ['err', 'IndexError']
	except ValueError:
		return ['err', 'ValueError']
	except TypeError:
		return ['err', 'TypeError']


def _obs_impl(coll, py):
	import numpy as np
	from gambit.sigs.base import AbstractSignatureArray
	try:
		r = coll[py]
	except (IndexError, TypeError, ValueError) as e:
		return ['err', type(e).__name__], None
	except Exception as e:
		return ['err', 'other:' + type(e).__name__], None
	if isinstance(r, np.ndarray):
		return ['sig', [int(x) for x in r]], r
	if isinstance(r, AbstractSignatureArray):
		try:
			return ['coll', [[int(x) for x in s] for s in r]], r
		except Exception as e:
			return ['err', 'iter:' + type(e).__name__], r
	return ['err', 'type:' + type(r).__name__], r


def _dec_sres(v):
	if v[0] == 0:
		return ['sig', v[1]]
	if v[0] == 1:
		return ['coll', v[1]]
	return ['err', ERR.get(v[1], f'err{v[1]}')]


def _dec_gres(v):
	"""-> (observable, meta) meta = dict(kind,k,bits,values,bounds) for collections"""
	if v[0] == 0:
		return ['sig', v[1]], None
	if v[0] == 2:
		return ['err', ERR.get(v[1], f'err{v[1]}')], None
	if v[0] == 1:
		items = v[4]
		meta = dict(kind=v[1], k=v[2], bits=v[3], values=v[5], bounds=v[6])
		if len(items) == 2 and items[0] == 2 and isinstance(items[1], int):
			return ['err', 'iter:' + ERR.get(items[1], '?')], meta
		return ['coll', items], meta
	return ['err', 'malformed'], None


def _snapshot(py):
	import numpy as np
	if isinstance(py, np.ndarray):
		return (str(py.dtype), py.tobytes())
	if isinstance(py, list):
		return ('list', repr(py))
	return None


def k_getitem(ctx, cases):
	import numpy as np
	reqs = []
	for c in cases:
		_, w = _index(c['idx'])
		wc = _wire_coll(c)
		if len(c['sigs']) > 2000 and c['kind'] != 'list':
			# the list-based model of the (values, bounds) constructor is quadratic: very long collections go
			# through the model as list-backed ones only (the implementation is still compared with the oracle)
			wc = [1] + wc[1:]
		reqs += [(2001, [wc, w]), (2003, [wc[3], w])]
	ans = ctx.model(reqs) if ctx.model_ok else None
	for i, c in enumerate(cases):
		l = [list(s) for s in c['sigs']]
		n = len(l)
		idx = c['idx']
		coll = _build(c)
		py, w = _index(idx)
		before = _snapshot(py)
		desc = f"{c['kind']} collection of {n} signatures indexed with {py!r}"
		obs, r = _obs_impl(coll, py)
		after = _snapshot(py)
		want = _oracle(l, idx)
		plain = idx['t'] == 'int' and 0 <= idx['v'] < n
		ctx.case(c if n <= 8 else dict(kind=c['kind'], n=n, idx=idx), nontrivial=(n >= 2 and not plain))
		if obs != want:
			old = None
			if ctx.model_ok:
				try:
					old = _dec_gres(ctx.model([(2002, [_wire_coll(c), w])])[0])[0]
				except Exception:
					old = None
			note = ' (this is what the model of the index-array conversion as found, in-place add in the index dtype, predicts)' \
				if old == obs else ''
			ctx.violation('getitem', c, f'{desc}: got {_short(obs)}, a plain list gives {_short(want)}{note}',
			              impl=obs, spec=want, model=(_dec_gres(ans[2 * i])[0] if ans else None), model_as_found=old)
			continue
		if before != after:
			ctx.violation('getitem', c, f'{desc}: the caller\'s index object was modified', impl=str(after), spec=str(before))
			continue
		# type / parameters / dtype of sub-collections
		if obs[0] == 'coll':
			from gambit.sigs.base import SignatureArray, SignatureList
			wt = SignatureList if c['kind'] == 'list' else SignatureArray
			bits = c.get('bits', 16)
			if type(r) is not wt or r.kmerspec != _kspec(c.get('k', 0)) or np.dtype(r.dtype) != np.dtype(f'uint{bits}') \
					or len(r) != len(obs[1]):
				ctx.violation('getitem', c, f'{desc}: sub-collection is {type(r).__name__} len={len(r)} kmerspec={r.kmerspec} '
				              f'dtype={r.dtype}, expected {wt.__name__} with the parent\'s parameters and dtype',
				              impl=[type(r).__name__, str(r.kmerspec), str(r.dtype)], spec=[wt.__name__, c.get('k', 0), bits])
				continue
		elif obs[0] == 'sig':
			if r.dtype != np.dtype(f'uint{c.get("bits", 16)}'):
				ctx.violation('getitem', c, f'{desc}: signature dtype {r.dtype}', impl=str(r.dtype), spec=c.get('bits', 16))
				continue
		if ans is None:
			continue
		m, meta = _dec_gres(ans[2 * i])
		s = _dec_sres(ans[2 * i + 1])
		if s != want:
			ctx.broke('Coq specification list_getitem vs CPython list', f'{desc}: Spec/C20.v gives {_short(s)}, CPython {_short(want)}; case {c}')
		elif m != obs:
			ctx.broke('correspondence getitem (Model/C20.v vs implementation)', f'{desc}: model {_short(m)}, implementation {_short(obs)}; case {c}')
		elif meta is not None and c['kind'] in ('array', 'view', 'hdf5') and len(c['sigs']) <= 2000:
			# representation of the sub-collection: public attributes values / bounds
			if meta['kind'] != 0 or meta['k'] != c.get('k', 0) or meta['bits'] != c.get('bits', 16) or \
					[int(x) for x in r.values] != meta['values'] or [int(x) for x in r.bounds] != meta['bounds']:
				ctx.broke('correspondence getitem (values/bounds of the sub-collection)',
				          f'{desc}: model values={meta["values"]} bounds={meta["bounds"]}, implementation '
				          f'values={list(map(int, r.values))} bounds={list(map(int, r.bounds))}')


def _short(o):
	s = repr(o)
	return s if len(s) < 160 else s[:150] + '...'


def _apply(seq, op, arr):
	"""apply one mutation to a list-like; returns the outcome"""
	t = op[0]
	try:
		if t == 'set':
			seq[op[1]] = arr(op[2])
		elif t == 'del':
			del seq[op[1]]
		elif t == 'ins':
			seq.insert(op[1], arr(op[2]))
		elif t == 'pop':
			return ['sig', [int(x) for x in seq.pop(op[1])]]
		elif t == 'app':
			seq.append(arr(op[1]))
		elif t == 'ext':
			seq.extend([arr(s) for s in op[1]])
		elif t == 'iadd':
			seq += [arr(s) for s in op[1]]
		elif t == 'rev':
			seq.reverse()
		elif t == 'clear':
			seq.clear()
		elif t == 'setslice':
			seq[slice(op[1], op[2], op[3])] = [arr(s) for s in op[4]]
		elif t == 'delslice':
			del seq[slice(op[1], op[2], op[3])]
		else:
			raise RuntimeError(t)
	except (IndexError, ValueError, TypeError) as e:
		return ['err', type(e).__name__]
	return ['coll', []]


PRIMS = {'set': 0, 'del': 1, 'ins': 2, 'pop': 3, 'app': 4}


def k_mutate(ctx, cases):
	import numpy as np
	from gambit.sigs.base import SignatureList
	reqs, prim = [], []
	for c in cases:
		p = all(op[0] in PRIMS for op in c['ops'])
		prim.append(p)
		if p:
			wops = [[PRIMS[op[0]]] + list(op[1:]) for op in c['ops']]
			reqs += [(2004, [[1, 0, 16, c['sigs']], wops]), (2005, [c['sigs'], wops])]
	ans = ctx.model(reqs) if (ctx.model_ok and reqs) else None
	j = 0
	for ci, c in enumerate(cases):
		arr = lambda s: np.array(s, dtype=np.uint16)
		ks = _kspec(0)
		sl = SignatureList([arr(s) for s in c['sigs']], ks, dtype=np.dtype(np.uint16))
		pl = [arr(s) for s in c['sigs']]
		outs = []
		nt = len(c['ops']) >= 3
		failed = False
		bad = None
		for step, op in enumerate(c['ops']):
			oi = _apply(sl, op, arr)
			oo = _apply(pl, op, arr)
			outs.append(oo)
			if oo[0] == 'err':
				failed = True
			si = [[int(x) for x in s] for s in sl]
			so = [[int(x) for x in s] for s in pl]
			if oi != oo or si != so or len(sl) != len(pl):
				bad = (step, op, oi, oo, si, so)
				break
		ctx.case(c, nontrivial=nt and (failed or any(isinstance(op[1], int) and op[1] < 0 for op in c['ops'] if len(op) > 1)))
		if bad:
			step, op, oi, oo, si, so = bad
			ctx.violation('mutate', c, f'SignatureList after step {step} {op}: outcome {oi} state {_short(si)}; plain list: '
			              f'outcome {oo} state {_short(so)}', impl=[oi, si], spec=[oo, so])
			continue
		if sl.kmerspec != ks or np.dtype(sl.dtype) != np.dtype(np.uint16):
			ctx.violation('mutate', c, 'k-mer parameters / dtype changed by mutations', impl=[str(sl.kmerspec), str(sl.dtype)])
			continue
		# the mutated collection still indexes like the list
		final = [[int(x) for x in s] for s in pl]
		for py in (slice(None, None, -1), slice(1, None, 2), list(range(-len(pl), 0))):
			got = [[int(x) for x in s] for s in sl[py]]
			exp = final[py] if isinstance(py, slice) else [final[i] for i in py]
			if got != exp:
				ctx.violation('mutate', c, f'after the history, indexing with {py!r} gives {_short(got)}, list {_short(exp)}',
				              impl=got, spec=exp)
		if prim[ci] and ans is not None:
			m, s = ans[2 * j], ans[2 * j + 1]
			j += 1
			want = [final, [[0, o[1]] if o[0] == 'sig' else ([1, []] if o[0] == 'coll' else
			                [2, {v: k for k, v in ERR.items()}[o[1]]]) for o in outs]]
			if s != want:
				ctx.broke('Coq specification spec_history vs CPython list', f'case {c}: spec {_short(s)} CPython {_short(want)}')
			elif m != want:
				ctx.broke('correspondence mutate (Model/C20.v sl_history vs SignatureList)', f'case {c}: model {_short(m)} impl {_short(want)}')
		elif prim[ci]:
			j += 1


def k_eq(ctx, cases):
	reqs = []
	for c in cases:
		a, b = c['a'], c['b']
		reqs += [(2006, [_wire_coll(a), _wire_coll(b)]), (2007, [a.get('k', 0), a['sigs'], b.get('k', 0), b['sigs']])]
	ans = ctx.model(reqs) if ctx.model_ok else None
	for i, c in enumerate(cases):
		a, b = c['a'], c['b']
		x, y = _build(a), _build(b)
		want = a.get('k', 0) == b.get('k', 0) and [list(s) for s in a['sigs']] == [list(s) for s in b['sigs']]
		try:
			got = [bool(x == y), bool(y == x), not bool(x != y)]
		except Exception as e:
			got = ['exception ' + type(e).__name__]
		close = len(a['sigs']) == len(b['sigs'])
		ctx.case(c, nontrivial=close and len(a['sigs']) >= 1)
		if got != [want] * 3:
			ctx.violation('eq', c, f'{a["kind"]} == {b["kind"]} (both orders, and not !=) gives {got}; parameters and all '
			              f'signatures equal: {want}', impl=got, spec=want)
			continue
		if ans is None:
			continue
		m = ans[2 * i]
		s = bool(ans[2 * i + 1])
		if s != want:
			ctx.broke('Coq specification spec_eq', f'case {c}: {s} vs {want}')
		elif m != [0, 1 if want else 0]:
			ctx.broke('correspondence eq (Model/C20.v coll_eq vs __eq__)', f'case {c}: model {m}, implementation {got}')


KINDS = {'getitem': k_getitem, 'mutate': k_mutate, 'eq': k_eq}
BACKINGS = ['array', 'list', 'hdf5', 'view']


def _rsig(rng, maxlen=4, top=4096):
	return sorted(rng.sample(range(top), rng.randint(0, maxlen)))


def _fixed_sigs(n):
	"""n distinct signatures, lengths 0,1,2,... with an empty one first and in the middle"""
	out = []
	for i in range(n):
		ln = [0, 2, 1, 0, 3, 1, 2][i % 7]
		out.append([10 * i + j for j in range(ln)])
	return out


def generate(ctx):
	rng = ctx.rng
	ctx.rule(RULE)
	nmax = ctx.pick(5, 6)

	def gi(kind, sigs, idx, k=0, bits=16):
		return 'getitem', dict(kind=kind, k=k, bits=bits, sigs=sigs, idx=idx)

	# ---- the confirmed defects (fixed by repo_fixes/C20.diff): narrow signed index dtypes, uint64 ------------
	big = [[i] for i in range(200)]
	for kind in ('array', 'list', 'hdf5'):
		ctx.count('stream:narrow-dtype')
		yield gi(kind, big, dict(t='ints', dt='int8', v=[-1]))
		yield gi(kind, big[:129], dict(t='ints', dt='int8', v=[-1, 0, -128]))
		yield gi(kind, big[:130], dict(t='ints', dt='int8', v=[-3, 127, -128, -1]))
		yield gi(kind, big[:128], dict(t='ints', dt='int8', v=[-1, -128, 127]))
		yield gi(kind, big[:5], dict(t='ints', dt='uint64', v=[3, 1]))
		yield gi(kind, big[:5], dict(t='int', v=3, np='uint64'))
		yield gi(kind, big[:5], dict(t='ints', dt='uint64', v=[2 ** 63 + 5]))
	many = [[] for _ in range(33000)]
	many[-1] = [7]
	many[232] = [8]
	for kind in ('array', 'list'):
		yield gi(kind, many, dict(t='ints', dt='int16', v=[-1]))
		yield gi(kind, many, dict(t='ints', dt='int16', v=[32767, -32768, -2]))

	# ---- exhaustive: every slice start/stop/step in {None, -n-2 .. n+2} for n <= nmax ------------------------
	for n in range(0, nmax + 1):
		sigs = _fixed_sigs(n)
		rg = [None] + list(range(-n - 2, n + 3))
		for kind in BACKINGS:
			if kind == 'view' and n > 4:
				continue
			for a, b, s in itertools.product(rg, rg, rg):
				yield gi(kind, sigs, dict(t='slice', a=a, b=b, s=s))
			ctx.count('stream:exhaustive-slices', len(rg) ** 3)
	# ---- exhaustive: every integer index, every index list of length <= 3 (n <= 4), every mask ---------------
	dts = ['list', 'int64', 'int8', 'int16', 'int32', 'uint8', 'uint16', 'uint32', 'uint64', 'tuple']
	for n in range(0, 5):
		sigs = _fixed_sigs(n)
		for kind in BACKINGS:
			for v in range(-n - 2, n + 3):
				yield gi(kind, sigs, dict(t='int', v=v))
				yield gi(kind, sigs, dict(t='int', v=v, np=rng.choice(['int8', 'int16', 'int32', 'int64'])))
				if v >= 0:
					yield gi(kind, sigs, dict(t='int', v=v, np=rng.choice(['uint8', 'uint16', 'uint32', 'uint64'])))
			for ln in range(0, 4):
				for v in itertools.product(range(-n - 1, n + 1), repeat=ln):
					v = list(v)
					yield gi(kind, sigs, dict(t='ints', dt='list', v=v))
					dt = rng.choice(dts[1:])
					if dt.startswith('u') and any(x < 0 for x in v):
						dt = 'int8'
					if dt == 'tuple' and ln == 0:
						dt = 'int64'
					yield gi(kind, sigs, dict(t='ints', dt=dt, v=v))
					ctx.count('stream:exhaustive-index-lists', 2)
			for ln in (n - 1, n, n + 1):
				if ln < 0:
					continue
				for m in itertools.product([0, 1], repeat=ln):
					if ln == 0:
						# an empty list is an empty integer index; an empty bool array is a mask
						yield gi(kind, sigs, dict(t='mask', v=[], **{'as': 'array'}))
						continue
					yield gi(kind, sigs, dict(t='mask', v=list(m), **{'as': 'array'}))
					yield gi(kind, sigs, dict(t='mask', v=list(m), **{'as': 'list'}))
					ctx.count('stream:exhaustive-masks', 2)
	ctx.exhaustive = True
	ctx.extra['exhaustive_scope'] = (f'4 backings x n<={nmax} signatures: every slice with start/stop/step in {{None,-n-2..n+2}}; '
	                                 'n<=4: every int in -n-2..n+2, every index list of length<=3 over -n-1..n, every mask of '
	                                 'length n-1,n,n+1')

	# ---- structured random: larger collections, other dtypes/parameters, big slices ---------------------------
	R = ctx.pick(5000, 40000)
	pool = []
	for _ in range(ctx.pick(12, 60)):
		n = rng.choice([0, 1, 2, 3, 7, 12, 20, 40])
		pool.append(([_rsig(rng) for _ in range(n)], rng.randrange(3), rng.choice([16, 32, 64])))
	for _ in range(R):
		sigs, k, bits = rng.choice(pool)
		n = len(sigs)
		kind = rng.choice(BACKINGS)
		r = rng.random()
		edge = [None, 0, -1, 1, n, -n, n - 1, -n - 1, n + 1, 2 ** 63 - 1, -2 ** 63, 2 ** 70, -2 ** 70]
		if r < 0.35:
			pick = lambda: rng.choice(edge) if rng.random() < 0.4 else rng.randint(-n - 3, n + 3)
			s = pick()
			idx = dict(t='slice', a=pick(), b=pick(), s=(None if s == 0 and rng.random() < 0.8 else s))
		elif r < 0.6:
			ln = rng.randint(0, 8)
			dt = rng.choice(dts)
			lo = 0 if dt.startswith('u') else -n
			v = [rng.randint(lo, n - 1) for _ in range(ln)] if n else []
			if rng.random() < 0.15:
				v.append(rng.choice([n, -n - 1] if not dt.startswith('u') else [n]))
			bits_i = DT_BITS.get(dt, (64, 1))[0]
			sg = 0 if dt.startswith('u') else 1
			v = [x for x in v if (-(2 ** (bits_i - 1)) <= x < 2 ** (bits_i - 1) if sg else 0 <= x < 2 ** bits_i)]
			if dt == 'tuple' and not v:
				dt = 'list'
			idx = dict(t='ints', dt=dt, v=v)
		elif r < 0.75:
			ln = n if rng.random() < 0.85 else max(0, n + rng.choice([-1, 1]))
			if ln == 0:
				idx = dict(t='mask', v=[], **{'as': 'array'})
			else:
				idx = dict(t='mask', v=[rng.randint(0, 1) for _ in range(ln)], **{'as': rng.choice(['array', 'list'])})
		else:
			idx = dict(t='int', v=rng.choice([rng.randint(-n - 2, n + 1), 0, -1, n, -n, -n - 1, 2 ** 70, -2 ** 70]))
		ctx.count('stream:random-getitem')
		yield gi(kind, sigs, idx, k, bits)

	# ---- malformed stream ------------------------------------------------------------------------------------
	for n in (0, 3):
		sigs = _fixed_sigs(n)
		for kind in BACKINGS:
			for a, b, s in itertools.product([None, 1, 'bad'], [None, 2, 'bad'], [None, 0, -1, 'bad']):
				if 'bad' in (a, b, s) or s == 0:
					ctx.count('stream:malformed')
					yield gi(kind, sigs, dict(t='slice', a=a, b=b, s=s))
			for v in ('float', 'none', 'complex'):
				ctx.count('stream:malformed')
				yield gi(kind, sigs, dict(t='nolen', v=v))
			for v in ('2d', 'float', 'str', 'floatarr', '0d', 'mixed', 'bigint', 'emptyfloat'):
				ctx.count('stream:malformed')
				yield gi(kind, sigs, dict(t='badarr', v=v))

	# ---- mutation histories ----------------------------------------------------------------------------------
	H = ctx.pick(3000, 30000)
	for h in range(H):
		n = rng.choice([0, 1, 2, 3, 5])
		sigs = [_rsig(rng, 3, 50) for _ in range(n)]
		ops = []
		ln = n
		extended = h % 3 == 2
		for _ in range(rng.randint(0, 30)):
			i = rng.choice([rng.randint(-ln - 2, ln + 1), 0, -1, ln, -ln, -ln - 1])
			t = rng.choice(['set', 'del', 'ins', 'pop', 'app'] + (['ext', 'iadd', 'rev', 'clear', 'setslice', 'delslice'] if extended else []))
			if t == 'set':
				ops.append(['set', i, _rsig(rng, 3, 50)])
			elif t in ('del', 'pop'):
				ops.append([t, i])
				if -ln <= i < ln:
					ln -= 1
			elif t == 'ins':
				ops.append(['ins', i, _rsig(rng, 3, 50)])
				ln += 1
			elif t == 'app':
				ops.append(['app', _rsig(rng, 3, 50)])
				ln += 1
			elif t in ('ext', 'iadd'):
				new = [_rsig(rng, 2, 50) for _ in range(rng.randint(0, 3))]
				ops.append([t, new])
				ln += len(new)
			elif t == 'rev':
				ops.append(['rev'])
			elif t == 'clear':
				if rng.random() < 0.3:
					ops.append(['clear'])
					ln = 0
			else:
				pk = lambda: rng.choice([None, rng.randint(-ln - 1, ln + 1)])
				st = rng.choice([None, 1, 1, 2, -1, -2, 0])
				a, b = pk(), pk()
				cnt = len(range(*slice(a, b, st).indices(ln))) if st != 0 else 0
				if t == 'delslice':
					ops.append(['delslice', a, b, st])
					if st != 0:
						ln -= cnt
				else:
					m = cnt if (st not in (None, 1) and rng.random() < 0.8) else rng.randint(0, 3)
					new = [_rsig(rng, 2, 50) for _ in range(m)]
					ops.append(['setslice', a, b, st, new])
					if st in (None, 1):
						start, stop, _ = slice(a, b, st).indices(ln)
						ln += len(new) - max(0, stop - start)
		ctx.count('stream:histories-extended' if extended else 'stream:histories-primitive')
		yield 'mutate', dict(sigs=sigs, ops=ops)

	# ---- equality --------------------------------------------------------------------------------------------
	E = ctx.pick(1500, 12000)
	for _ in range(E):
		n = rng.choice([0, 1, 2, 4, 9])
		sigs = [_rsig(rng) for _ in range(n)]
		k, bits = rng.randrange(3), rng.choice([16, 32, 64])
		other = [list(s) for s in sigs]
		k2, bits2 = k, bits
		r = rng.random()
		if r < 0.25:
			pass
		elif r < 0.4 and n:
			j = rng.randrange(n)
			other[j] = other[j] + [5000] if rng.random() < 0.5 or not other[j] else other[j][:-1]
		elif r < 0.55 and n:
			j = rng.randrange(n)
			if other[j]:
				p = rng.randrange(len(other[j]))
				other[j][p] += 1
			else:
				other[j] = [0]
		elif r < 0.65:
			other = other + [[]] if rng.random() < 0.5 or not n else other[:-1]
		elif r < 0.75 and n >= 2:
			other[0], other[-1] = other[-1], other[0]
		elif r < 0.88:
			k2 = (k + rng.choice([1, 2])) % 3
		else:
			bits2 = rng.choice([16, 32, 64])
		ctx.count('stream:eq')
		yield 'eq', dict(a=dict(kind=rng.choice(BACKINGS), k=k, bits=bits, sigs=sigs),
		                 b=dict(kind=rng.choice(BACKINGS), k=k2, bits=bits2, sigs=other))
