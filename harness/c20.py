"""C20 -- signature collections index like NumPy sequences and compare by content.

Tie: B.  SignatureArray (fresh and as a contiguous view), SignatureList and HDF5Signatures (scratch
files written with dump_signatures, opened with load_signatures) are indexed with the same index
expressions as a plain Python list of the same signatures.  The oracle of the property is CPython's
own list (`l[i]`, `l[a:b:s]`, `[l[i] for i in idx]`, mask filter); the extracted Coq specification
(Spec/C20.v list_getitem, op 2003) must agree with that oracle and the extracted model of the
indexing code (Model/C20.v, op 2001 = with repo_fixes/C20.diff, op 2002 = as found) with the
implementation.  impl != list oracle is a violation with the input as replay; impl == oracle but
model != impl, or Coq spec != CPython list, is a broken correspondence.

Coverage audit (item of the property text -> stream that drives it on the IMPLEMENTATION; P = property predicate
checked there against the CPython list oracle, M = also compared with the Coq model):
  backings: SignatureArray fresh / contiguous view, SignatureList, HDF5Signatures (dump+load)  exhaustive-*, random-getitem  P M
  other constructions of the same classes: dtype inferred, tuple input, copy / astype of a SignatureArray,
    SignatureArray(SignatureList), SignatureList(SignatureArray | generator), from_arrays with int32/uint32/int64/
    uint64 bounds, view of a view, results of int-array / mask / reversed-slice indexing, list built by inserts,
    AnnotatedSignatures wrapper (delegating __getitem__/__eq__), files written from a SignatureList / annotated
    collection (str, int ids, metadata), gzip / lzf (chunked) datasets, HDF5Signatures.create in a sub-group,
    load_signatures(mode=, driver='core'), load_signatures_hdf5                                  xindex, session, eqx (xcoll-*)  P
  dtypes: uint16/32/64 (random-getitem P M; exhaustive streams use uint16 = KmerSpec.index_dtype only);
    uint8, int16/32/64, big-endian >u2/>u4/>u8, values up to the dtype maximum (>2^32, >2^53, 2^64-1), long
    signatures (17..300 elements), KmerSpec None / default 11-ATGAC / prefix as lower-case bytes  xcoll-*            P
  int, negative int, NumPy scalar ints                                                         exhaustive-index-lists, random  P M
    every NumPy integer scalar type incl. intp/uintp/intc/longlong; bool and IntEnum (lenient)  xindex-scalar-kinds            P
  slice, any step                                                                              exhaustive-slices, random      P M
    NumPy scalars (and bools, lenient) as start/stop/step                                      xindex-numpy-slice-fields      P
  integer array: list, tuple, ndarray of the 8 native dtypes (contiguous)                      exhaustive-index-lists, narrow-dtype  P M
    non-native byte order, intp/uintp, strided / negative-stride / column / broadcast (stride 0) / read-only /
    unaligned arrays                                                                           xindex-array-layouts-byteorders  P
    lists / tuples of NumPy scalars (mixed types), repeated indices; lenient: lists mixing bool and int, range,
    array.array, bytearray, memoryview                                                         xindex-int-containers          P
  boolean mask: ndarray, list                                                                  exhaustive-masks, random       P M
    strided / reversed / column / broadcast / read-only masks, list of np.bool_, tuple (lenient)  xindex-mask-containers-layouts  P
  out-of-range / ill-typed -> index or type error                                              exhaustive-*, malformed        P M  (+ every x-stream, classes IndexError/TypeError merged)
  sub-collections keep type, k-mer parameters, integer type (also of each item, len == items)  getitem (collection only)  P M ; xindex, session (also items)  P
  caller's index array unmodified: ndarray / list snapshot                                     getitem                        P
    also the buffer a view looks at, read-only arrays, the SAME index object used twice and across collections,
    sub-collections and mutations                                                              xindex (2 calls), session (pool of index objects)  P
  immutable sequence: the collection (and every sub-collection taken earlier) still reads the same after any number
    of indexing operations; len / iter / reversed / item-by-item agree; nested indexing of sub-collections
                                                                                               xindex (re-read), session      P
  list mutations set/del/insert/pop/append (+extend, +=, reverse, clear, slice set/del)        histories-primitive P M, histories-extended P
    NumPy-scalar positions; mutations interleaved with indexing; sub-collections are independent of later mutations
    of the parent and vice versa (a list slice is a copy)                                      session-list-backed            P
  equality iff parameters and all signatures equal: 4 backings, uint16/32/64, 3 parameter sets  eq                             P M
    all constructions above incl. wrapper / files with other ids+metadata, other dtypes, same parameters spelled
    differently, None parameters, one value changed by 1 / 2^16 / 2^32 / 2^63 near the top of the range, 300
    signatures, the same object, sub-collections (session 'eq'), sigarray_eq (gambit.sigs re-export; plain
    lists / tuples on either side)                                                             eqx, session                   P
Not driven: objects that only define __index__ as positions (the code refuses them with TypeError where a list accepts
them: an "ill-typed index" by the code's own documentation), == against non-collections (NotImplemented -> False),
indexing a closed file, ndarray subclasses (masked arrays, matrices), Sequence mix-ins index/count/__contains__
(they compare arrays with ==; not named by the property), np.copyto narrowing when signatures do not fit the dtype.

State and aliasing (audit of what can outlive one call).  Entry points the property is observed through -- there is no CLI
command among them, and the anchored code (gambit/util/indexing.py, gambit/sigs/base.py, gambit/sigs/hdf5.py) has no
module-level, class-level or thread-local mutable state as found (only constants: BOUNDS_DTYPE, STR_DTYPE, format version):
  E1 coll[index]      AdvancedIndexingMixin.__getitem__ -> _check_index, _getitem_int / _slice / _int_array / _bool_array of
                      SignatureArray, SignatureList, HDF5Signatures; AnnotatedSignatures.__getitem__ (delegates)
  E2 ==, !=           AbstractSignatureArray.__eq__, sigarray_eq
  E3 list mutation    SignatureList.__setitem__ / __delitem__ / insert + MutableSequence pop / append / extend / += / reverse / clear
  E4 len, iter, reversed
  E5 construction     SignatureArray(sequence | collection, kmerspec, dtype), from_arrays(values, bounds), SignatureList(iterable |
                      collection), AnnotatedSignatures(collection, ids, meta)
  E6 files            dump_signatures / HDF5Signatures.create, load_signatures / load_signatures_hdf5 / HDF5Signatures(group), close
Objects that outlive a call, and where each dimension is driven: (a) reused across calls that differ in collection / size / dtype /
backing, in both orders; (b) compared with a snapshot after every call; (c) a call that fails part-way, then a good call on the same
objects; (d) the same call twice; (e) the call made from a second thread (sequentially; nothing here is advertised as thread-safe,
after-fork use is not advertised either and is not driven).
  O1  index object given to E1 (ndarray and the buffer it views, list, tuple, memoryview, bytearray, array.array)
        before: (b) getitem, xindex, session; (d) xindex; (a) session only against sub-collections of ONE root.
        now:    xseq -- one index object against 2-3 collections of different size / dtype / backing in any order (systematic:
                19 index objects x 6 pairs x orders AB, BA, ABA, BAB), snapshot after every step (a b c d e)
  O2  the collection: values / bounds arrays (views share the parent's values: documented), SignatureList._list, HDF5 datasets +
      file handle + ids read at open.  before: re-read after the call(s) in xindex / session.  The single-call streams reuse
      one open file for many cases through the harness's own cache _state['h5'] -- that reuse is accidental: a violation that
      needs it has a replay (one call on a fresh file) that does not reproduce.
        now:    xseq re-reads EVERY live pool object after EVERY step; its systematic part is evaluated first  (a b c d)
  O3  sub-collections (contiguous slices of a SignatureArray are views; SignatureList results share the arrays, not the list)
        before: session (independent of later mutations of the parent and vice versa).  now: also xseq pool members
  O4  the caller's list / tuple / generator of signature arrays given to E5, and the arrays (SignatureList keeps the arrays by
      reference: documented; it must copy the list).  before: never looked at again.
        now:    xseq builds 2-3 collections from the very same list and KmerSpec object, mutates one, and compares the list
                (length, identity and bytes of the arrays) and every other collection after every step (a b)
  O5  values / bounds arrays given to from_arrays (kept by reference: documented).  xindex / xseq re-read the collection.
  O6  KmerSpec object shared by caller, collection and every sub-collection (frozen).  now: all its fields compared after
      every xseq step; sub-collections and files keep equal parameters (b)
  O7  the array given to set / insert / append, the caller's list or iterator of new signatures for extend / += / slice
      assignment.  before: histories (state after every step, failing steps included).  now: the list is compared afterwards
      (same objects, same order), iterators that raise part-way (extfail / iaddfail: list semantics = items yielded so far stay)
      (b c)
  O8  ids array / SignaturesMeta (+ its extra dict) / wrapped collection of an AnnotatedSignatures given to E6, **kw
        now:    xseq 'dump' compares them (and the source collection) after the call (b)
  O9  a path on disk: written, loaded, closed, written again with other content / size, loaded again; two files open at once;
      a truncated / corrupt / foreign file refused between two good calls.  before: every file had a fresh path.
        now:    xseq 'dump' to one of two path slots, 'badload' (a c)
  O10 pairs of collections compared with ==: before and after a mutation of one of them, both orders, twice, collections
      constructed from pool collections (SignatureList(coll), SignatureArray(coll)) stay independent of them.
        before: session 'eq' between random objects of one root.  now: xseq 'eq' / 'derive' (a c d e)"""
import itertools
import os

PROP = 'C20'
RULE = ('getitem: (backing, signatures, index expression) -> signature / sub-collection items + type + k-mer '
        'parameters + dtype / error class, and the caller\'s index array afterwards; non-trivial: >= 2 signatures '
        'and the expression is not a plain in-range non-negative int.  mutate: history of list mutations on a '
        'SignatureList vs a plain list (state and outcome after every step); non-trivial: >= 3 steps of which one '
        'fails or uses a negative index.  eq: two collections (any backings) -> ==, !=; non-trivial: same length, '
        'differing in at most one element / parameter / dtype.  xindex (audit streams, list oracle only): (construction, dtype, '
        'parameters, signatures, index object given by container / scalar kind / memory layout) -> the same observables, the '
        'collection re-read afterwards, the index object and the buffer it views afterwards, a second call with the same '
        'object; non-trivial as getitem.  session: one collection, a pool of index objects reused by reference, 2..14 steps '
        '(index the collection or a sub-collection taken earlier, mutate a list-backed one, ==, len/iter/reversed), every '
        'object re-read after every step; non-trivial: >= 3 steps with a mutation or a nested indexing.  eqx: pairs of '
        'collections of any construction / dtype / parameters, b derived from a by one minimal change; ==, !=, both orders, '
        'sigarray_eq on collections and plain sequences; non-trivial: same length >= 1.  xseq (state / aliasing audit, list '
        'oracle only): a script of 2..8 steps over a pool of shared objects -- 2-3 collections (of different size / dtype / backing, '
        'some built from the very same list of arrays and KmerSpec object), 1-4 index objects used by reference on any of them, list '
        'mutations (also with iterators that raise part-way), ==, collections constructed from pool collections, dump + load (also to a '
        'path used before), a load that fails; every step judged as in getitem / mutate / eq, each indexing and == done twice (some from '
        'a second thread), and after every step every live pool object re-read and every caller-owned object (index objects and their '
        'buffers, input lists and their arrays, KmerSpec objects, ids / metadata given to dump) compared with its snapshot; non-trivial: '
        '>= 2 steps with an index object used on two collections, a mutation, a failed call followed by a good one, a constructed '
        'collection or a file.')
TRUSTED = ['CPython list indexing/slicing/mutation is the oracle ("what a plain list would do")',
           'NumPy / h5py array reads (integer lookup, basic slice, np.arange, np.flatnonzero, np.cumsum, np.copyto) '
           'modelled as list functions in Model/C20.v',
           'collections.abc Sequence.__iter__ / MutableSequence mix-ins (pop, append) modelled from their source',
           'h5py / HDF5 library state (library lock, registry of open files, chunk cache) -- xseq only observes it through '
           'two files open at once and a path written twice']
ASSUMPTIONS = ['fewer than 2^63 signatures; slice steps fit Py_ssize_t (theorem hypothesis idx_fits); np.arange lengths exact',
               'signature values fit the collection dtype (np.copyto casting=unsafe is not modelled)',
               'C20_index_unmodified is explored (caller arrays compared before/after), not proved: the Coq model is '
               'pure and has no caller-owned mutable array',
               'slice assignment / deletion, extend, reverse, clear, += on SignatureList are compared with a plain list '
               'only (not in the Coq model)',
               'the audit streams xindex / session / eqx are outside the modelled domain (other dtypes, byte orders, constructors, '
               'wrappers, index containers, call sequences): judged by the property predicate and the CPython list oracle alone',
               'index objects the property does not name (bool / IntEnum scalars, range, array.array, bytearray, memoryview, tuple '
               'masks, lists mixing bool and int or 64-bit unsigned and signed NumPy scalars) may be refused with an index/type '
               'error or select what a list would; IndexError and TypeError are one class in the audit streams',
               'xseq: what the collections DOCUMENT as shared is not judged (a contiguous slice of a SignatureArray is a view of its '
               'values; a SignatureList keeps the caller\'s arrays by reference; from_arrays keeps values / bounds): the harness never writes '
               'into a signature array.  A caller-supplied index container that raises part-way must make the call fail (any error class); '
               'a damaged file may be refused or not (another property): only the objects of the pool are judged afterwards.  Second-thread '
               'calls are sequential (no concurrency is claimed by the code); use after fork is not driven']
CORRESPONDENCES = ['getitem', 'mutate', 'eq', 'xindex', 'session', 'eqx', 'xseq']
SHRINK = False

ERR = {1: 'IndexError', 2: 'TypeError', 3: 'ValueError', 4: 'NumpyError', 5: 'OutOfFuel'}
KINDCODE = {'array': 0, 'hdf5': 0, 'list': 1, 'view': 2}
DT_BITS = {'int8': (8, 1), 'int16': (16, 1), 'int32': (32, 1), 'int64': (64, 1),
           'uint8': (8, 0), 'uint16': (16, 0), 'uint32': (32, 0), 'uint64': (64, 0), 'list': (64, 1), 'tuple': (64, 1)}

_state = {}


def setup(ctx):
	from vf import impl
	impl.check_import()
	_state['dir'] = impl.scratch_dir('gambit-verif-c20-')
	_state['h5'] = {}
	_state['nfile'] = 0


def teardown(ctx):
	for h in _state.get('h5', {}).values():
		try:
			h.close()
		except Exception:
			pass
	_state['h5'] = {}


def _kspec(k):
	from gambit.kmers import KmerSpec
	return [KmerSpec(6, 'AT'), KmerSpec(7, 'AT'), KmerSpec(6, 'AC')][k]


def _arrs(sigs, bits):
	import numpy as np
	dt = {16: np.uint16, 32: np.uint32, 64: np.uint64}[bits]
	return [np.array(s, dtype=dt) for s in sigs]


def _build(desc):
	"""desc = dict(kind, k, bits, sigs) -> implementation collection"""
	import numpy as np
	from gambit.sigs.base import SignatureArray, SignatureList, dump_signatures, load_signatures
	kind, k, bits, sigs = desc['kind'], desc.get('k', 0), desc.get('bits', 16), desc['sigs']
	ks = _kspec(k)
	dt = np.dtype({16: np.uint16, 32: np.uint32, 64: np.uint64}[bits])
	arrs = _arrs(sigs, bits)
	if kind == 'array':
		return SignatureArray(arrs, ks, dtype=dt)
	if kind == 'list':
		return SignatureList(arrs, ks, dtype=dt)
	if kind == 'view':
		pad = _arrs([[98, 99]], bits) + arrs + _arrs([[97]], bits)
		return SignatureArray(pad, ks, dtype=dt)[1:-1]
	if kind == 'hdf5':
		key = (k, bits, tuple(tuple(s) for s in sigs))
		h = _state['h5'].get(key)
		if h is None or not h:
			if len(_state['h5']) > 200:
				# evict the oldest half (never the collection built just before this one)
				for old_key in list(_state['h5'])[:100]:
					try:
						_state['h5'].pop(old_key).close()
					except Exception:
						pass
			_state['nfile'] += 1
			path = os.path.join(_state['dir'], f'c{_state["nfile"]}.gs')
			dump_signatures(path, SignatureArray(arrs, ks, dtype=dt), 'hdf5')
			h = load_signatures(path)
			_state['h5'][key] = h
		return h
	raise ValueError(kind)


def _wire_coll(desc):
	return [KINDCODE[desc['kind']], desc.get('k', 0), desc.get('bits', 16), [list(s) for s in desc['sigs']]]


def _sarg_py(x):
	return 1.5 if x == 'bad' else x


def _sarg_wire(x):
	return [] if x is None else ([0, 0] if x == 'bad' else [x])


def _index(idx):
	"""index description -> (python object for the implementation, wire value for the model)"""
	import numpy as np
	t = idx['t']
	if t == 'int':
		v = idx['v']
		py = v if idx.get('np') is None else getattr(np, idx['np'])(v)
		return py, [0, v]
	if t == 'slice':
		return (slice(_sarg_py(idx['a']), _sarg_py(idx['b']), _sarg_py(idx['s'])),
		        [1, _sarg_wire(idx['a']), _sarg_wire(idx['b']), _sarg_wire(idx['s'])])
	if t == 'ints':
		bits, sg = DT_BITS[idx['dt']]
		v = list(idx['v'])
		if idx['dt'] == 'list':
			py = v
		elif idx['dt'] == 'tuple':
			py = tuple(v)
		else:
			py = np.array(v, dtype=getattr(np, idx['dt']))
		return py, [2, bits, sg, v]
	if t == 'mask':
		m = [bool(b) for b in idx['v']]
		py = m if idx.get('as') == 'list' else np.array(m, dtype=bool)
		return py, [3, m]
	if t == 'nolen':
		return {'float': 1.5, 'none': None, 'complex': 2j}[idx['v']], [4]
	if t == 'badarr':
		v = idx['v']
		py = {'2d': [[0, 1]], 'float': [0.0, 1.0], 'str': 'ab', 'floatarr': np.array([1.0]), '0d': np.array(1),
		      'mixed': [0, 1.5], 'bigint': [2 ** 70], 'emptyfloat': np.array([], dtype=float)}[v]
		return py, [5]
	raise ValueError(t)


def _oracle(l, idx):
	"""what a plain Python list does"""
	n = len(l)
	t = idx['t']
	try:
		if t == 'int':
			return ['sig', l[idx['v']]]
		if t == 'slice':
			if 'bad' in (idx['a'], idx['b'], idx['s']):
				return ['err', 'TypeError']
			return ['coll', l[slice(idx['a'], idx['b'], idx['s'])]]
		if t == 'ints':
			return ['coll', [l[i] for i in idx['v']]]
		if t == 'mask':
			if len(idx['v']) != n:
				return ['err', 'IndexError']
			return ['coll', [x for x, b in zip(l, idx['v']) if b]]
		if t == 'nolen':
			return ['err', 'TypeError']
		if t == 'badarr':
			return ['err', 'IndexError']
	except IndexError:
		return ['err', 'IndexError']
	except ValueError:
		return ['err', 'ValueError']
	except TypeError:
		return ['err', 'TypeError']


def _obs_impl(coll, py):
	import numpy as np
	from gambit.sigs.base import AbstractSignatureArray
	try:
		r = coll[py]
	except (IndexError, TypeError, ValueError) as e:
		return ['err', type(e).__name__], None
	except Exception as e:
		return ['err', 'other:' + type(e).__name__], None
	if isinstance(r, np.ndarray):
		return ['sig', [int(x) for x in r]], r
	if isinstance(r, AbstractSignatureArray):
		try:
			return ['coll', [[int(x) for x in s] for s in r]], r
		except Exception as e:
			return ['err', 'iter:' + type(e).__name__], r
	return ['err', 'type:' + type(r).__name__], r


def _dec_sres(v):
	if v[0] == 0:
		return ['sig', v[1]]
	if v[0] == 1:
		return ['coll', v[1]]
	return ['err', ERR.get(v[1], f'err{v[1]}')]


def _dec_gres(v):
	"""-> (observable, meta) meta = dict(kind,k,bits,values,bounds) for collections"""
	if v[0] == 0:
		return ['sig', v[1]], None
	if v[0] == 2:
		return ['err', ERR.get(v[1], f'err{v[1]}')], None
	if v[0] == 1:
		items = v[4]
		meta = dict(kind=v[1], k=v[2], bits=v[3], values=v[5], bounds=v[6])
		if len(items) == 2 and items[0] == 2 and isinstance(items[1], int):
			return ['err', 'iter:' + ERR.get(items[1], '?')], meta
		return ['coll', items], meta
	return ['err', 'malformed'], None


def _snapshot(py):
	import numpy as np
	if isinstance(py, np.ndarray):
		return (str(py.dtype), py.tobytes())
	if isinstance(py, list):
		return ('list', repr(py))
	return None


def k_getitem(ctx, cases):
	import numpy as np
	reqs = []
	for c in cases:
		_, w = _index(c['idx'])
		wc = _wire_coll(c)
		if len(c['sigs']) > 2000 and c['kind'] != 'list':
			# the list-based model of the (values, bounds) constructor is quadratic: very long collections go
			# through the model as list-backed ones only (the implementation is still compared with the oracle)
			wc = [1] + wc[1:]
		reqs += [(2001, [wc, w]), (2003, [wc[3], w])]
	ans = ctx.model(reqs) if ctx.model_ok else None
	for i, c in enumerate(cases):
		l = [list(s) for s in c['sigs']]
		n = len(l)
		idx = c['idx']
		coll = _build(c)
		py, w = _index(idx)
		before = _snapshot(py)
		desc = f"{c['kind']} collection of {n} signatures indexed with {py!r}"
		obs, r = _obs_impl(coll, py)
		after = _snapshot(py)
		want = _oracle(l, idx)
		plain = idx['t'] == 'int' and 0 <= idx['v'] < n
		ctx.case(c if n <= 8 else dict(kind=c['kind'], n=n, idx=idx), nontrivial=(n >= 2 and not plain))
		if obs != want:
			old = None
			if ctx.model_ok:
				try:
					old = _dec_gres(ctx.model([(2002, [_wire_coll(c), w])])[0])[0]
				except Exception:
					old = None
			note = ' (this is what the model of the index-array conversion as found, in-place add in the index dtype, predicts)' \
				if old == obs else ''
			ctx.violation('getitem', c, f'{desc}: got {_short(obs)}, a plain list gives {_short(want)}{note}',
			              impl=obs, spec=want, model=(_dec_gres(ans[2 * i])[0] if ans else None), model_as_found=old)
			continue
		if before != after:
			ctx.violation('getitem', c, f'{desc}: the caller\'s index object was modified', impl=str(after), spec=str(before))
			continue
		# type / parameters / dtype of sub-collections
		if obs[0] == 'coll':
			from gambit.sigs.base import SignatureArray, SignatureList
			wt = SignatureList if c['kind'] == 'list' else SignatureArray
			bits = c.get('bits', 16)
			if type(r) is not wt or r.kmerspec != _kspec(c.get('k', 0)) or np.dtype(r.dtype) != np.dtype(f'uint{bits}') \
					or len(r) != len(obs[1]):
				ctx.violation('getitem', c, f'{desc}: sub-collection is {type(r).__name__} len={len(r)} kmerspec={r.kmerspec} '
				              f'dtype={r.dtype}, expected {wt.__name__} with the parent\'s parameters and dtype',
				              impl=[type(r).__name__, str(r.kmerspec), str(r.dtype)], spec=[wt.__name__, c.get('k', 0), bits])
				continue
		elif obs[0] == 'sig':
			if r.dtype != np.dtype(f'uint{c.get("bits", 16)}'):
				ctx.violation('getitem', c, f'{desc}: signature dtype {r.dtype}', impl=str(r.dtype), spec=c.get('bits', 16))
				continue
		if ans is None:
			continue
		m, meta = _dec_gres(ans[2 * i])
		s = _dec_sres(ans[2 * i + 1])
		if s != want:
			ctx.broke('Coq specification list_getitem vs CPython list', f'{desc}: Spec/C20.v gives {_short(s)}, CPython {_short(want)}; case {c}')
		elif m != obs:
			ctx.broke('correspondence getitem (Model/C20.v vs implementation)', f'{desc}: model {_short(m)}, implementation {_short(obs)}; case {c}')
		elif meta is not None and c['kind'] in ('array', 'view', 'hdf5') and len(c['sigs']) <= 2000:
			# representation of the sub-collection: public attributes values / bounds
			if meta['kind'] != 0 or meta['k'] != c.get('k', 0) or meta['bits'] != c.get('bits', 16) or \
					[int(x) for x in r.values] != meta['values'] or [int(x) for x in r.bounds] != meta['bounds']:
				ctx.broke('correspondence getitem (values/bounds of the sub-collection)',
				          f'{desc}: model values={meta["values"]} bounds={meta["bounds"]}, implementation '
				          f'values={list(map(int, r.values))} bounds={list(map(int, r.bounds))}')


def _short(o):
	s = repr(o)
	return s if len(s) < 160 else s[:150] + '...'


def _failing(items, after):
	"""a caller-supplied iterator that yields `after` items and then raises"""
	for i, x in enumerate(items):
		if i == after:
			raise RuntimeError('caller-supplied iterator fails part-way')
		yield x
	if after >= len(items):
		raise RuntimeError('caller-supplied iterator fails at its end')


def _apply(seq, op, arr):
	"""apply one mutation to a list-like; returns the outcome"""
	t = op[0]
	new = None
	if t in ('ext', 'iadd', 'extfail', 'iaddfail'):
		new = [arr(s) for s in op[1]]
	elif t == 'setslice':
		new = [arr(s) for s in op[4]]
	given = list(new) if new is not None else None
	out = _apply1(seq, op, arr, new)
	# the caller's own list of new signatures is left as it was (same objects, same order)
	if new is not None and (len(new) != len(given) or any(x is not y for x, y in zip(new, given))):
		return ['err', 'the caller\'s list of new signatures was modified']
	return out


def _apply1(seq, op, arr, new):
	t = op[0]
	try:
		if t == 'set':
			seq[op[1]] = arr(op[2])
		elif t == 'del':
			del seq[op[1]]
		elif t == 'ins':
			seq.insert(op[1], arr(op[2]))
		elif t == 'pop':
			return ['sig', [int(x) for x in seq.pop(op[1])]]
		elif t == 'app':
			seq.append(arr(op[1]))
		elif t == 'ext':
			seq.extend(new)
		elif t == 'iadd':
			seq += new
		elif t == 'extfail':
			seq.extend(_failing(new, op[2]))
		elif t == 'iaddfail':
			seq += _failing(new, op[2])
		elif t == 'rev':
			seq.reverse()
		elif t == 'clear':
			seq.clear()
		elif t == 'setslice':
			seq[slice(op[1], op[2], op[3])] = new
		elif t == 'delslice':
			del seq[slice(op[1], op[2], op[3])]
		else:
			raise AssertionError('unknown mutation ' + str(t))
	except (IndexError, ValueError, TypeError) as e:
		return ['err', type(e).__name__]
	except RuntimeError:
		if t not in ('extfail', 'iaddfail'):
			raise
		return ['err', 'RuntimeError']
	return ['coll', []]


PRIMS = {'set': 0, 'del': 1, 'ins': 2, 'pop': 3, 'app': 4}


def k_mutate(ctx, cases):
	import numpy as np
	from gambit.sigs.base import SignatureList
	reqs, prim = [], []
	for c in cases:
		p = all(op[0] in PRIMS for op in c['ops'])
		prim.append(p)
		if p:
			wops = [[PRIMS[op[0]]] + list(op[1:]) for op in c['ops']]
			reqs += [(2004, [[1, 0, 16, c['sigs']], wops]), (2005, [c['sigs'], wops])]
	ans = ctx.model(reqs) if (ctx.model_ok and reqs) else None
	j = 0
	for ci, c in enumerate(cases):
		arr = lambda s: np.array(s, dtype=np.uint16)
		ks = _kspec(0)
		sl = SignatureList([arr(s) for s in c['sigs']], ks, dtype=np.dtype(np.uint16))
		pl = [arr(s) for s in c['sigs']]
		outs = []
		nt = len(c['ops']) >= 3
		failed = False
		bad = None
		for step, op in enumerate(c['ops']):
			oi = _apply(sl, op, arr)
			oo = _apply(pl, op, arr)
			outs.append(oo)
			if oo[0] == 'err':
				failed = True
			si = [[int(x) for x in s] for s in sl]
			so = [[int(x) for x in s] for s in pl]
			if oi != oo or si != so or len(sl) != len(pl):
				bad = (step, op, oi, oo, si, so)
				break
		ctx.case(c, nontrivial=nt and (failed or any(isinstance(op[1], int) and op[1] < 0 for op in c['ops'] if len(op) > 1)))
		if bad:
			step, op, oi, oo, si, so = bad
			ctx.violation('mutate', c, f'SignatureList after step {step} {op}: outcome {oi} state {_short(si)}; plain list: '
			              f'outcome {oo} state {_short(so)}', impl=[oi, si], spec=[oo, so])
			continue
		if sl.kmerspec != ks or np.dtype(sl.dtype) != np.dtype(np.uint16):
			ctx.violation('mutate', c, 'k-mer parameters / dtype changed by mutations', impl=[str(sl.kmerspec), str(sl.dtype)])
			continue
		# the mutated collection still indexes like the list
		final = [[int(x) for x in s] for s in pl]
		for py in (slice(None, None, -1), slice(1, None, 2), list(range(-len(pl), 0))):
			got = [[int(x) for x in s] for s in sl[py]]
			exp = final[py] if isinstance(py, slice) else [final[i] for i in py]
			if got != exp:
				ctx.violation('mutate', c, f'after the history, indexing with {py!r} gives {_short(got)}, list {_short(exp)}',
				              impl=got, spec=exp)
		if prim[ci] and ans is not None:
			m, s = ans[2 * j], ans[2 * j + 1]
			j += 1
			want = [final, [[0, o[1]] if o[0] == 'sig' else ([1, []] if o[0] == 'coll' else
			                [2, {v: k for k, v in ERR.items()}[o[1]]]) for o in outs]]
			if s != want:
				ctx.broke('Coq specification spec_history vs CPython list', f'case {c}: spec {_short(s)} CPython {_short(want)}')
			elif m != want:
				ctx.broke('correspondence mutate (Model/C20.v sl_history vs SignatureList)', f'case {c}: model {_short(m)} impl {_short(want)}')
		elif prim[ci]:
			j += 1


def k_eq(ctx, cases):
	reqs = []
	for c in cases:
		a, b = c['a'], c['b']
		reqs += [(2006, [_wire_coll(a), _wire_coll(b)]), (2007, [a.get('k', 0), a['sigs'], b.get('k', 0), b['sigs']])]
	ans = ctx.model(reqs) if ctx.model_ok else None
	for i, c in enumerate(cases):
		a, b = c['a'], c['b']
		x, y = _build(a), _build(b)
		want = a.get('k', 0) == b.get('k', 0) and [list(s) for s in a['sigs']] == [list(s) for s in b['sigs']]
		try:
			got = [bool(x == y), bool(y == x), not bool(x != y)]
		except Exception as e:
			got = ['exception ' + type(e).__name__]
		close = len(a['sigs']) == len(b['sigs'])
		ctx.case(c, nontrivial=close and len(a['sigs']) >= 1)
		if got != [want] * 3:
			ctx.violation('eq', c, f'{a["kind"]} == {b["kind"]} (both orders, and not !=) gives {got}; parameters and all '
			              f'signatures equal: {want}', impl=got, spec=want)
			continue
		if ans is None:
			continue
		m = ans[2 * i]
		s = bool(ans[2 * i + 1])
		if s != want:
			ctx.broke('Coq specification spec_eq', f'case {c}: {s} vs {want}')
		elif m != [0, 1 if want else 0]:
			ctx.broke('correspondence eq (Model/C20.v coll_eq vs __eq__)', f'case {c}: model {m}, implementation {got}')


# ======================================================================================================
# Coverage-audit streams: xindex / session / eqx.  They drive collection constructions, index containers
# and call sequences that the modelled streams above do not produce.  Judged by the property predicate
# and the CPython list oracle ONLY (no Coq model comparison: these inputs are outside the modelled
# domain of Model/C20.v -- other dtypes / byte orders / constructors / wrappers / call sequences).
# ======================================================================================================

XDT_MAX = {'uint8': 2 ** 8 - 1, 'uint16': 2 ** 16 - 1, 'uint32': 2 ** 32 - 1, 'uint64': 2 ** 64 - 1, 'int16': 2 ** 15 - 1,
           'int32': 2 ** 31 - 1, 'int64': 2 ** 63 - 1, '>u2': 2 ** 16 - 1, '>u4': 2 ** 32 - 1, '>u8': 2 ** 64 - 1}
ARRAY_HOWS = ['array', 'array-infer', 'array-tuple', 'array-copy', 'array-astype', 'array-from-list', 'from-arrays', 'view',
              'view2', 'sub-ints', 'sub-mask', 'sub-rev']
LIST_HOWS = ['list', 'list-gen', 'list-tuple', 'list-from-array', 'list-infer', 'list-sub', 'list-built', 'list-ints']
IDX_DTS = ['int8', 'int16', 'int32', 'int64', 'uint8', 'uint16', 'uint32', 'uint64', 'intp', 'uintp',
           '>i2', '>i4', '>i8', '>u2', '>u4', '>u8']
IDX_LAYOUTS = ['contig', 'strided', 'neg', 'ro', 'unaligned', 'col', 'bcast']
NP_SCALARS = ['int8', 'int16', 'int32', 'int64', 'uint8', 'uint16', 'uint32', 'uint64', 'intp', 'uintp', 'intc', 'short',
              'ubyte', 'longlong', 'ulonglong', 'int_']
JUNK = [[1], [2, 3]]


def _xks(k):
	"""k-mer parameters of the audit streams: 0..2 as _kspec, 3 = the package default, 4 = the same parameters as 0
	spelled differently (lower-case bytes prefix), None = no parameters"""
	from gambit.kmers import KmerSpec
	if k is None:
		return None
	if k == 3:
		return KmerSpec(11, 'ATGAC')
	if k == 4:
		return KmerSpec(6, b'at')
	return _kspec(k)


def _kid(k):
	return 0 if k == 4 else k


def _idx_range(dt):
	import numpy as np
	ii = np.iinfo(np.dtype(dt))
	return int(ii.min), int(ii.max)


def _xbuild(d, shared=None):
	"""d = dict(how, k, dt, sigs, opts) -> dict(obj, base, ks, dt).  Every `how` yields a collection whose content is
	exactly d['sigs'] (junk signatures only pad parents that are sliced away again).  shared = dict(arrs, ks): the
	caller's own list of signature arrays and KmerSpec object to build from (xseq: several collections are built
	from the very same objects, which must stay as they are)."""
	import json
	import numpy as np
	import h5py
	from gambit.sigs.base import SignatureArray, SignatureList, AnnotatedSignatures, SignaturesMeta, dump_signatures, \
		load_signatures
	from gambit.sigs.hdf5 import HDF5Signatures, load_signatures_hdf5
	how, k, sigs, o = d['how'], d.get('k', 0), d['sigs'], d.get('opts') or {}
	dt = np.dtype(d.get('dt', 'uint16'))
	ks = _xks(k) if shared is None else shared['ks']
	n = len(sigs)
	A = lambda ss, t=dt: [np.array(s, dtype=t) for s in ss]
	arrs = A(sigs) if shared is None else shared['arrs']
	ann = how.startswith('ann:')
	if ann:
		how = how[4:]
	base = 'list' if how.startswith('list') else 'array'
	if how == 'array':
		obj = SignatureArray(arrs, ks, dtype=dt)
	elif how == 'array-infer':
		obj = SignatureArray(arrs, ks) if n else SignatureArray(arrs, ks, dtype=dt)
	elif how == 'array-tuple':
		obj = SignatureArray(tuple(arrs), ks, dtype=dt)
	elif how == 'array-copy':
		obj = SignatureArray(SignatureArray(arrs, ks, dtype=dt))
	elif how == 'array-astype':
		wide = np.dtype(np.uint64 if dt.kind == 'u' else np.int64)
		obj = SignatureArray(SignatureArray(A(sigs, wide), ks, dtype=wide), dtype=dt)
	elif how == 'array-from-list':
		obj = SignatureArray(SignatureList(arrs, ks, dtype=dt), dtype=(None if n else dt))
	elif how == 'from-arrays':
		bounds = [0]
		for s in sigs:
			bounds.append(bounds[-1] + len(s))
		obj = SignatureArray.from_arrays(np.array([x for s in sigs for x in s], dtype=dt),
		                                 np.array(bounds, dtype=o.get('bdt', 'intp')), ks)
	elif how == 'view':
		obj = SignatureArray(A(JUNK[:1]) + arrs + A(JUNK[1:]), ks, dtype=dt)[1:-1]
	elif how == 'view2':
		obj = SignatureArray(A(JUNK) + arrs + A(JUNK), ks, dtype=dt)[1:-1][1:-1]
	elif how == 'sub-ints':
		obj = SignatureArray(A(JUNK[:1]) + arrs[::-1], ks, dtype=dt)[list(range(n, 0, -1))]
	elif how == 'sub-mask':
		inter = []
		for a in arrs:
			inter += [a] + A(JUNK[1:])
		obj = SignatureArray(inter, ks, dtype=dt)[np.array([1, 0] * n, dtype=bool)]
	elif how == 'sub-rev':
		obj = SignatureArray(arrs[::-1], ks, dtype=dt)[::-1]
	elif how == 'list':
		obj = SignatureList(arrs, ks, dtype=dt)
	elif how == 'list-gen':
		obj = SignatureList((a for a in arrs), ks, dtype=dt)
	elif how == 'list-tuple':
		obj = SignatureList(tuple(arrs), ks, dtype=dt)
	elif how == 'list-from-array':
		obj = SignatureList(SignatureArray(arrs, ks, dtype=dt))
	elif how == 'list-infer':
		obj = SignatureList(arrs, ks) if n else SignatureList(arrs, ks, dtype=dt)
	elif how == 'list-sub':
		obj = SignatureList(A(JUNK[:1]) + arrs + A(JUNK[1:]), ks, dtype=dt)[1:-1]
	elif how == 'list-built':
		obj = SignatureList([], ks, dtype=dt)
		for a in arrs[::-1]:
			obj.insert(0, a)
	elif how == 'list-ints':
		obj = SignatureList(A(JUNK[:1]) + arrs[::-1], ks, dtype=dt)[np.arange(n, 0, -1)]
	elif how == 'hdf5':
		key = 'x:' + json.dumps(d, sort_keys=True)
		obj = _state['h5'].get(key)
		if obj is None or not obj:
			if len(_state['h5']) > 200:
				for old_key in list(_state['h5'])[:100]:
					try:
						_state['h5'].pop(old_key).close()
					except Exception:
						pass
			_state['nfile'] += 1
			path = os.path.join(_state['dir'], f'x{_state["nfile"]}.gs')
			src = SignatureList(arrs, ks, dtype=dt) if o.get('src') == 'list' else SignatureArray(arrs, ks, dtype=dt)
			ids = o.get('ids')
			if ids:
				idl = {'str': [f'g{i}' for i in range(n)], 'int': [100 + i for i in range(n)],
				       'strB': [f'other/{n - i}' for i in range(n)]}[ids]
				meta = SignaturesMeta(id=f'set-{ids}', name=ids, version='1.0', id_attr='key', description='d',
				                      extra={'n': n}) if o.get('meta') else None
				ida = np.asarray(idl) if n else (np.zeros(0, dtype=int) if ids == 'int' else np.array([], dtype=object))
				src = AnnotatedSignatures(src, ida, meta)
			kw = {} if not o.get('comp') else dict(compression=o['comp'])
			if o.get('group'):
				with h5py.File(path, 'w') as f:
					HDF5Signatures.create(f.create_group('grp/x'), src, **kw)
				obj = HDF5Signatures(h5py.File(path, 'r')['grp/x'])
			else:
				dump_signatures(path, src, 'hdf5', **kw)
				opn = o.get('open', 'default')
				if opn == 'fn':
					obj = load_signatures_hdf5(path)
				else:
					obj = load_signatures(path, **{'default': {}, 'mode-r': dict(mode='r'),
					                               'core': dict(driver='core', backing_store=False)}[opn])
			_state['h5'][key] = obj
	else:
		raise ValueError(how)
	if ann:
		aids = o.get('aids')
		obj = AnnotatedSignatures(obj, None if not aids else [f'{aids}{i}' for i in range(n)],
		                          SignaturesMeta(id=aids) if aids else None)
	return dict(obj=obj, base=base, ks=ks, dt=dt, ann=ann)


def _nd(vals, dt, lay):
	"""numpy array holding vals with the given dtype and memory layout -> (array, [objects to snapshot])"""
	import numpy as np
	dt = np.dtype(dt)
	a = np.array(vals, dtype=dt)
	junk = True if dt.kind == 'b' else 1
	if lay == 'strided':
		basearr = np.full(2 * len(a) + 1, junk, dtype=dt)
		basearr[1::2] = a
		return basearr[1::2], [basearr]
	if lay == 'neg':
		basearr = a[::-1].copy()
		return basearr[::-1], [basearr]
	if lay == 'ro':
		a.setflags(write=False)
		return a, [a]
	if lay == 'unaligned':
		raw = bytearray(1 + a.nbytes)
		raw[1:] = a.tobytes()
		return np.frombuffer(raw, dtype=dt, offset=1), [raw]
	if lay == 'col':
		basearr = np.full((len(a), 3), junk, dtype=dt)
		basearr[:, 1] = a
		return basearr[:, 1], [basearr]
	if lay == 'bcast' and len(vals) and all(v == vals[0] for v in vals):
		basearr = np.array(vals[0], dtype=dt)
		return np.broadcast_to(basearr, (len(vals),)), [basearr]
	return a, [a]


def _npint(x, ty):
	"""Python int / None -> index scalar of the named kind"""
	import enum
	import numpy as np
	if x is None or ty in (None, 'py'):
		return x
	if ty == 'bool':
		return bool(x)
	if ty == 'intenum':
		return enum.IntEnum('E', {'X': x}).X
	return getattr(np, ty)(x)


def _xindex(idx):
	"""extended index description -> (python index object, objects to snapshot, strict)
	strict=False: the input is a sequence/scalar that a plain list or NumPy would read as integers but that the
	property does not name (bool scalars, IntEnum, range, bytearray, array.array, memoryview, tuple masks, lists
	mixing bool and int); for those the implementation may either select what a list would or refuse with an
	index/type error -- it must never select anything else."""
	import array
	import numpy as np
	t = idx['t']
	if t == 'int':
		ty = idx.get('as', 'py')
		return _npint(idx['v'], ty), [], ty not in ('bool', 'intenum')
	if t == 'slice':
		tys = idx.get('np') or [None, None, None]
		py = slice(_npint(idx['a'], tys[0]), _npint(idx['b'], tys[1]), _npint(idx['s'], tys[2]))
		return py, [], 'bool' not in tys
	if t == 'ints':
		c, v = idx['c'], list(idx['v'])
		if c == 'nd':
			py, extras = _nd(v, idx['dt'], idx.get('lay', 'contig'))
			return py, extras, True
		if c in ('list-np', 'tuple-np'):
			tys = idx['tys']
			py = [_npint(x, tys[i % len(tys)]) for i, x in enumerate(v)]
			# NumPy promotes a list mixing 64-bit unsigned and signed scalars to float64 (and refuses it as an index
			# itself): such a list is judged leniently
			used = {np.dtype(getattr(np, ty)) for ty in tys[:len(v)]}
			mixed = any(d.kind == 'u' and d.itemsize == 8 for d in used) and any(d.kind == 'i' for d in used)
			return (py if c == 'list-np' else tuple(py)), [], not mixed
		if c == 'mixbool':
			return [bool(x) if i in idx['bp'] else x for i, x in enumerate(v)], [], False
		if c == 'range':
			return range(*idx['r']), [], False
		if c == 'array.array':
			return array.array(idx.get('tc', 'q'), v), [], False
		if c == 'bytearray':
			return bytearray(v), [], False
		if c == 'memoryview':
			basearr = np.array(v, dtype=idx.get('dt', 'int64'))
			return memoryview(basearr), [basearr], False
		if c == 'raising':
			return _Raising(v, idx['at']), [], False
	if t == 'mask':
		c, m = idx['c'], [bool(b) for b in idx['v']]
		if c == 'nd':
			py, extras = _nd(m, 'bool', idx.get('lay', 'contig'))
			return py, extras, True
		if c == 'list-np':
			return [np.bool_(b) for b in m], [], True
		if c == 'tuple':
			return tuple(m), [], False
	raise ValueError(idx)


class _Raising:
	"""a caller-supplied index container that raises part-way (position `at`) while it is read"""

	def __init__(self, v, at):
		self.v, self.at, self.reads = list(v), at, 0

	def __len__(self):
		return len(self.v)

	def __getitem__(self, i):
		if isinstance(i, slice):
			raise RuntimeError('caller-supplied container: slicing fails')
		if not -len(self.v) <= i < len(self.v):
			raise IndexError(i)
		self.reads += 1
		if i % len(self.v) == self.at:
			raise RuntimeError('caller-supplied container fails part-way')
		return self.v[i]

	def __iter__(self):
		for i in range(len(self.v)):
			yield self[i]

	def __repr__(self):
		return f'<container of {self.v} raising RuntimeError at position {self.at}>'


def _xsnap(py, extras):
	import array
	import numpy as np
	out = []
	for x in list(extras) + [py]:
		if isinstance(x, _Raising):
			out.append(('raising', repr(x.v), x.at))
		elif isinstance(x, np.ndarray):
			out.append((str(x.dtype), x.shape, x.tobytes()))
		elif isinstance(x, (bytearray, memoryview, array.array)):
			out.append(bytes(x))
		elif isinstance(x, (list, tuple, range)):
			out.append(repr(x))
	return out


def _xoracle(l, idx):
	"""what a plain list does with the integers / mask the index stands for"""
	t = idx['t']
	try:
		if t == 'int':
			return ['sig', l[idx['v']]]
		if t == 'slice':
			return ['coll', l[slice(idx['a'], idx['b'], idx['s'])]]
		if t == 'ints':
			return ['coll', [l[i] for i in idx['v']]]
		if t == 'mask':
			if len(idx['v']) != len(l):
				return ['err', 'IndexError']
			return ['coll', [x for x, b in zip(l, idx['v']) if b]]
	except IndexError:
		return ['err', 'IndexError']
	except ValueError:
		return ['err', 'ValueError']
	raise ValueError(idx)


def _errclass(e):
	return 'Index/TypeError' if e in ('IndexError', 'TypeError') else e


def _xjudge(obs, want, strict):
	if want[0] == 'err':
		return obs[0] == 'err' and _errclass(obs[1]) == _errclass(want[1])
	return obs == want or (not strict and obs[0] == 'err' and obs[1] in ('IndexError', 'TypeError'))


def _dtc(x):
	import numpy as np
	x = np.dtype(x)
	return (x.kind, x.itemsize)


def _xmeta(r, obs, B):
	"""sub-collections keep type, k-mer parameters and integer type (also of every item) -> None or complaint"""
	import numpy as np
	from gambit.sigs.base import SignatureArray, SignatureList
	dt = B['dt']
	same = (lambda x: np.dtype(x) == dt) if dt.isnative else (lambda x: _dtc(x) == _dtc(dt))
	if obs[0] == 'sig':
		return None if same(r.dtype) else f'signature dtype {r.dtype}, collection dtype {dt}'
	if obs[0] != 'coll':
		return None
	wt = SignatureList if B['base'] == 'list' else SignatureArray
	if type(r) is not wt and not B.get('ann'):
		# (what the AnnotatedSignatures wrapper returns is not named by the property: any collection type is accepted)
		return f'sub-collection is a {type(r).__name__}, expected {wt.__name__}'
	if r.kmerspec != B['ks'] or (r.kmerspec is None) != (B['ks'] is None):
		return f'sub-collection has k-mer parameters {r.kmerspec}, parent {B["ks"]}'
	if not same(r.dtype):
		return f'sub-collection has dtype {r.dtype}, parent {dt}'
	if len(r) != len(obs[1]):
		return f'len(sub-collection) = {len(r)} but it iterates over {len(obs[1])} signatures'
	for s in r:
		if not same(s.dtype):
			return f'a signature of the sub-collection has dtype {s.dtype}, parent {dt}'
	return None


def _content(coll):
	return [[int(x) for x in s] for s in coll]


def k_xindex(ctx, cases):
	for c in cases:
		B = _xbuild(c['coll'])
		coll = B['obj']
		l = [list(s) for s in c['coll']['sigs']]
		n = len(l)
		idx = c['idx']
		py, extras, strict = _xindex(idx)
		before = _xsnap(py, extras)
		desc = f"{c['coll']['how']} collection ({c['coll'].get('dt', 'uint16')}, k-mer parameters #{c['coll'].get('k', 0)}) of {n} " \
		       f"signatures indexed with {py!r}"
		obs, r = _obs_impl(coll, py)
		obs2, _ = _obs_impl(coll, py)
		after = _xsnap(py, extras)
		want = _xoracle(l, idx)
		plain = idx['t'] == 'int' and idx.get('as', 'py') == 'py' and 0 <= idx['v'] < n
		ctx.case(c if n <= 8 else dict(coll=dict(c['coll'], sigs=n), idx=idx), nontrivial=(n >= 2 and not plain))
		if not _xjudge(obs, want, strict):
			ctx.violation('xindex', c, f'{desc}: got {_short(obs)}, a plain list gives {_short(want)}'
			              + ('' if strict else ' (or an index/type error would be acceptable for this kind of index object)'),
			              impl=obs, spec=want)
			continue
		if obs2 != obs:
			ctx.violation('xindex', c, f'{desc}: the same index object gives {_short(obs)} the first and {_short(obs2)} the second time',
			              impl=[obs, obs2], spec=want)
			continue
		if before != after:
			ctx.violation('xindex', c, f'{desc}: the caller\'s index object (or the buffer it views) was modified',
			              impl=str(after)[:300], spec=str(before)[:300])
			continue
		bad = _xmeta(r, obs, B)
		if bad:
			ctx.violation('xindex', c, f'{desc}: {bad}', impl=bad)
			continue
		try:
			now = _content(coll)
			ok = now == l and len(coll) == n
		except Exception as e:
			now, ok = 'exception ' + type(e).__name__, False
		if not ok:
			ctx.violation('xindex', c, f'{desc}: afterwards the collection itself reads {_short(now)}, before {_short(l)}',
			              impl=now, spec=l)


def _mut_op(op):
	"""session mutation ['set', i, sig, 'int64'] -> (_apply op for the SignatureList with a NumPy scalar index,
	_apply op for the plain list)"""
	if op[0] in ('set', 'ins') and len(op) == 4:
		return [op[0], _npint(op[1], op[3]), op[2]], op[:3]
	if op[0] in ('del', 'pop') and len(op) == 3:
		return [op[0], _npint(op[1], op[2])], op[:2]
	return op, op


def k_session(ctx, cases):
	import numpy as np
	for c in cases:
		B = _xbuild(c['coll'])
		sigs = [list(s) for s in c['coll']['sigs']]
		idxs = c['idxs']
		built = [_xindex(d) for d in idxs]
		snaps = [_xsnap(b[0], b[1]) for b in built]
		objs = [B['obj']]
		ors = [[list(s) for s in sigs]]
		arr = lambda s: np.array(s, dtype=B['dt'])
		what = None
		muts = nested = 0

		def verify(upto_step):
			for j, (o, w) in enumerate(zip(objs, ors)):
				if j == 0 and c['coll']['how'].endswith('hdf5') and upto_step is not None:
					continue   # the file-backed root is re-read at the end only
				try:
					now = _content(o)
					okk = now == w and len(o) == len(w)
				except Exception as e:
					now, okk = 'exception ' + type(e).__name__, False
				if not okk:
					return (f'object #{j} ({"the collection" if j == 0 else "a sub-collection taken earlier"}) reads {_short(now)}, '
					        f'a plain list / independent copy holds {_short(w)}', now, w)
			return None

		for si, st in enumerate(c['steps']):
			where = f'step {si} {st}'
			if st[0] == 'get':
				t, j = st[1], st[2]
				py, _, strict = built[j]
				obs, r = _obs_impl(objs[t], py)
				want = _xoracle(ors[t], idxs[j])
				if not _xjudge(obs, want, strict):
					what = (f'{where}: object #{t} indexed with {py!r} gives {_short(obs)}, a plain list {_short(want)}', obs, want)
					break
				if want[0] == 'coll' and obs[0] != 'coll':
					what = 'skip'   # lenient refusal of an exotic index: nothing to continue with
					break
				bad = _xmeta(r, obs, B)
				if bad:
					what = (f'{where}: object #{t} indexed with {py!r}: {bad}', bad, None)
					break
				if obs[0] == 'coll':
					objs.append(r)
					ors.append([list(s) for s in want[1]])
					nested += t > 0
			elif st[0] == 'mut':
				t = st[1]
				oi_op, oo_op = _mut_op(st[2])
				oi = _apply(objs[t], oi_op, arr)
				oo = _apply(ors[t], oo_op, lambda s: list(s))
				muts += 1
				if oi != oo:
					what = (f'{where}: outcome {oi}, plain list {oo}', oi, oo)
					break
			elif st[0] == 'eq':
				a, b = st[1], st[2]
				want = ors[a] == ors[b]
				try:
					got = [bool(objs[a] == objs[b]), bool(objs[b] == objs[a]), not bool(objs[a] != objs[b])]
				except Exception as e:
					got = ['exception ' + type(e).__name__]
				if got != [want] * 3:
					what = (f'{where}: objects #{a} and #{b} hold {"equal" if want else "different"} signatures (same k-mer parameters) '
					        f'but ==, reversed ==, not != give {got}', got, want)
					break
			elif st[0] == 'iter':
				t = st[1]
				o, w = objs[t], ors[t]
				try:
					got = [len(o), _content(iter(o)), _content(reversed(o)), [[int(x) for x in o[i]] for i in range(len(w))]]
				except Exception as e:
					got = ['exception ' + type(e).__name__]
				exp = [len(w), w, w[::-1], w]
				if got != exp:
					what = (f'{where}: len / iter / reversed / item-by-item of object #{t} give {_short(got)}, a plain list {_short(exp)}',
					        got, exp)
					break
			bad = verify(si)
			if bad:
				what = (f'after {where}: {bad[0]}', bad[1], bad[2])
				break
		if what is None:
			bad = verify(None)
			if bad:
				what = (f'after the whole session: {bad[0]}', bad[1], bad[2])
		if what is None:
			for j, b in enumerate(built):
				if _xsnap(b[0], b[1]) != snaps[j]:
					what = (f'index object #{j} {b[0]!r} (used {sum(1 for s in c["steps"] if s[0] == "get" and s[2] == j)} times) was modified',
					        None, None)
					break
		if what is None:
			for j, o in enumerate(objs):
				if (o.kmerspec != B['ks']) or _dtc(o.dtype) != _dtc(B['dt']):
					what = (f'object #{j} ends with k-mer parameters {o.kmerspec} / dtype {o.dtype}, the collection had {B["ks"]} / {B["dt"]}',
					        None, None)
					break
		ctx.case(c, nontrivial=len(c['steps']) >= 3 and (muts > 0 or nested > 0))
		if what is not None and what != 'skip':
			ctx.violation('session', c, f'{c["coll"]["how"]} collection of {len(sigs)} signatures, ' + what[0], impl=what[1], spec=what[2])


def k_eqx(ctx, cases):
	import numpy as np
	from gambit.sigs.base import sigarray_eq
	import gambit.sigs
	for c in cases:
		a, b = c['a'], c['b']
		x = _xbuild(a)['obj']
		y = x if c.get('alias') else _xbuild(b)['obj']
		same_sigs = [list(s) for s in a['sigs']] == [list(s) for s in b['sigs']]
		want = _kid(a.get('k', 0)) == _kid(b.get('k', 0)) and same_sigs
		ctx.case(c if len(a['sigs']) <= 8 else dict(a=dict(a, sigs=len(a['sigs'])), b=dict(b, sigs=len(b['sigs'])), d=c.get('d')),
		         nontrivial=len(a['sigs']) == len(b['sigs']) and len(a['sigs']) >= 1)
		try:
			got = [bool(x == y), bool(y == x), not bool(x != y), not bool(y != x)]
		except Exception as e:
			got = ['exception ' + type(e).__name__]
		if got != [want] * 4:
			ctx.violation('eqx', c, f'{a["how"]} ({a.get("dt")}, parameters #{a.get("k", 0)}) == {b["how"]} ({b.get("dt")}, parameters '
			              f'#{b.get("k", 0)}){" (the same object)" if c.get("alias") else ""}: ==, reversed ==, not !=, reversed not != give '
			              f'{got}; parameters and all signatures equal: {want} [{c.get("d")}]', impl=got, spec=want)
			continue
		# the content comparison on its own (re-exported as gambit.sigs.sigarray_eq; also on plain sequences)
		try:
			px, py_ = [np.array(s, dtype=a.get('dt', 'uint16')) for s in a['sigs']], tuple(np.array(s, dtype=b.get('dt', 'uint16')) for s in b['sigs'])
			got = [bool(sigarray_eq(x, y)), bool(gambit.sigs.sigarray_eq(y, x)), bool(sigarray_eq(px, y)), bool(sigarray_eq(x, py_)),
			       bool(sigarray_eq(px, py_))]
		except Exception as e:
			got = ['exception ' + type(e).__name__]
		if got != [same_sigs] * 5:
			ctx.violation('eqx', c, f'sigarray_eq on {a["how"]} / {b["how"]} (collections, plain list vs collection, collection vs tuple, '
			              f'plain vs plain) gives {got}; all signatures equal: {same_sigs} [{c.get("d")}]', impl=got, spec=same_sigs)


# ======================================================================================================
# State / aliasing audit stream: xseq.  A case is a short script over a small POOL of shared objects: 2-3
# collections (some built from the very same Python list of arrays and KmerSpec object), 1-4 index objects
# used by reference against collections of different size / dtype / backing in any order, list mutations
# (also with caller-supplied iterators that fail part-way), ==, new collections constructed from pool
# collections, dump + load (also to a path used before).  Every step is judged by the list oracle; after
# every step every live pool object is re-read and every caller-owned object compared with its snapshot.
# ======================================================================================================

SHARED_HOWS = ['array', 'array-infer', 'array-tuple', 'list', 'list', 'list-infer', 'list-tuple', 'list-gen', 'view', 'list-sub']


def _in_thread(fn):
	"""run fn() in a second thread (one at a time: the calls are sequential, only the thread differs)"""
	import threading
	box = []

	def run():
		try:
			box.append((True, fn()))
		except BaseException as e:   # noqa
			box.append((False, e))
	th = threading.Thread(target=run)
	th.start()
	th.join()
	if not box[0][0]:
		raise box[0][1]
	return box[0][1]


def _input_snap(inp):
	ks = inp['ks']
	return ([id(a) for a in inp['arrs']], [(str(a.dtype), a.tobytes()) for a in inp['arrs']],
	        None if ks is None else (ks.k, ks.prefix, ks.prefix_str, ks.prefix_len, ks.total_len, ks.nkmers, str(ks.index_dtype)))


def _xseq_run(c):
	"""-> (None | (what, impl, spec), facts)"""
	import copy
	import attr
	import numpy as np
	from gambit.sigs.base import SignatureArray, SignatureList, AnnotatedSignatures, SignaturesMeta, dump_signatures, \
		load_signatures
	from gambit.sigs.hdf5 import load_signatures_hdf5
	idxs = c['idxs']
	built = [_xindex(d) for d in idxs]
	snaps = [_xsnap(b[0], b[1]) for b in built]
	inputs, in_snaps = {}, {}
	objs, ors, Bs = [], [], []
	for i, d in enumerate(c['colls']):
		j = d.get('share')
		if j is None:
			dt = np.dtype(d.get('dt', 'uint16'))
			inputs[i] = dict(arrs=[np.array(s, dtype=dt) for s in d['sigs']], ks=_xks(d.get('k', 0)))
			j = i
			in_snaps[i] = _input_snap(inputs[i])
		B = _xbuild(d, shared=inputs[j])
		objs.append(B.pop('obj'))
		B['k'] = _kid(d.get('k', 0))
		B['root'] = i
		Bs.append(B)
		ors.append([list(s) for s in d['sigs']])
	_state['nfile'] += 1
	stem = os.path.join(_state['dir'], f'q{_state["nfile"]}')
	slots = {}     # path slot -> index of the pool object loaded from it
	opened = []
	facts = dict(muts=0, crossed=0, failed_then_good=0)
	failed_on = set()
	used_on = {}

	def name(j):
		if j < len(c['colls']):
			return f'collection #{j} ({c["colls"][j]["how"]}, {c["colls"][j].get("dt", "uint16")})'
		return f'object #{j} ({Bs[j].get("origin", "?")})'

	def verify():
		for j, (o, w) in enumerate(zip(objs, ors)):
			if o is None:
				continue
			try:
				now = _content(o)
				okk = now == w and len(o) == len(w)
			except Exception as e:
				now, okk = 'exception ' + type(e).__name__ + ': ' + str(e)[:80], False
			if not okk:
				return (f'{name(j)} now reads {_short(now)}; a plain list / independent copy holds {_short(w)}', now, w)
			if o.kmerspec != Bs[j]['ks'] or (o.kmerspec is None) != (Bs[j]['ks'] is None) or _dtc(o.dtype) != _dtc(Bs[j]['dt']):
				return (f'{name(j)} now has k-mer parameters {o.kmerspec} / dtype {o.dtype}; it had {Bs[j]["ks"]} / {Bs[j]["dt"]}',
				        [str(o.kmerspec), str(o.dtype)], [str(Bs[j]['ks']), str(Bs[j]['dt'])])
		for j, b in enumerate(built):
			if _xsnap(b[0], b[1]) != snaps[j]:
				return (f'the caller\'s index object #{j} {b[0]!r} (or the buffer it views) was modified', None, None)
		for j, inp in inputs.items():
			now = _input_snap(inp)
			if now != in_snaps[j]:
				part = 'KmerSpec object' if now[2] != in_snaps[j][2] else 'list of signature arrays'
				return (f'the caller\'s {part} that collection #{j} (and those sharing it) was constructed from was modified: '
				        f'{len(now[0])} arrays now, {len(in_snaps[j][0])} given', None, None)
		return None

	def placeholder(content):
		objs.append(None)
		Bs.append(None)
		ors.append([list(s) for s in content])

	what = None
	try:
		bad = verify()
		if bad:
			what = (f'after constructing the collections: {bad[0]}', bad[1], bad[2])
		for si, st in enumerate(c['steps'] if what is None else []):
			where = f'step {si} {st}'
			kind = st[0]
			refs = [st[1], st[2]] if kind == 'eq' else [st[1]]
			if any(x >= len(objs) or objs[x] is None for x in refs):
				# refers to an object that does not exist (lenient refusal earlier) or whose file was closed: only the
				# bookkeeping of the step is done, so that the numbering of later objects stays as generated
				if any(x >= len(objs) for x in refs):
					continue
				t = st[1]
				if kind == 'mut':
					_apply(ors[t], _mut_op(st[2])[1], lambda s: list(s))
				elif kind in ('derive', 'dump'):
					placeholder(ors[t])
				elif kind == 'get' and idxs[st[2]].get('c') != 'raising':
					w = _xoracle(ors[t], idxs[st[2]])
					if w[0] == 'coll':
						placeholder(w[1])
				continue
			if kind == 'get':
				t, j = st[1], st[2]
				py, _, strict = built[j]
				raising = idxs[j].get('c') == 'raising'
				call = (lambda: _obs_impl(objs[t], py))
				obs, r = _in_thread(call) if 'thread' in st[3:] else call()
				obs2, _ = _obs_impl(objs[t], py)
				want = ['err', 'any'] if raising else _xoracle(ors[t], idxs[j])
				good = (obs[0] == 'err') if raising else _xjudge(obs, want, strict)
				if j in used_on and used_on[j] != t:
					facts['crossed'] += 1
				used_on[j] = t
				if not good:
					what = (f'{where}: {name(t)} indexed with {py!r} gives {_short(obs)}, a plain list '
					        + ('(any sequence) fails with the container\'s error' if raising else _short(want)), obs, want)
					break
				if obs2 != obs and not (raising and obs2[0] == 'err'):
					what = (f'{where}: {name(t)} indexed with {py!r} gives {_short(obs)} the first and {_short(obs2)} the second time',
					        [obs, obs2], want)
					break
				if obs[0] == 'err':
					failed_on.add(t)
				elif t in failed_on:
					facts['failed_then_good'] += 1
				bad = None if obs[0] == 'err' else _xmeta(r, obs, Bs[t])
				if bad:
					what = (f'{where}: {name(t)} indexed with {py!r}: {bad}', bad, None)
					break
				if want[0] == 'coll':
					if obs[0] == 'coll':
						objs.append(r)
						Bs.append(dict(base='list' if isinstance(r, SignatureList) else 'array', ks=Bs[t]['ks'], dt=Bs[t]['dt'],
						               ann=False, k=Bs[t]['k'], origin=f'step {si}: #{t}[index #{j}]', root=Bs[t]['root']))
						ors.append([list(s) for s in want[1]])
					else:
						placeholder(want[1])   # lenient refusal of an index object the property does not name
			elif kind == 'mut':
				t = st[1]
				oi_op, oo_op = _mut_op(st[2])
				oi = _apply(objs[t], oi_op, lambda s: np.array(s, dtype=Bs[t]['dt']))
				oo = _apply(ors[t], oo_op, lambda s: list(s))
				facts['muts'] += 1
				if oi != oo:
					what = (f'{where}: outcome {oi}, plain list {oo}', oi, oo)
					break
			elif kind == 'eq':
				a, b = st[1], st[2]
				want = Bs[a]['k'] == Bs[b]['k'] and ors[a] == ors[b]
				call = lambda: [bool(objs[a] == objs[b]), bool(objs[b] == objs[a]), not bool(objs[a] != objs[b]),
				                bool(objs[a] == objs[b])]
				try:
					got = _in_thread(call) if 'thread' in st[3:] else call()
				except Exception as e:
					got = ['exception ' + type(e).__name__]
				if got != [want] * 4:
					what = (f'{where}: {name(a)} and {name(b)} hold {"equal" if ors[a] == ors[b] else "different"} signatures and '
					        f'{"the same" if Bs[a]["k"] == Bs[b]["k"] else "different"} k-mer parameters, but ==, reversed ==, not !=, '
					        f'== again give {got}', got, want)
					break
			elif kind == 'iter':
				t = st[1]
				o, w = objs[t], ors[t]
				try:
					got = [len(o), _content(iter(o)), _content(reversed(o)), [[int(x) for x in o[i]] for i in range(len(w))]]
				except Exception as e:
					got = ['exception ' + type(e).__name__]
				exp = [len(w), w, w[::-1], w]
				if got != exp:
					what = (f'{where}: len / iter / reversed / item-by-item of {name(t)} give {_short(got)}, a plain list {_short(exp)}', got, exp)
					break
			elif kind == 'derive':
				t, how = st[1], st[2]
				o, n, dt = objs[t], len(ors[t]), Bs[t]['dt']
				if how == 'list':
					r = SignatureList(o)
				elif how == 'list-kw':
					r = SignatureList(o, o.kmerspec, o.dtype)
				elif how == 'array':
					r = SignatureArray(o, dtype=(None if n else dt))
				else:
					r = SignatureArray(o, o.kmerspec, dtype=dt)
				objs.append(r)
				ors.append([list(s) for s in ors[t]])
				Bs.append(dict(base='list' if how.startswith('list') else 'array', ks=Bs[t]['ks'], dt=dt, ann=False, k=Bs[t]['k'],
				               origin=f'step {si}: {type(r).__name__}(#{t})', root=None))
			elif kind == 'dump':
				t, slot, o = st[1], st[2], st[3]
				if Bs[t]['ks'] is None or slots.get(slot) == t:
					placeholder(ors[t])
					continue
				if slot in slots:
					# the path was used before: the collection read from it is closed (and not used any more)
					try:
						objs[slots[slot]].close()
					except Exception:
						pass
					objs[slots[slot]] = None
				path = f'{stem}-{slot}.gs'
				src = objs[t]
				n = len(ors[t])
				wrapped = None
				if o.get('ids') or Bs[t].get('ann'):
					# (an annotated wrapper with default ids is always given explicit ones: np.asarray(range(0)) is a float
					# array, which HDF5Signatures.create refuses -- not a matter of this property)
					ida = np.array([f'g{i}' for i in range(n)], dtype=object) if o.get('ids') == 'str' else np.arange(100, 100 + n)
					meta = SignaturesMeta(id='set', name='n', version='1.0', id_attr='key', description='d', extra={'n': n, 'l': [1, {'x': 2}]})
					wrapped = AnnotatedSignatures(src, ida, meta)
					before = (list(ida), str(ida.dtype), copy.deepcopy(attr.asdict(meta)))
				kw = {} if not o.get('comp') else dict(compression=o['comp'])
				kw_before = dict(kw)
				dump_signatures(path, wrapped if wrapped is not None else src, 'hdf5', **kw)
				if wrapped is not None:
					after = (list(wrapped.ids), str(np.asarray(wrapped.ids).dtype), attr.asdict(wrapped.meta))
					if wrapped.signatures is not src or wrapped.ids is not ida or wrapped.meta is not meta or after != before:
						what = (f'{where}: dump_signatures changed the ids / metadata / wrapped collection of the object it was given',
						        _short(after), _short(before))
						break
				if kw != kw_before:
					what = (f'{where}: dump_signatures changed the caller\'s keyword dict', kw, kw_before)
					break
				opn = o.get('open', 'default')
				r = load_signatures_hdf5(path) if opn == 'fn' else load_signatures(path, **({} if opn == 'default' else dict(mode='r')))
				opened.append(r)
				slots[slot] = len(objs)
				objs.append(r)
				ors.append([list(s) for s in ors[t]])
				Bs.append(dict(base='array', ks=Bs[t]['ks'], dt=Bs[t]['dt'], ann=False, k=Bs[t]['k'],
				               origin=f'step {si}: file written from #{t} to path {slot}', root=None))
			elif kind == 'badload':
				# a call that fails part-way: a truncated / corrupt / foreign file is refused (any exception), nothing
				# else changes
				t, how = st[1], st[2]
				path = f'{stem}-bad.gs'
				slots.setdefault('bad', None)
				if how == 'truncated' and Bs[t]['ks'] is not None and not Bs[t].get('ann'):
					dump_signatures(path, objs[t], 'hdf5')
					raw = open(path, 'rb').read()
					raw = raw[:max(9, len(raw) * st[3] // 8)]
				elif how == 'magic':
					raw = b'\x89HDF\r\n\x1a\n' + bytes(range(200))
				else:
					raw = b'not a signatures file\n' * 20
				with open(path, 'wb') as f:
					f.write(raw)
				r = None
				try:
					r = load_signatures(path)
					_content(r)
				except Exception:
					pass
				finally:
					if r is not None:
						try:
							r.close()
						except Exception:
							pass
				# (whether a damaged file must be refused is the question of another property; here the call is one that
				# normally fails part-way, and what is judged is that nothing else changes: verify() below)
			else:
				raise AssertionError(kind)
			bad = verify()
			if bad:
				what = (f'after {where}: {bad[0]}', bad[1], bad[2])
				break
	finally:
		for r in opened:
			try:
				r.close()
			except Exception:
				pass
		for slot in slots:
			try:
				os.remove(f'{stem}-{slot}.gs')
			except OSError:
				pass
	return what, facts


def k_xseq(ctx, cases):
	for c in cases:
		what, facts = _xseq_run(c)
		ctx.case(c, nontrivial=len(c['steps']) >= 2 and (facts['crossed'] > 0 or facts['muts'] > 0 or facts['failed_then_good'] > 0
		                                                  or any(s[0] in ('derive', 'dump') for s in c['steps'])))
		if what is not None:
			ctx.violation('xseq', c, 'pool of ' + ', '.join(f'{d["how"]}[{len(d["sigs"])}]' for d in c['colls']) + ': ' + what[0],
			              impl=what[1], spec=what[2])


KINDS = {'getitem': k_getitem, 'mutate': k_mutate, 'eq': k_eq, 'xindex': k_xindex, 'session': k_session, 'eqx': k_eqx,
         'xseq': k_xseq}
BACKINGS = ['array', 'list', 'hdf5', 'view']


def _xsigs(rng, n, dt, long_p=0.0):
	"""n signatures whose values use the whole range of dt (boundaries 2^8, 2^16, 2^32, 2^53, 2^63, 2^64 - 1), a few
	of them long"""
	top = XDT_MAX[dt]
	edges = [v for v in (0, 1, 255, 256, 65535, 65536, 2 ** 31 - 1, 2 ** 31, 2 ** 32 - 1, 2 ** 32, 2 ** 53, 2 ** 53 + 1,
	                     2 ** 63 - 1, 2 ** 63, 2 ** 64 - 2, 2 ** 64 - 1) if v <= top]
	out = []
	for _ in range(n):
		ln = rng.choice([17, 130, 300]) if rng.random() < long_p else rng.choice([0, 0, 1, 1, 2, 3, 4])
		ln = min(ln, top + 1)
		s = set()
		while len(s) < ln:
			s.add(rng.choice(edges) if rng.random() < 0.4 else rng.randint(0, top))
		out.append(sorted(s))
	return out


def _xcoll(rng, n=None, hows=None, allow_none=True, long_p=0.03):
	"""random collection description of the audit streams"""
	how = rng.choice(hows or (ARRAY_HOWS + LIST_HOWS + ['hdf5'] * 6))
	if rng.random() < 0.12 and not how.startswith('ann:'):
		how = 'ann:' + how
	dt = rng.choice(['uint8', 'uint16', 'uint16', 'uint32', 'uint32', 'uint64', 'uint64', 'uint64', 'int16', 'int32', 'int64',
	                 '>u2', '>u4', '>u8'])
	k = rng.choice([0, 1, 2, 3, 4] + ([None] if allow_none and not how.endswith('hdf5') else []))
	if n is None:
		n = rng.choice([0, 1, 2, 3, 4, 5, 6, 9, 14])
	d = dict(how=how, k=k, dt=dt, sigs=_xsigs(rng, n, dt, long_p))
	o = {}
	if how.endswith('from-arrays'):
		o['bdt'] = rng.choice(['intp', 'int32', 'uint32', 'int64', 'uint64'])
	if how.endswith('hdf5'):
		o = dict(src=rng.choice(['array', 'list']), ids=rng.choice([None, None, 'str', 'int', 'strB']), meta=rng.randrange(2),
		         comp=rng.choice([None, None, 'gzip', 'lzf']), group=rng.random() < 0.2,
		         open=rng.choice(['default', 'default', 'mode-r', 'core', 'fn']))
	if how.startswith('ann:'):
		o['aids'] = rng.choice([None, 'a', 'b'])
	if o:
		d['opts'] = o
	return d


def _fit(v, dt):
	lo, hi = _idx_range(dt)
	return all(lo <= x <= hi for x in v)


def _xidx(rng, n):
	"""random index description using the containers / scalar kinds / layouts the modelled streams do not produce"""
	r = rng.random()
	pos = lambda: rng.choice([rng.randint(-n - 2, n + 1), 0, -1, n - 1, -n, n, -n - 1]) if rng.random() < 0.25 else \
		(rng.randint(-n, n - 1) if n else 0)
	if r < 0.12:
		v = pos()
		ty = rng.choice(NP_SCALARS + ['bool', 'intenum', 'intenum'])
		if ty == 'bool':
			v = rng.randrange(2)
		elif ty != 'intenum' and not _fit([v], ty):
			ty = 'int64'
		return dict(t='int', v=v, **{'as': ty})
	if r < 0.3:
		f = lambda: rng.choice([None, rng.randint(-n - 2, n + 2)])
		a, b, s = f(), f(), rng.choice([None, 1, -1, 2, -2, 3, -3, 0, rng.randint(-n - 2, n + 2)])
		tys = []
		for x in (a, b, s):
			ty = rng.choice(NP_SCALARS + ['py'])
			if x is not None and ty != 'py' and not _fit([x], ty):
				ty = 'int64'
			if x in (0, 1) and rng.random() < 0.1:
				ty = 'bool'
			tys.append(None if x is None else ty)
		return dict(t='slice', a=a, b=b, s=s, np=tys)
	if r < 0.8:
		ln = rng.choice([0, 1, 1, 2, 3, 4, 6, 9])
		v = [pos() for _ in range(ln)] if (n or rng.random() < 0.3) else []
		if rng.random() < 0.2 and v:
			v = [v[0]] * len(v)   # repeated index (also what a broadcast array holds)
		c = rng.choice(['nd'] * 6 + ['list-np', 'list-np', 'tuple-np', 'mixbool', 'range', 'array.array', 'bytearray', 'memoryview'])
		if c == 'nd':
			dt = rng.choice(IDX_DTS)
			if not _fit(v, dt):
				dt = rng.choice(['int64', '>i8', 'intp']) if _fit(v, 'int64') else 'int64'
			lay = rng.choice(IDX_LAYOUTS)
			if lay == 'bcast' and v:
				v = [v[0]] * len(v)
			return dict(t='ints', c='nd', v=v, dt=dt, lay=lay)
		if c in ('list-np', 'tuple-np'):
			if not v:
				v = [pos()]
			tys = [rng.choice(NP_SCALARS) for _ in range(rng.randint(1, 3))]
			tys = [ty if all(_fit([x], ty) for x in v) else 'int64' for ty in tys]
			return dict(t='ints', c=c, v=v, tys=tys)
		if c == 'mixbool':
			v = [pos() for _ in range(max(2, ln))]
			p = rng.randrange(len(v))
			v[p] = rng.randrange(2)
			q = (p + 1) % len(v)
			if v[q] in (0, 1):
				v[q] = -1   # keep one element that is a real int, so that the list is not a mask
			return dict(t='ints', c=c, v=v, bp=[p])
		if c == 'range':
			a, b, s = rng.randint(-n - 1, n + 1), rng.randint(-n - 1, n + 1), rng.choice([1, 1, -1, 2, -2, 3])
			return dict(t='ints', c=c, r=[a, b, s], v=list(range(a, b, s)))
		if c == 'array.array':
			tc = rng.choice('bhilqBHILQ')
			if tc.isupper():
				v = [abs(x) for x in v]
			return dict(t='ints', c=c, v=v, tc=tc)
		if c == 'bytearray':
			return dict(t='ints', c=c, v=[abs(x) for x in v])
		dt = rng.choice(['int64', 'int32', 'uint8', 'int16'])
		if dt == 'uint8':
			v = [abs(x) for x in v]
		return dict(t='ints', c=c, v=v, dt=dt)
	ln = n if rng.random() < 0.85 else max(0, n + rng.choice([-1, 1, 2]))
	c = rng.choice(['nd', 'nd', 'nd', 'list-np', 'tuple'])
	if ln == 0:
		c = 'nd'
	m = [rng.randint(0, 1) for _ in range(ln)]
	if rng.random() < 0.15:
		m = [rng.randrange(2)] * ln
	return dict(t='mask', c=c, v=m, lay=rng.choice([x for x in IDX_LAYOUTS if x != 'unaligned']))


def _xsession(rng):
	"""one random session: a collection, a pool of index objects (reused by reference), steps that index the
	collection or sub-collections taken earlier, mutate list-backed ones, compare and iterate"""
	listy = rng.random() < 0.5
	coll = _xcoll(rng, n=rng.choice([1, 2, 3, 4, 5, 7]), hows=(LIST_HOWS if listy else ARRAY_HOWS + ['hdf5'] * 4), long_p=0.0)
	if listy and coll['how'].startswith('ann:'):
		coll['how'] = coll['how'][4:]   # the wrapper has no mutators
		coll.get('opts', {}).pop('aids', None)
	idxs, steps = [], []
	ors = [[list(s) for s in coll['sigs']]]
	top = XDT_MAX[coll['dt']]
	for _ in range(rng.randint(2, 14)):
		t = rng.choice([0, 0, len(ors) - 1, rng.randrange(len(ors))])
		n = len(ors[t])
		r = rng.random()
		if r < (0.45 if listy else 0.7):
			if idxs and rng.random() < 0.35:
				j = rng.randrange(len(idxs))
			else:
				d = _xidx(rng, n)
				if rng.random() < 0.3:
					d = rng.choice([dict(t='slice', a=None, b=None, s=None, np=[None] * 3), dict(t='slice', a=0, b=n, s=1, np=['py'] * 3),
					                dict(t='ints', c='nd', v=list(range(n)), dt='intp', lay='contig'),
					                dict(t='mask', c='nd', v=[1] * n, lay='contig'), dict(t='slice', a=rng.randint(0, n), b=None, s=None, np=['py', None, None])])
				idxs.append(d)
				j = len(idxs) - 1
			w = _xoracle(ors[t], idxs[j])
			steps.append(['get', t, j])
			if w[0] == 'coll':
				if len(ors) >= 8:
					steps.pop()
					continue
				ors.append(list(w[1]))
		elif r < 0.8 and listy:
			i = rng.choice([rng.randint(-n - 1, n), 0, -1, n])
			sig = sorted(rng.sample(range(min(top, 60000)), rng.randint(0, 3)))
			ty = rng.choice([None, None] + NP_SCALARS)
			if ty and not _fit([i], ty):
				ty = 'int64'
			kind = rng.choice(['set', 'del', 'ins', 'pop', 'app', 'ext', 'rev', 'setslice', 'delslice', 'iadd'])
			if kind in ('set', 'ins'):
				op = [kind, i, sig] + ([ty] if ty else [])
			elif kind in ('del', 'pop'):
				op = [kind, i] + ([ty] if ty else [])
			elif kind == 'app':
				op = ['app', sig]
			elif kind in ('ext', 'iadd'):
				op = [kind, [sig, []]]
			elif kind == 'rev':
				op = ['rev']
			elif kind == 'delslice':
				op = ['delslice', rng.choice([None, rng.randint(-n, n)]), rng.choice([None, rng.randint(-n, n)]), rng.choice([None, 1, 2, -1])]
			else:
				op = ['setslice', rng.choice([None, rng.randint(-n, n)]), rng.choice([None, rng.randint(-n, n)]), None, [sig] * rng.randint(0, 2)]
			_apply(ors[t], _mut_op(op)[1], lambda s: list(s))
			steps.append(['mut', t, op])
		elif r < 0.9:
			steps.append(['eq', t, rng.randrange(len(ors))])
		else:
			steps.append(['iter', t])
	return dict(coll=coll, idxs=idxs, steps=steps)


def _xseq_case(rng, maxsteps=6):
	"""one random script over a pool of shared objects (see k_xseq)"""
	a = _xcoll(rng, n=rng.choice([1, 2, 3, 4, 5, 7]), hows=rng.choice([SHARED_HOWS, SHARED_HOWS, ARRAY_HOWS + LIST_HOWS + ['hdf5'] * 4]),
	           long_p=0.0)
	colls = [a]
	top = XDT_MAX[a['dt']]
	for i in range(1, rng.choice([2, 2, 3])):
		r = rng.random()
		if r < 0.4 and not a['how'].endswith('hdf5'):
			# built from the very same list of arrays and the very same KmerSpec object as collection 0
			how = rng.choice(SHARED_HOWS)
			if rng.random() < 0.1:
				how = 'ann:' + how
			b = dict(how=how, k=a['k'], dt=a['dt'], sigs=a['sigs'], share=0)
			if how.startswith('ann:'):
				b['opts'] = dict(aids=rng.choice([None, 'a']))
		elif r < 0.75:
			# same dtype (and mostly the same parameters), content derived from collection 0: other size
			b = _xcoll(rng, n=0, hows=ARRAY_HOWS + LIST_HOWS + ['hdf5'] * 3, long_p=0.0)
			b['dt'] = a['dt']
			b['k'] = a['k'] if (rng.random() < 0.8 and not (a['k'] is None and b['how'].endswith('hdf5'))) else b['k']
			sg = [list(x) for x in a['sigs']]
			m = rng.random()
			if m < 0.3:
				sg = sg[:rng.randrange(len(sg) + 1)]
			elif m < 0.5:
				sg = sg + [sorted(rng.sample(range(min(top, 60000)), rng.randint(0, 3))) for _ in range(rng.randint(1, 3))]
			elif m < 0.65:
				sg = sg[::-1]
			elif m < 0.8:
				sg = sg[1:] + [[]]
			b['sigs'] = sg
		else:
			b = _xcoll(rng, n=rng.choice([0, 1, 2, 3, 5, 9]), hows=ARRAY_HOWS + LIST_HOWS + ['hdf5'] * 3, long_p=0.0)
		colls.append(b)
	ors = [[list(x) for x in d['sigs']] for d in colls]
	ks = [_kid(d['k']) for d in colls]
	dts = [d['dt'] for d in colls]
	mutable = [d['how'].startswith('list') for d in colls]
	hasks = [d['k'] is not None for d in colls]
	ann = [d['how'].startswith('ann:') for d in colls]
	dead = set()
	slots = {}
	idxs, steps, eq_pairs = [], [], []
	nroot = len(colls)
	for _ in range(rng.randint(2, maxsteps)):
		live = [j for j in range(len(ors)) if j not in dead]
		t = rng.choice([rng.randrange(nroot), rng.choice(live), rng.choice(live)])
		if t in dead:
			continue
		n = len(ors[t])
		r = rng.random()
		flags = ['thread'] if rng.random() < 0.08 else []
		if r < 0.5:
			if idxs and rng.random() < 0.55:
				j = rng.randrange(len(idxs))
			else:
				# an index made for a collection of the pool -- often another one than it is first used on
				m = len(ors[rng.choice(live)]) if rng.random() < 0.5 else n
				q = rng.random()
				if q < 0.08:
					v = [rng.randint(-m, m - 1) if m else 0 for _ in range(rng.randint(1, 4))]
					d = dict(t='ints', c='raising', v=v, at=rng.randrange(len(v)))
				elif q < 0.3:
					# in range for the larger collections of the pool only: fails part-way on the smaller ones
					big = max(len(o) for o in ors)
					v = [rng.randint(-big, big - 1) if big else 0 for _ in range(rng.randint(2, 5))]
					d = dict(t='ints', c='nd', v=v, dt=rng.choice(['intp', 'int64', 'int32', 'int16', 'int8']), lay=rng.choice(['contig', 'contig', 'strided', 'ro']))
				else:
					d = _xidx(rng, m)
				idxs.append(d)
				j = len(idxs) - 1
			steps.append(['get', t, j] + flags)
			if idxs[j].get('c') == 'raising':
				continue
			w = _xoracle(ors[t], idxs[j])
			if w[0] == 'coll':
				if len(ors) >= 9:
					steps.pop()
					continue
				ors.append([list(x) for x in w[1]])
				ks.append(ks[t]); dts.append(dts[t]); hasks.append(hasks[t]); ann.append(False)
				mutable.append(mutable[t] and not ann[t])
		elif r < 0.7:
			if not mutable[t] or ann[t]:
				cand = [j for j in live if mutable[j] and not ann[j]]
				if not cand:
					continue
				t = rng.choice(cand)
				n = len(ors[t])
			i = rng.choice([rng.randint(-n - 1, n), 0, -1, n])
			sig = sorted(rng.sample(range(min(XDT_MAX[dts[t]], 60000)), rng.randint(0, 3)))
			ty = rng.choice([None, None, None] + NP_SCALARS)
			if ty and not _fit([i], ty):
				ty = 'int64'
			kind = rng.choice(['set', 'del', 'ins', 'pop', 'app', 'ext', 'rev', 'setslice', 'delslice', 'iadd', 'extfail', 'iaddfail', 'clear'])
			if kind in ('set', 'ins'):
				op = [kind, i, sig] + ([ty] if ty else [])
			elif kind in ('del', 'pop'):
				op = [kind, i] + ([ty] if ty else [])
			elif kind == 'app':
				op = ['app', sig]
			elif kind in ('ext', 'iadd'):
				op = [kind, [sig, []]]
			elif kind in ('extfail', 'iaddfail'):
				op = [kind, [sig, [], sig], rng.randrange(4)]
			elif kind in ('rev', 'clear'):
				op = [kind]
			elif kind == 'delslice':
				op = ['delslice', rng.choice([None, rng.randint(-n, n)]), rng.choice([None, rng.randint(-n, n)]), rng.choice([None, 1, 2, -1])]
			else:
				st = rng.choice([None, None, 2, -1])
				x, y = rng.choice([None, rng.randint(-n, n)]), rng.choice([None, rng.randint(-n, n)])
				cnt = len(range(*slice(x, y, st).indices(n)))
				op = ['setslice', x, y, st, [sig] * (rng.randint(0, 2) if st is None or rng.random() < 0.3 else cnt)]
			_apply(ors[t], _mut_op(op)[1], lambda q: list(q))
			steps.append(['mut', t, op])
			if rng.random() < 0.35:
				# == right after the mutation, preferably of a pair that was compared before it
				again = [p for p in eq_pairs if t in p and p[0] in live and p[1] in live]
				x, y = rng.choice(again) if again else (t, rng.choice(live))
				steps.append(['eq', x, y])
				eq_pairs.append((x, y))
		elif r < 0.82:
			# prefer a partner that could be equal: same parameters and dtype family
			cand = [j for j in live if ks[j] == ks[t]] or live
			again = [p for p in eq_pairs if p[0] in live and p[1] in live]
			if again and rng.random() < 0.5:
				# a pair compared before (a mutation of one of them may lie in between), in either order
				x, y = rng.choice(again)
				steps.append(['eq'] + rng.choice([[x, y], [y, x]]) + flags)
			else:
				steps.append(['eq', t, rng.choice(cand if rng.random() < 0.7 else live)] + flags)
				eq_pairs.append((steps[-1][1], steps[-1][2]))
		elif r < 0.90:
			if ann[t] or len(ors) >= 9:
				continue
			how = rng.choice(['list', 'list', 'list-kw', 'array', 'array-kw'])
			steps.append(['derive', t, how])
			ors.append([list(x) for x in ors[t]])
			ks.append(ks[t]); dts.append(dts[t]); hasks.append(hasks[t]); ann.append(False)
			mutable.append(how.startswith('list'))
		elif r < 0.95:
			if not hasks[t] or len(ors) >= 9:
				continue
			slot = rng.choice(sorted(slots)) if (slots and rng.random() < 0.6) else rng.randrange(2)
			if slots.get(slot) == t:
				slot = 1 - slot   # a file is not written over the file it is read from
			if slot in slots:
				dead.add(slots[slot])
			o = dict(ids=rng.choice([None, 'str', 'int']), comp=rng.choice([None, None, 'gzip', 'lzf']), open=rng.choice(['default', 'mode-r', 'fn']))
			steps.append(['dump', t, slot, o])
			slots[slot] = len(ors)
			ors.append([list(x) for x in ors[t]])
			ks.append(ks[t]); dts.append(dts[t]); hasks.append(True); ann.append(False)
			mutable.append(False)
		elif r < 0.975:
			steps.append(['badload', t, 'truncated', rng.randint(0, 7)] if (hasks[t] and rng.random() < 0.6) else
			             ['badload', t, rng.choice(['magic', 'text'])])
		else:
			steps.append(['iter', t])
	return dict(colls=colls, idxs=idxs, steps=steps)


def _xseq_systematic():
	"""small systematic part of xseq: one index object against two collections of different size / backing / dtype in both
	orders (and back again); a call that fails part-way followed by a good call with the same objects; two collections
	built from one list, one of them mutated; a file rewritten at the same path"""
	A5 = [[1, 5], [], [7], [2, 3, 9], [4]]
	B3 = [[8], [6, 7], []]
	pairs = [(dict(how='array', k=0, dt='uint16', sigs=A5), dict(how='array', k=0, dt='uint16', sigs=B3)),
	         (dict(how='list', k=0, dt='uint32', sigs=A5), dict(how='list', k=1, dt='uint16', sigs=B3)),
	         (dict(how='array', k=0, dt='uint64', sigs=A5), dict(how='list', k=0, dt='uint16', sigs=B3)),
	         (dict(how='hdf5', k=0, dt='uint16', sigs=A5), dict(how='hdf5', k=0, dt='uint16', sigs=B3)),
	         (dict(how='hdf5', k=2, dt='uint32', sigs=A5, opts=dict(comp='gzip')), dict(how='view', k=2, dt='uint32', sigs=B3)),
	         (dict(how='view', k=0, dt='uint16', sigs=A5), dict(how='sub-rev', k=0, dt='uint16', sigs=A5[:3]))]
	nd = lambda v, dt='intp', lay='contig': dict(t='ints', c='nd', v=v, dt=dt, lay=lay)
	idxs = [nd([-1, 0]), nd([2, -3, 1]), nd([4, 0]), nd([0, 4, 1]), nd([-5, 1]), nd([1, -1], 'int8'), nd([3, 1], 'uint8', 'strided'),
	        dict(t='ints', c='list-np', v=[-1, 1], tys=['int64']), dict(t='ints', c='list-np', v=[0, -4, 1], tys=['int16']),
	        dict(t='mask', c='nd', v=[1, 0, 1], lay='contig'), dict(t='mask', c='nd', v=[0, 1, 1, 0, 1], lay='contig'),
	        dict(t='mask', c='list-np', v=[1, 1, 0]), dict(t='int', v=-1, **{'as': 'py'}), dict(t='int', v=3, **{'as': 'int64'}),
	        dict(t='int', v=-4, **{'as': 'int8'}), dict(t='slice', a=-2, b=None, s=None, np=['py', None, None]),
	        dict(t='slice', a=None, b=None, s=-2, np=[None, None, 'int64']), dict(t='slice', a=3, b=0, s=-1, np=['int8', 'py', 'py']),
	        dict(t='ints', c='raising', v=[0, 1, 2], at=1)]
	good = nd([1, 0, -1])
	for a, b in pairs:
		for d in idxs:
			for order in ([0, 1], [1, 0], [0, 1, 0], [1, 0, 1]):
				yield 'both-orders', dict(colls=[a, b], idxs=[d], steps=[['get', t, 0] for t in order])
			# the failing (or any) call first, then a good call with another index object, then the first again
			yield 'failed-then-good', dict(colls=[a, b], idxs=[d, good], steps=[['get', 1, 0], ['get', 1, 1], ['get', 0, 0], ['get', 0, 1],
			                                                                     ['get', 1, 0], ['get', 1, 1]])
	# one list of arrays, two collections; mutations of one of them
	muts = [['app', [3]], ['ins', 0, [4]], ['del', -1], ['pop', 0], ['set', 1, [5, 6]], ['ext', [[1], []]], ['iadd', [[2]]], ['rev'],
	        ['clear'], ['setslice', None, None, None, []], ['delslice', 1, None, None], ['extfail', [[1], [2], [3]], 2], ['iaddfail', [[1], [2]], 1],
	        ['set', 9, [1]], ['del', -9]]
	for how2 in ('list', 'list-tuple', 'list-infer', 'array', 'view', 'list-sub'):
		for how1 in ('list', 'list-infer'):
			for op in muts:
				c1 = dict(how=how1, k=0, dt='uint16', sigs=A5)
				c2 = dict(how=how2, k=0, dt='uint16', sigs=A5, share=0)
				yield 'shared-input', dict(colls=[c1, c2], idxs=[good], steps=[['eq', 0, 1], ['mut', 0, op], ['eq', 0, 1], ['get', 1, 0], ['eq', 1, 0]])
	# collections constructed from pool collections are independent of them; == before and after a mutation
	for how in ('list', 'list-sub', 'list-built', 'list-from-array'):
		for dv in ('list', 'list-kw', 'array', 'array-kw'):
			for op in muts[:9]:
				c1 = dict(how=how, k=1, dt='uint32', sigs=A5)
				yield 'derived', dict(colls=[c1, dict(how='array', k=1, dt='uint32', sigs=A5)], idxs=[],
				                      steps=[['derive', 0, dv], ['eq', 0, 2], ['eq', 0, 1], ['mut', 0, op], ['eq', 0, 2], ['eq', 2, 1], ['eq', 0, 1]])
	# a load that fails (truncated / corrupt / foreign file) between two good calls on the same objects
	for a, b in pairs:
		for bad in (['badload', 0, 'truncated', 0], ['badload', 0, 'truncated', 3], ['badload', 0, 'truncated', 6], ['badload', 1, 'magic'],
		            ['badload', 1, 'text']):
			yield 'failed-load-then-good', dict(colls=[a, b], idxs=[good], steps=[['get', 0, 0], bad, ['get', 0, 0], ['get', 1, 0], ['eq', 2, 3],
			                                                                       ['dump', 0, 0, dict()], ['eq', 0, 5]])
	# a file rewritten at the same path with other content / other size
	for a, b in pairs[:4]:
		for o1 in (dict(), dict(comp='gzip'), dict(ids='str', open='fn')):
			for slot2 in (0, 1):
				# objects: #2 = file written from #0, #3 = #2[index], #4 = file written from #1 (to the same path if slot2 == 0:
				# then #2 is closed first), #5 = #4[index]
				yield 'rewritten-path', dict(colls=[a, b], idxs=[good], steps=[['dump', 0, 0, o1], ['get', 2, 0], ['dump', 1, slot2, dict(ids='int')],
				                                                                ['get', 4, 0], ['eq', 4, 1], ['eq', 4, 0], ['iter', 4], ['get', 2, 0],
				                                                                ['eq', 3, 5]])


def _xeq_pair(rng):
	"""two collection descriptions for the extended equality stream + a word saying how b was derived from a"""
	a = _xcoll(rng, n=rng.choice([0, 1, 2, 3, 5, 8] + [300] * (rng.random() < 0.04)), long_p=0.05)
	b = _xcoll(rng, n=0, long_p=0.0)
	n = len(a['sigs'])
	bmax = XDT_MAX[b['dt']]
	if any(x > bmax for s in a['sigs'] for x in s):
		b['dt'] = {'u': 'uint64', 'i': 'int64', '>': '>u8'}[b['dt'][0]]
		if any(x > XDT_MAX[b['dt']] for s in a['sigs'] for x in s):
			b['dt'] = rng.choice(['uint64', '>u8'])
	bmax = XDT_MAX[b['dt']]
	other = [list(s) for s in a['sigs']]
	b['k'] = a['k']
	if b['k'] is None and b['how'].endswith('hdf5'):
		a['k'] = b['k'] = 0
	r = rng.random()
	nonempty = [j for j in range(n) if other[j]]
	d = 'same content'
	if r < 0.25:
		pass
	elif r < 0.45 and nonempty:
		# the smallest possible change of one value, preferring the places where a narrowing / float comparison is blind
		j = rng.choice(nonempty)
		p = rng.randrange(len(other[j]))
		x = other[j][p]
		cands = [y for y in (x + 1, x - 1, x ^ (1 << 16), x ^ (1 << 32), x ^ (1 << 63), x ^ 1) if 0 <= y <= bmax and y != x]
		big = [y for y in cands if max(x, y) > 2 ** 53]
		other[j][p] = rng.choice(big if big and rng.random() < 0.7 else cands)
		d = f'signature {j} position {p}: {x} -> {other[j][p]}'
	elif r < 0.55 and n:
		j = rng.randrange(n)
		if other[j] and rng.random() < 0.5:
			other[j] = other[j][:-1]
		else:
			other[j] = other[j] + [bmax]
		d = f'signature {j} one element shorter / longer'
	elif r < 0.65:
		if n and rng.random() < 0.5:
			other = other[:-1]
		else:
			other = other + [rng.choice([[], other[-1] if n else [3]])]
		d = 'one signature fewer / more'
	elif r < 0.72 and n >= 2:
		i, j = rng.sample(range(n), 2)
		other[i], other[j] = other[j], other[i]
		d = f'signatures {i} and {j} swapped'
	elif r < 0.9:
		ks = [0, 1, 2, 3, 4] + ([None] if not (a['how'].endswith('hdf5') or b['how'].endswith('hdf5')) else [])
		a['k'], b['k'] = rng.choice([(0, 4), (4, 0)] + [tuple(rng.sample(ks, 2))] * 3)
		d = f'k-mer parameters #{a["k"]} vs #{b["k"]}'
	else:
		d = 'same content (b: other construction)'
	b['sigs'] = other
	alias = r >= 0.97
	if alias:
		b = a
		d = 'the same object'
	return dict(a=a, b=b, d=d, **({'alias': True} if alias else {}))


def _rsig(rng, maxlen=4, top=4096):
	return sorted(rng.sample(range(top), rng.randint(0, maxlen)))


def _fixed_sigs(n):
	"""n distinct signatures, lengths 0,1,2,... with an empty one first and in the middle"""
	out = []
	for i in range(n):
		ln = [0, 2, 1, 0, 3, 1, 2][i % 7]
		out.append([10 * i + j for j in range(ln)])
	return out


def generate(ctx):
	rng = ctx.rng
	ctx.rule(RULE)
	nmax = ctx.pick(5, 6)

	def gi(kind, sigs, idx, k=0, bits=16):
		return 'getitem', dict(kind=kind, k=k, bits=bits, sigs=sigs, idx=idx)

	# ---- state / aliasing audit, systematic part: evaluated at once and before every other stream.  The single-call
	# streams below reuse file-backed collections between cases, so they can trip over state that an earlier case left
	# behind -- with a replay (one call on fresh objects) that does not reproduce.  A script carries its whole history.
	sysc = []
	for name, c in _xseq_systematic():
		ctx.count('stream:xseq-systematic-' + name)
		sysc.append(c)
	k_xseq(ctx, sysc)

	# ---- the confirmed defects (fixed by repo_fixes/C20.diff): narrow signed index dtypes, uint64 ------------
	big = [[i] for i in range(200)]
	for kind in ('array', 'list', 'hdf5'):
		ctx.count('stream:narrow-dtype')
		yield gi(kind, big, dict(t='ints', dt='int8', v=[-1]))
		yield gi(kind, big[:129], dict(t='ints', dt='int8', v=[-1, 0, -128]))
		yield gi(kind, big[:130], dict(t='ints', dt='int8', v=[-3, 127, -128, -1]))
		yield gi(kind, big[:128], dict(t='ints', dt='int8', v=[-1, -128, 127]))
		yield gi(kind, big[:5], dict(t='ints', dt='uint64', v=[3, 1]))
		yield gi(kind, big[:5], dict(t='int', v=3, np='uint64'))
		yield gi(kind, big[:5], dict(t='ints', dt='uint64', v=[2 ** 63 + 5]))
	many = [[] for _ in range(33000)]
	many[-1] = [7]
	many[232] = [8]
	for kind in ('array', 'list'):
		yield gi(kind, many, dict(t='ints', dt='int16', v=[-1]))
		yield gi(kind, many, dict(t='ints', dt='int16', v=[32767, -32768, -2]))

	# ---- exhaustive: every slice start/stop/step in {None, -n-2 .. n+2} for n <= nmax ------------------------
	for n in range(0, nmax + 1):
		sigs = _fixed_sigs(n)
		rg = [None] + list(range(-n - 2, n + 3))
		for kind in BACKINGS:
			if kind == 'view' and n > 4:
				continue
			for a, b, s in itertools.product(rg, rg, rg):
				yield gi(kind, sigs, dict(t='slice', a=a, b=b, s=s))
			ctx.count('stream:exhaustive-slices', len(rg) ** 3)
	# ---- exhaustive: every integer index, every index list of length <= 3 (n <= 4), every mask ---------------
	dts = ['list', 'int64', 'int8', 'int16', 'int32', 'uint8', 'uint16', 'uint32', 'uint64', 'tuple']
	for n in range(0, 5):
		sigs = _fixed_sigs(n)
		for kind in BACKINGS:
			for v in range(-n - 2, n + 3):
				yield gi(kind, sigs, dict(t='int', v=v))
				yield gi(kind, sigs, dict(t='int', v=v, np=rng.choice(['int8', 'int16', 'int32', 'int64'])))
				if v >= 0:
					yield gi(kind, sigs, dict(t='int', v=v, np=rng.choice(['uint8', 'uint16', 'uint32', 'uint64'])))
			for ln in range(0, 4):
				for v in itertools.product(range(-n - 1, n + 1), repeat=ln):
					v = list(v)
					yield gi(kind, sigs, dict(t='ints', dt='list', v=v))
					dt = rng.choice(dts[1:])
					if dt.startswith('u') and any(x < 0 for x in v):
						dt = 'int8'
					if dt == 'tuple' and ln == 0:
						dt = 'int64'
					yield gi(kind, sigs, dict(t='ints', dt=dt, v=v))
					ctx.count('stream:exhaustive-index-lists', 2)
			for ln in (n - 1, n, n + 1):
				if ln < 0:
					continue
				for m in itertools.product([0, 1], repeat=ln):
					if ln == 0:
						# an empty list is an empty integer index; an empty bool array is a mask
						yield gi(kind, sigs, dict(t='mask', v=[], **{'as': 'array'}))
						continue
					yield gi(kind, sigs, dict(t='mask', v=list(m), **{'as': 'array'}))
					yield gi(kind, sigs, dict(t='mask', v=list(m), **{'as': 'list'}))
					ctx.count('stream:exhaustive-masks', 2)
	ctx.exhaustive = True
	ctx.extra['exhaustive_scope'] = (f'4 backings x n<={nmax} signatures: every slice with start/stop/step in {{None,-n-2..n+2}}; '
	                                 'n<=4: every int in -n-2..n+2, every index list of length<=3 over -n-1..n, every mask of '
	                                 'length n-1,n,n+1')

	# ---- structured random: larger collections, other dtypes/parameters, big slices ---------------------------
	R = ctx.pick(5000, 40000)
	pool = []
	for _ in range(ctx.pick(12, 60)):
		n = rng.choice([0, 1, 2, 3, 7, 12, 20, 40])
		pool.append(([_rsig(rng) for _ in range(n)], rng.randrange(3), rng.choice([16, 32, 64])))
	for _ in range(R):
		sigs, k, bits = rng.choice(pool)
		n = len(sigs)
		kind = rng.choice(BACKINGS)
		r = rng.random()
		edge = [None, 0, -1, 1, n, -n, n - 1, -n - 1, n + 1, 2 ** 63 - 1, -2 ** 63, 2 ** 70, -2 ** 70]
		if r < 0.35:
			pick = lambda: rng.choice(edge) if rng.random() < 0.4 else rng.randint(-n - 3, n + 3)
			s = pick()
			idx = dict(t='slice', a=pick(), b=pick(), s=(None if s == 0 and rng.random() < 0.8 else s))
		elif r < 0.6:
			ln = rng.randint(0, 8)
			dt = rng.choice(dts)
			lo = 0 if dt.startswith('u') else -n
			v = [rng.randint(lo, n - 1) for _ in range(ln)] if n else []
			if rng.random() < 0.15:
				v.append(rng.choice([n, -n - 1] if not dt.startswith('u') else [n]))
			bits_i = DT_BITS.get(dt, (64, 1))[0]
			sg = 0 if dt.startswith('u') else 1
			v = [x for x in v if (-(2 ** (bits_i - 1)) <= x < 2 ** (bits_i - 1) if sg else 0 <= x < 2 ** bits_i)]
			if dt == 'tuple' and not v:
				dt = 'list'
			idx = dict(t='ints', dt=dt, v=v)
		elif r < 0.75:
			ln = n if rng.random() < 0.85 else max(0, n + rng.choice([-1, 1]))
			if ln == 0:
				idx = dict(t='mask', v=[], **{'as': 'array'})
			else:
				idx = dict(t='mask', v=[rng.randint(0, 1) for _ in range(ln)], **{'as': rng.choice(['array', 'list'])})
		else:
			idx = dict(t='int', v=rng.choice([rng.randint(-n - 2, n + 1), 0, -1, n, -n, -n - 1, 2 ** 70, -2 ** 70]))
		ctx.count('stream:random-getitem')
		yield gi(kind, sigs, idx, k, bits)

	# ---- malformed stream ------------------------------------------------------------------------------------
	for n in (0, 3):
		sigs = _fixed_sigs(n)
		for kind in BACKINGS:
			for a, b, s in itertools.product([None, 1, 'bad'], [None, 2, 'bad'], [None, 0, -1, 'bad']):
				if 'bad' in (a, b, s) or s == 0:
					ctx.count('stream:malformed')
					yield gi(kind, sigs, dict(t='slice', a=a, b=b, s=s))
			for v in ('float', 'none', 'complex'):
				ctx.count('stream:malformed')
				yield gi(kind, sigs, dict(t='nolen', v=v))
			for v in ('2d', 'float', 'str', 'floatarr', '0d', 'mixed', 'bigint', 'emptyfloat'):
				ctx.count('stream:malformed')
				yield gi(kind, sigs, dict(t='badarr', v=v))

	# ---- mutation histories ----------------------------------------------------------------------------------
	H = ctx.pick(3000, 30000)
	for h in range(H):
		n = rng.choice([0, 1, 2, 3, 5])
		sigs = [_rsig(rng, 3, 50) for _ in range(n)]
		ops = []
		ln = n
		extended = h % 3 == 2
		for _ in range(rng.randint(0, 30)):
			i = rng.choice([rng.randint(-ln - 2, ln + 1), 0, -1, ln, -ln, -ln - 1])
			t = rng.choice(['set', 'del', 'ins', 'pop', 'app'] + (['ext', 'iadd', 'rev', 'clear', 'setslice', 'delslice'] if extended else []))
			if t == 'set':
				ops.append(['set', i, _rsig(rng, 3, 50)])
			elif t in ('del', 'pop'):
				ops.append([t, i])
				if -ln <= i < ln:
					ln -= 1
			elif t == 'ins':
				ops.append(['ins', i, _rsig(rng, 3, 50)])
				ln += 1
			elif t == 'app':
				ops.append(['app', _rsig(rng, 3, 50)])
				ln += 1
			elif t in ('ext', 'iadd'):
				new = [_rsig(rng, 2, 50) for _ in range(rng.randint(0, 3))]
				ops.append([t, new])
				ln += len(new)
			elif t == 'rev':
				ops.append(['rev'])
			elif t == 'clear':
				if rng.random() < 0.3:
					ops.append(['clear'])
					ln = 0
			else:
				pk = lambda: rng.choice([None, rng.randint(-ln - 1, ln + 1)])
				st = rng.choice([None, 1, 1, 2, -1, -2, 0])
				a, b = pk(), pk()
				cnt = len(range(*slice(a, b, st).indices(ln))) if st != 0 else 0
				if t == 'delslice':
					ops.append(['delslice', a, b, st])
					if st != 0:
						ln -= cnt
				else:
					m = cnt if (st not in (None, 1) and rng.random() < 0.8) else rng.randint(0, 3)
					new = [_rsig(rng, 2, 50) for _ in range(m)]
					ops.append(['setslice', a, b, st, new])
					if st in (None, 1):
						start, stop, _ = slice(a, b, st).indices(ln)
						ln += len(new) - max(0, stop - start)
		ctx.count('stream:histories-extended' if extended else 'stream:histories-primitive')
		yield 'mutate', dict(sigs=sigs, ops=ops)

	# ---- equality --------------------------------------------------------------------------------------------
	E = ctx.pick(1500, 12000)
	for _ in range(E):
		n = rng.choice([0, 1, 2, 4, 9])
		sigs = [_rsig(rng) for _ in range(n)]
		k, bits = rng.randrange(3), rng.choice([16, 32, 64])
		other = [list(s) for s in sigs]
		k2, bits2 = k, bits
		r = rng.random()
		if r < 0.25:
			pass
		elif r < 0.4 and n:
			j = rng.randrange(n)
			other[j] = other[j] + [5000] if rng.random() < 0.5 or not other[j] else other[j][:-1]
		elif r < 0.55 and n:
			j = rng.randrange(n)
			if other[j]:
				p = rng.randrange(len(other[j]))
				other[j][p] += 1
			else:
				other[j] = [0]
		elif r < 0.65:
			other = other + [[]] if rng.random() < 0.5 or not n else other[:-1]
		elif r < 0.75 and n >= 2:
			other[0], other[-1] = other[-1], other[0]
		elif r < 0.88:
			k2 = (k + rng.choice([1, 2])) % 3
		else:
			bits2 = rng.choice([16, 32, 64])
		ctx.count('stream:eq')
		yield 'eq', dict(a=dict(kind=rng.choice(BACKINGS), k=k, bits=bits, sigs=sigs),
		                 b=dict(kind=rng.choice(BACKINGS), k=k2, bits=bits2, sigs=other))

	# ---- coverage-audit streams (see the table in the module docstring) ---------------------------------------
	def count_coll(d):
		how = d['how']
		if how.startswith('ann:'):
			ctx.count('stream:xcoll-annotated-wrapper')
			how = how[4:]
		ctx.count('stream:xcoll-hdf5-variants' if how == 'hdf5' else ('stream:xcoll-list-constructions' if how.startswith('list')
		          else 'stream:xcoll-array-constructions'))
		if d['dt'][0] in 'i>':
			ctx.count('stream:xcoll-signed-or-big-endian-dtype')
		if d.get('k') is None:
			ctx.count('stream:xcoll-no-kmerspec')
		if any(x > 2 ** 32 for sg in d['sigs'] for x in sg):
			ctx.count('stream:xcoll-values-above-2^32')

	pool = [_xcoll(rng, hows=[how]) for how in ARRAY_HOWS + LIST_HOWS + ['hdf5'] * 8 + ['ann:list', 'ann:array', 'ann:hdf5']]
	pool += [_xcoll(rng) for _ in range(ctx.pick(110, 500))]
	for _ in range(ctx.pick(6000, 50000)):
		coll = rng.choice(pool)
		idx = _xidx(rng, len(coll['sigs']))
		count_coll(coll)
		ctx.count({'int': 'stream:xindex-scalar-kinds', 'slice': 'stream:xindex-numpy-slice-fields',
		           'mask': 'stream:xindex-mask-containers-layouts'}.get(idx['t']) or
		          ('stream:xindex-array-layouts-byteorders' if idx['c'] == 'nd' else 'stream:xindex-int-containers'))
		yield 'xindex', dict(coll=coll, idx=idx)
	for _ in range(ctx.pick(1500, 12000)):
		c = _xsession(rng)
		count_coll(c['coll'])
		ctx.count('stream:session-list-backed' if c['coll']['how'].split(':')[-1].startswith('list') else 'stream:session-array-file-backed')
		yield 'session', c
	for _ in range(ctx.pick(1500, 12000)):
		c = _xeq_pair(rng)
		count_coll(c['a'])
		ctx.count('stream:eqx')
		yield 'eqx', c

	# ---- state / aliasing audit: scripts over a pool of shared objects (see "state and aliasing" in the docstring) ----
	def count_seq(c):
		st = c['steps']
		used = {}
		for x in st:
			if x[0] == 'get':
				used.setdefault(x[2], set()).add(x[1])
		if any(len(v) > 1 for v in used.values()):
			ctx.count('stream:xseq-index-object-on-several-collections')
		if any(d.get('share') is not None for d in c['colls']):
			ctx.count('stream:xseq-collections-built-from-one-list')
		if any(d.get('c') == 'raising' for d in c['idxs']) or any(x[0] == 'mut' and x[2][0] in ('extfail', 'iaddfail') for x in st):
			ctx.count('stream:xseq-caller-container-raises-part-way')
		if any(x[0] == 'mut' for x in st) and any(x[0] == 'eq' for x in st):
			ctx.count('stream:xseq-eq-around-mutations')
		if any(x[0] == 'derive' for x in st):
			ctx.count('stream:xseq-collection-constructed-from-collection')
		dumps = [x[2] for x in st if x[0] == 'dump']
		if dumps:
			ctx.count('stream:xseq-dump-load' + ('-path-reused' if len(set(dumps)) < len(dumps) else ''))
		if any('thread' in x[3:] for x in st if x[0] in ('get', 'eq')):
			ctx.count('stream:xseq-second-thread')

	for _ in range(ctx.pick(2200, 25000)):
		c = _xseq_case(rng, ctx.pick(6, 8))
		ctx.count('stream:xseq-random')
		count_seq(c)
		yield 'xseq', c
