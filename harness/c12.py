"""C12 -- signature files round-trip exactly and foreign files are refused.

Tie B: the store-protocol model (coq/theories/Model/Store.v: create / load / load_file) is run
next to real h5py on the same collections and the same foreign files.  Three things are compared
per round-trip case:
  (b) property predicate: what `load_signatures(dump_signatures(x))` returns equals the harness's own
      description of x (parameters, ids, metadata, dtype, every int index, slices, index lists);
  (a1) the file's raw content (attributes incl. Empty, datasets incl. dtype) equals the model store;
  (a2) the loaded object (values/bounds representation) equals the model's `load`.
Foreign files: the implementation's answer must be SignaturesFileError (the model's `load_file`,
i.e. the reader with repo_fixes/C12.diff); the unrepaired reader answers OSError on unparsable files
that begin with the HDF5 magic number (Props/C12.v: C12_refuse_current_refuted)."""
import itertools
import json
import os

PROP = 'C12'
RULE = ('rt: collection -> dump_signatures -> load_signatures; non-trivial: >= 2 signatures of different '
        'lengths, or string ids, or non-ASCII / nested metadata.  foreign: file content -> load_signatures '
        'must raise SignaturesFileError; non-trivial: content starting with the HDF5 magic number or a '
        'well-formed HDF5 file.  malformed: marked files with defects (tie only).  cli: signatures create / info')
TRUSTED = ['h5py / libhdf5: attribute and dataset semantics as modelled in Model/Store.v (typed 1-d arrays, '
           'Empty attributes, UTF-8 variable-length strings refusing NUL and surrogates, zero fill value); '
           'compression filters are transparent',
           'json.dumps / json.loads round-trip on JSON-representable values (sampled on every generated `extra`)',
           'NumPy: np.asarray of ids, dtype preservation, slicing of 1-d arrays']
ASSUMPTIONS = ['collections have >= 1 signature; ids are all-int or all-str; strings contain no NUL and no lone surrogate '
               '(h5py refuses those at write time with ValueError -- checked in the malformed stream)',
               'the sum of signature lengths fits numpy intp',
               '`extra` is JSON-representable (string keys, no NaN)',
               '"signature file" = HDF5 file whose root group carries the attribute gambit_signatures_version']
BATCH = 150
SHRINK = False

DT = {'u1': 0, 'u2': 1, 'u4': 2, 'u8': 3, 'i1': 4, 'i2': 5, 'i4': 6, 'i8': 7}
DTN = {v: k for k, v in DT.items()}
AK = {'gambit_signatures_version': 0, 'kmerspec_k': 1, 'kmerspec_prefix': 2, 'id': 3, 'name': 4, 'id_attr': 5,
      'version': 6, 'description': 7, 'extra': 8}
DK = {'ids': 0, 'values': 1, 'bounds': 2}
META_FIELDS = ('id', 'name', 'id_attr', 'version', 'description')
ERR = {1: 'SignaturesFileError', 2: 'ValueError', 3: 'KeyError', 4: 'OSError', 5: 'TypeError', 6: 'IndexError', 7: 'outside-model'}
MAGIC = b'\x89HDF\r\n\x1a\n'

_state = {}


def setup(ctx):
	from vf import impl
	impl.check_import()
	_state['dir'] = impl.scratch_dir('gambit-verif-c12-')
	_state['n'] = 0


def tmp(name='f'):
	_state['n'] += 1
	return os.path.join(_state['dir'], f'{name}{_state["n"]}')


def S(s):
	return [ord(c) for c in s]


def O(s):
	return None if s is None else [S(s)]


def key(table, name, other):
	"""code of an attribute / dataset name (unknown names get codes >= 100, stable per file)"""
	if name in table:
		return table[name]
	return other.setdefault(name, 100 + len(other))


# ---- the harness's own description of a collection -> implementation object / model value ------------

def path_of(case):
	return 0 if case['container'] == 'array' else 1


def eff_ids(case):
	"""(kind, dtype, values) of the ids the file must contain"""
	n = len(case['sigs'])
	ids = case.get('ids') if case['container'].startswith('annot') else None
	if ids is None:
		return 'int', 'i8', list(range(n))
	if ids['kind'] == 'int':
		return 'int', ids.get('dtype') or 'i8', list(ids['vals'])
	return 'str', None, list(ids['vals'])


def eff_meta(case):
	m = case.get('meta') if case['container'].startswith('annot') else None
	if m is None:
		return dict(id=None, name=None, id_attr=None, version=None, description=None, extra={})
	return dict(m)


def mcoll(case):
	kind, dt, vals = eff_ids(case)
	m = eff_meta(case)
	ids = [0, DT[dt], vals] if kind == 'int' else [1, [S(x) for x in vals]]
	extra = None if m['extra'] is None else [S(json.dumps(m['extra']))]
	meta = [O(m[f]) for f in META_FIELDS] + [extra]
	return [case['k'], S(case['prefix']), DT[case['dtype']], case['sigs'], ids, meta]


def build(case):
	import numpy as np
	from gambit.kmers import KmerSpec
	from gambit.sigs import SignatureArray, SignatureList, AnnotatedSignatures, SignaturesMeta
	ks = KmerSpec(case['k'], case['prefix'])
	dt = np.dtype(case['dtype'])
	arrs = [np.array(s, dtype=dt) for s in case['sigs']]
	cont = case['container']
	if cont in ('array', 'annot_array'):
		base = SignatureArray(arrs, ks, dtype=dt)
	else:
		base = SignatureList(arrs, ks, dtype=dt)
	if not cont.startswith('annot'):
		return base
	ids = case.get('ids')
	if ids is None:
		pids = None
	elif ids['kind'] == 'int':
		pids = np.array(ids['vals'], dtype=ids['dtype']) if ids.get('dtype') else list(ids['vals'])
	else:
		form = ids.get('as', 'list')
		pids = list(ids['vals']) if form == 'list' else np.array(ids['vals'], dtype=object if form == 'O' else None)
	m = case.get('meta')
	meta = None if m is None else SignaturesMeta(**m)
	return AnnotatedSignatures(base, pids, meta)


def wf_str(s):
	return all(c != '\x00' and not (0xD800 <= ord(c) <= 0xDFFF) for c in s)


def wf_case(case):
	kind, dt, vals = eff_ids(case)
	m = eff_meta(case)
	strs = [m[f] for f in META_FIELDS if m[f] is not None] + (vals if kind == 'str' else [])
	return all(wf_str(s) for s in strs)


def errname(e):
	from gambit.sigs.base import SignaturesFileError
	for cls, name in ((SignaturesFileError, 'SignaturesFileError'), (KeyError, 'KeyError'), (ValueError, 'ValueError'),
	                  (OSError, 'OSError'), (TypeError, 'TypeError'), (IndexError, 'IndexError')):
		if isinstance(e, cls):
			return name
	return type(e).__name__


def mres(v):
	"""model result -> ('ok', payload) | ('err', name)"""
	return ('ok', v[1]) if v[0] == 0 else ('err', ERR.get(v[1], f'err{v[1]}'))


def raw_store(path):
	"""attributes and datasets of the root group in the model's vocabulary"""
	import h5py
	import numpy as np
	other_a, other_d = {}, {}
	attrs, dsets = {}, {}
	with h5py.File(path, 'r') as f:
		for name, v in f.attrs.items():
			if isinstance(v, h5py.Empty):
				r = [2]
			elif isinstance(v, str):
				r = [1, S(v)]
			elif isinstance(v, (int, np.integer)):
				r = [0, int(v)]
			else:
				r = ['?', repr(v)]
			attrs[key(AK, name, other_a)] = r
		for name in f:
			d = f[name]
			if not isinstance(d, h5py.Dataset):
				continue
			if d.dtype.kind == 'O':
				r = [1, [S(x.decode('utf-8') if isinstance(x, bytes) else x) for x in d[:]]]
			elif d.dtype.kind in 'ui':
				r = [0, DT.get(d.dtype.str[1:], -1), [int(x) for x in d[:]]]
			else:
				r = ['?', str(d.dtype)]
			dsets[key(DK, name, other_d)] = r
	return attrs, dsets


def canon_extra(a):
	"""the `extra` attribute is JSON text: only the value it denotes is constrained, not its spelling"""
	if isinstance(a, list) and len(a) == 2 and a[0] == 1:
		try:
			return ['json', json.loads(''.join(map(chr, a[1])))]
		except ValueError:
			return a
	return a


def model_store(v):
	return {a[0]: a[1] for a in v[0]}, {d[0]: d[1] for d in v[1]}


def py_slices(n):
	rng = [None] + list(range(-n - 1, n + 2))
	for a in rng:
		for b in rng:
			for st in (None, 1, 2, -1):
				yield a, b, st


def observe(s, case):
	"""everything the property constrains about a loaded collection, checked against the harness's own
	description; returns a list of differences (empty = property holds on this case)"""
	import numpy as np
	bad = []
	sigs = case['sigs']
	n = len(sigs)
	dt = np.dtype(case['dtype'])
	kind, idt, ivals = eff_ids(case)
	m = eff_meta(case)
	if s.kmerspec.k != case['k'] or s.kmerspec.prefix_str != case['prefix']:
		bad.append(f'kmerspec {s.kmerspec!r}')
	got_ids = list(s.ids)
	if kind == 'int':
		if [int(x) for x in got_ids] != ivals or np.asarray(s.ids).dtype != np.dtype(idt):
			bad.append(f'ids {got_ids!r} dtype {np.asarray(s.ids).dtype}')
	else:
		if got_ids != ivals or not all(isinstance(x, str) for x in got_ids):
			bad.append(f'ids {got_ids!r}')
	for f in META_FIELDS + ('extra',):
		if getattr(s.meta, f) != m[f] or type(getattr(s.meta, f)) is not type(m[f]):
			bad.append(f'meta.{f} = {getattr(s.meta, f)!r}, written {m[f]!r}')
	if len(s) != n:
		bad.append(f'len {len(s)}')
		return bad
	if s.dtype != dt:
		bad.append(f'dtype {s.dtype}')

	def same(x, want):
		return isinstance(x, np.ndarray) and x.dtype == dt and [int(v) for v in x] == want

	for i in range(-n, n):
		if not same(s[i], sigs[i]):
			bad.append(f'[{i}] = {s[i]!r}')
	for i in (n, -n - 1):
		try:
			s[i]
			bad.append(f'[{i}] did not raise')
		except IndexError:
			pass
	slices = py_slices(n) if n <= 3 else [(a, b, None) for a, b in case.get('slices', [])] + [(None, None, None), (None, None, -1), (1, None, 2)]
	for a, b, st in slices:
		want = sigs[slice(a, b, st)]
		got = s[a:b:st]
		if len(got) != len(want) or got.dtype != dt or not all(same(x, w) for x, w in zip(got, want)) \
				or got.kmerspec != s.kmerspec:
			bad.append(f'[{a}:{b}:{st}] -> {[list(map(int, x)) for x in got]!r} dtype {got.dtype}')
	for idx in list(case.get('idx', [])) + [[], list(range(n))[::-1]]:
		want = [sigs[i] for i in idx]
		got = s[np.array(idx, dtype=np.intp)] if not idx else s[idx]
		if len(got) != len(want) or got.dtype != dt or not all(same(x, w) for x, w in zip(got, want)):
			bad.append(f'[{idx}] -> {[list(map(int, x)) for x in got]!r} dtype {got.dtype}')
	mask = [i % 2 == 0 for i in range(n)]
	got = s[np.array(mask)]
	if [list(map(int, x)) for x in got] != [sigs[i] for i in range(n) if mask[i]] or got.dtype != dt:
		bad.append('[bool mask]')
	return bad


def nontrivial_rt(case):
	lens = {len(x) for x in case['sigs']}
	kind, _, _ = eff_ids(case)
	m = eff_meta(case)
	txt = json.dumps(m, ensure_ascii=True)
	return len(lens) >= 2 or kind == 'str' or '\\u' in txt or (isinstance(m['extra'], dict) and any(isinstance(v, (dict, list)) for v in m['extra'].values()))


def k_rt(ctx, cases):
	import numpy as np
	from gambit.sigs import dump_signatures, load_signatures
	reqs = []
	for c in cases:
		mc = mcoll(c)
		p = path_of(c)
		idx = [i for l in c.get('idx', []) for i in l]
		reqs += [(1201, [p, mc]), (1202, [p, mc]), (1207, [p, mc]), (1205, [p, mc, idx])]
		for a, b in c.get('slices', [])[:2]:
			reqs.append((1206, [p, mc, a, b]))
	ans = ctx.model(reqs) if ctx.model_ok else None
	pos = 0
	for c in cases:
		nsl = len(c.get('slices', [])[:2])
		a_store, a_load, a_dec, a_idx = (ans[pos:pos + 4] if ans else (None,) * 4)
		a_sl = ans[pos + 4:pos + 4 + nsl] if ans else []
		pos += 4 + nsl
		ctx.case(c, nontrivial=nontrivial_rt(c))
		wf = wf_case(c)
		m = eff_meta(c)
		if m['extra'] is not None and json.loads(json.dumps(m['extra'])) != m['extra']:
			ctx.broke('assumption json.loads(json.dumps(x)) == x', f'extra {m["extra"]!r}')
			continue
		path = tmp('rt') + '.gs'
		try:
			obj = build(c)
			kw = {} if c.get('compression') is None else dict(compression=c['compression'])
			dump_signatures(path, obj, **kw)
		except Exception as e:
			en = errname(e)
			if wf:
				ctx.violation('rt', c, f'dump_signatures raised {type(e).__name__}: {e}', impl=en, spec='file written',
				              model=a_store and mres(a_store)[0])
			elif a_store is not None and mres(a_store) != ('err', en):
				ctx.broke('correspondence rt (write of an unstorable string)', f'impl {en}, model {mres(a_store)} on {c}')
			_rm(path)
			continue
		if not wf:
			# h5py stored a string the model says it refuses
			if a_store is not None and mres(a_store)[0] == 'err':
				ctx.broke('correspondence rt (write of an unstorable string)', f'impl wrote the file, model {mres(a_store)} on {c}')
			_rm(path)
			continue
		# (b) the property predicate on the implementation
		try:
			with load_signatures(path) as s:
				bad = observe(s, c)
				l_vals = [int(x) for x in s.values[:]]
				l_bounds = [int(x) for x in s.bounds[:]]
				l_idx = [[int(v) for v in s[i]] for l in c.get('idx', []) for i in l]
				l_sl = []
				for a, b in c.get('slices', [])[:2]:
					sub = s[a:b]
					l_sl.append(([int(x) for x in sub.values], [int(x) for x in sub.bounds], [[int(v) for v in x] for x in sub]))
		except Exception as e:
			ctx.violation('rt', c, f'load_signatures of the written file raised {type(e).__name__}: {e}', impl=errname(e),
			              spec='loads as the written collection', model=a_load and mres(a_load)[0])
			_rm(path)
			continue
		if bad:
			ctx.violation('rt', c, 'loaded collection differs from the written one: ' + '; '.join(bad[:4]), impl=bad[:8],
			              spec='identical', model=a_dec and mres(a_dec))
			_rm(path)
			continue
		if ans is None:
			_rm(path)
			continue
		# (a1) raw file content = model store
		ms, ml, md, mi = mres(a_store), mres(a_load), mres(a_dec), mres(a_idx)
		if ms[0] != 'ok' or ml[0] != 'ok':
			ctx.broke('correspondence rt (model refuses a collection the implementation stores)', f'{ms if ms[0] != "ok" else ml} on {c}')
			_rm(path)
			continue
		r_attrs, r_dsets = raw_store(path)
		m_attrs, m_dsets = model_store(ms[1])
		r_attrs[8], m_attrs[8] = canon_extra(r_attrs.get(8)), canon_extra(m_attrs.get(8))
		if r_attrs != m_attrs or r_dsets != m_dsets:
			diff = [k for k in set(r_attrs) | set(m_attrs) if r_attrs.get(k) != m_attrs.get(k)] + \
			       [100 + k for k in set(r_dsets) | set(m_dsets) if r_dsets.get(k) != m_dsets.get(k)]
			ctx.broke('correspondence rt (file content != model store)', f'keys {diff} on {c}')
		# (a2) loaded object = model load / decode / getitem
		mk, mp, mm, mids, mty, mvals, mbounds = ml[1]
		if (mk, mp, DTN[mty], mvals, mbounds) != (c['k'], S(c['prefix']), c['dtype'], l_vals, l_bounds):
			ctx.broke('correspondence rt (loaded values/bounds != model load)', f'impl {(l_vals[:20], l_bounds[:20])} model {(mvals[:20], mbounds[:20])}')
		if md != ('ok', c['sigs']):
			ctx.broke('model decode != written signatures', f'{md} on {c}')
		if mi != ('ok', l_idx):
			ctx.broke('correspondence rt (index list)', f'impl {l_idx} model {mi}')
		for (a, b), got, mv in zip(c.get('slices', [])[:2], l_sl, a_sl):
			mv = mres(mv)
			if mv[0] != 'ok' or (mv[1][0][5], mv[1][0][6], mv[1][1]) != got:
				ctx.broke('correspondence rt (contiguous slice values/bounds)', f'[{a}:{b}] impl {got} model {mv}')
		_rm(path)


def _rm(path):
	try:
		os.unlink(path)
	except OSError:
		pass


# ---- foreign and malformed files ------------------------------------------------------------------------

def write_hdf(path, case):
	"""an HDF5 file with the given root attributes / datasets (optionally everything inside a sub-group)"""
	import h5py
	import numpy as np
	with h5py.File(path, 'w') as f:
		g = f.create_group('sigs') if case.get('subgroup') else f
		for name, v in case.get('attrs', {}).items():
			g.attrs[name] = h5py.Empty(h5py.string_dtype()) if v is None else v
		for name, d in case.get('dsets', {}).items():
			if d.get('strs') is not None:
				g.create_dataset(name, data=np.array(d['strs'], dtype=object), dtype=h5py.string_dtype())
			else:
				g.create_dataset(name, data=np.array(d['ints'], dtype=d.get('dtype', 'i8')))


def classify_raw(path, raw):
	"""0: h5py.File refuses the file (or it does not start with the magic number at all);
	2: h5py.File opens it but the root group cannot be read; None: a readable HDF5 file"""
	import h5py
	if raw[:8] != MAGIC:
		return 0
	try:
		f = h5py.File(path, 'r')
	except OSError:
		return 0
	try:
		'x' in f.attrs
		return None
	except KeyError:
		return 2
	finally:
		f.close()


def model_disk(case, raw=None, cl=0):
	if case['form'] == 'raw':
		return [cl or 0, list(raw)]
	if case.get('subgroup'):
		return [1, [[], []]]
	oa, od = {}, {}
	attrs = []
	for name, v in case.get('attrs', {}).items():
		attrs.append([key(AK, name, oa), [2] if v is None else ([0, v] if isinstance(v, int) else [1, S(v)])])
	dsets = []
	for name, d in case.get('dsets', {}).items():
		dsets.append([key(DK, name, od), [1, [S(x) for x in d['strs']]] if d.get('strs') is not None
		              else [0, DT[d.get('dtype', 'i8')], d['ints']]])
	return [1, [attrs, dsets]]


def k_foreign(ctx, cases):
	_files(ctx, cases, 'foreign')


def k_malformed(ctx, cases):
	_files(ctx, cases, 'malformed')


def _files(ctx, cases, kind):
	from gambit.sigs import load_signatures
	items = []
	for c in cases:
		path = tmp('fx')
		raw = None
		if c['form'] == 'raw':
			raw = bytes.fromhex(c['hex'])
			with open(path, 'wb') as f:
				f.write(raw)
		else:
			write_hdf(path, c)
		items.append((c, path, raw))
	reqs = []
	classes = []
	for c, path, raw in items:
		# the harness's classification of raw bytes ("h5py cannot open this" / "opens, root group unreadable")
		# is obtained from h5py itself, not from the code under test
		cl = classify_raw(path, raw) if raw is not None else None
		classes.append(cl)
		d = model_disk(c, raw, cl)
		reqs += [(1203, d), (1204, d)]
	ans = ctx.model(reqs) if ctx.model_ok else None
	for i, (c, path, raw) in enumerate(items):
		marked = c['form'] == 'hdf' and not c.get('subgroup') and 'gambit_signatures_version' in c.get('attrs', {})
		if raw is not None and classes[i] is None:
			ctx.count('foreign:raw-bytes-that-parse-as-hdf5 (skipped)')
			_rm(path)
			continue
		ctx.case(c, nontrivial=(c['form'] == 'hdf' or (raw or b'')[:8] == MAGIC))
		try:
			with load_signatures(path) as s:
				got = ('ok', dict(k=int(s.kmerspec.k), prefix=s.kmerspec.prefix_str, n=len(s)))
		except Exception as e:
			got = ('err', errname(e))
		_rm(path)
		mfix = mres(ans[2 * i]) if ans else None
		mcur = mres(ans[2 * i + 1]) if ans else None
		if not marked:
			# the property: not a signature file => the dedicated error
			if got != ('err', 'SignaturesFileError'):
				what = (f'a file that is not a signature file ({_describe(c, raw)}) is answered with {got[1]} '
				        f'instead of SignaturesFileError')
				ctx.violation(kind, c, what, impl=got, spec=['err', 'SignaturesFileError'], model=mfix, model_unrepaired=mcur)
			elif mfix is not None and mfix != ('err', 'SignaturesFileError'):
				ctx.broke('model load_file on a foreign file', f'{mfix} on {c}')
		elif mfix is not None:
			# marked but defective: outside the property, only the tie is checked
			mm = mfix if mfix[0] == 'err' else ('ok', dict(k=mfix[1][0], prefix=''.join(map(chr, mfix[1][1])), n=len(mfix[1][6]) - 1))
			if mm != got:
				ctx.broke('correspondence malformed (marked file with a defect)', f'impl {got} model {mm} on {c}')


def _describe(c, raw):
	if c['form'] == 'hdf':
		return 'well-formed HDF5 without the format marker in the root group'
	if raw[:8] == MAGIC:
		return f'{len(raw)} bytes starting with the HDF5 magic number that libhdf5 cannot parse'
	return f'{len(raw)} bytes, not HDF5'


# ---- command line ------------------------------------------------------------------------------------------

COMP = {65: 84, 84: 65, 67: 71, 71: 67}


def naive_signature(k, prefix, contigs):
	"""set of indices of the k-mers following the prefix on either strand (plain definition)"""
	out = set()
	p = prefix.encode()
	for seq in contigs:
		fw = seq.upper().encode()
		rc = bytes(COMP.get(b, b) for b in reversed(fw))
		for strand in (fw, rc):
			for i in range(len(strand) - len(p) - k + 1):
				if strand[i:i + len(p)] == p:
					kmer = strand[i + len(p):i + len(p) + k]
					if all(b in b'ACGT' for b in kmer):
						v = 0
						for b in kmer:
							v = v * 4 + b'ACGT'.index(b)
						out.add(v)
	return sorted(out)


def k_cli(ctx, cases):
	import click.testing
	import gambit.cli
	from gambit.sigs import load_signatures
	from gambit.sigs.base import SignaturesFileError
	for c in cases:
		ctx.case(c, nontrivial=len(c['genomes']) >= 2)
		d = tmp('cli')
		os.makedirs(d)
		files = []
		for i, contigs in enumerate(c['genomes']):
			fp = os.path.join(d, f'g{i}.fasta')
			with open(fp, 'w') as f:
				for j, s in enumerate(contigs):
					f.write(f'>c{j}\n{s}\n')
			files.append(fp)
		out = os.path.join(d, 'out.gs')
		args = ['signatures', 'create', '-k', str(c['k']), '-p', c['prefix'], '-o', out, '--no-progress']
		if c.get('ids') is not None:
			with open(os.path.join(d, 'ids.txt'), 'w') as f:
				f.write(''.join(x + '\n' for x in c['ids']))
			args += ['-i', os.path.join(d, 'ids.txt')]
		if c.get('meta') is not None:
			with open(os.path.join(d, 'meta.json'), 'w') as f:
				json.dump(c['meta'], f)
			args += ['-m', os.path.join(d, 'meta.json')]
		run = click.testing.CliRunner()
		r = run.invoke(gambit.cli.cli, args + files)
		if r.exit_code != 0:
			ctx.violation('cli', c, f'signatures create failed: {r.exception!r} {r.output[-200:]}', impl=r.exit_code)
			continue
		want = [naive_signature(c['k'], c['prefix'], g) for g in c['genomes']]
		want_ids = c['ids'] if c.get('ids') is not None else [f'g{i}' for i in range(len(files))]
		m = dict(id=None, name=None, id_attr=None, version=None, description=None, extra={})
		m.update(c.get('meta') or {})
		with load_signatures(out) as s:
			got = [[int(v) for v in x] for x in s]
			gids = list(s.ids)
			gm = {f: getattr(s.meta, f) for f in m}
			gk = (int(s.kmerspec.k), s.kmerspec.prefix_str)
		if got != want or gids != want_ids or gm != m or gk != (c['k'], c['prefix']):
			ctx.violation('cli', c, 'file written by `signatures create` does not load as the signatures / ids / metadata given',
			              impl=dict(sigs=got, ids=gids, meta=gm, kspec=gk), spec=dict(sigs=want, ids=want_ids, meta=m))
			continue
		r = run.invoke(gambit.cli.cli, ['signatures', 'info', '-i', out])
		if r.exit_code != 0 or r.output.split('\n')[:-1] != want_ids:
			ctx.violation('cli', c, '`signatures info -i` does not list the ids', impl=r.output, spec=want_ids)
		r = run.invoke(gambit.cli.cli, ['signatures', 'info', '-j', out])
		try:
			info = json.loads(r.output)
			ok = info['count'] == len(want) and info['kmerspec'] == dict(k=c['k'], prefix=c['prefix']) and \
				all(info['metadata'].get(f) == m[f] for f in m)
		except Exception:
			ok = False
		if not ok:
			ctx.violation('cli', c, '`signatures info -j` does not report the written parameters / metadata', impl=r.output[:500])
		# a genome file is not a signature file
		r = run.invoke(gambit.cli.cli, ['signatures', 'info', files[0]])
		if r.exit_code == 0 or not isinstance(r.exception, SignaturesFileError):
			ctx.violation('cli', c, f'`signatures info` on a FASTA file: exit {r.exit_code}, {r.exception!r}', impl=repr(r.exception),
			              spec='SignaturesFileError')


KINDS = {'rt': k_rt, 'foreign': k_foreign, 'malformed': k_malformed, 'cli': k_cli}

# ---- generators ----------------------------------------------------------------------------------------------

CONTAINERS = ('array', 'list', 'annot_array', 'annot_list')
COMPRESSIONS = (None, 'gzip', 'lzf')
WORDS = ['', 'a', 'x y', 'é', '漢字', '😀', 'Ωmega', 'tab\there', 'line\nbreak', '"q"', "it's", 'ä' * 40, 'null', '0', ' ', '​', '\U0010ffff', '\x01']


def rstr(rng):
	r = rng.random()
	if r < 0.5:
		return rng.choice(WORDS)
	return ''.join(chr(rng.choice([rng.randint(1, 0x7f), rng.randint(0x80, 0x7ff), rng.randint(0x800, 0xd7ff),
	                               rng.randint(0xe000, 0xffff), rng.randint(0x10000, 0x10ffff)])) for _ in range(rng.randint(1, 12)))


def rjson(rng, depth=0):
	r = rng.random()
	if depth >= 3 or r < 0.35:
		return rng.choice([None, True, False, 0, -1, 2 ** 53, 2 ** 70, 1.5, -0.25, 1e300, rstr(rng), rstr(rng)])
	if r < 0.65:
		return [rjson(rng, depth + 1) for _ in range(rng.randint(0, 3))]
	return {rstr(rng): rjson(rng, depth + 1) for _ in range(rng.randint(0, 3))}


def rmeta(rng):
	if rng.random() < 0.15:
		return None
	m = {f: (None if rng.random() < 0.4 else rstr(rng)) for f in META_FIELDS}
	r = rng.random()
	m['extra'] = None if r < 0.15 else ({} if r < 0.3 else {rstr(rng): rjson(rng) for _ in range(rng.randint(1, 4))})
	return m


def rids(rng, n):
	r = rng.random()
	if r < 0.15:
		return None
	if r < 0.5:
		return dict(kind='str', vals=[rstr(rng) for _ in range(n)], **{'as': rng.choice(['list', 'U', 'O'])})
	dt = rng.choice([None, 'i8', 'u8', 'i4', 'u2', 'i1', 'u1'])
	lo, hi = {None: (-2 ** 63, 2 ** 63 - 1), 'i8': (-2 ** 63, 2 ** 63 - 1), 'u8': (0, 2 ** 64 - 1), 'i4': (-2 ** 31, 2 ** 31 - 1),
	          'u2': (0, 65535), 'i1': (-128, 127), 'u1': (0, 255)}[dt]
	return dict(kind='int', dtype=dt, vals=[rng.choice([lo, hi, 0, rng.randint(lo, hi)]) for _ in range(n)])


def index_dtype(k):
	return 'u1' if k <= 4 else 'u2' if k <= 8 else 'u4' if k <= 16 else 'u8'


def rsig(rng, k, maxlen, dtype=None):
	top = 4 ** k - 1
	if dtype and dtype[0] == 'i':
		top = min(top, 2 ** (8 * int(dtype[1]) - 1) - 1)
	if dtype and dtype[0] == 'u':
		top = min(top, 2 ** (8 * int(dtype[1])) - 1)
	ln = rng.choice([0, 0, 1, 2, rng.randint(0, maxlen)])
	vals = {rng.choice([0, top, top // 2, rng.randint(0, top)]) for _ in range(ln)}
	return sorted(vals)


def generate(ctx):
	rng = ctx.rng
	ctx.rule(RULE)
	# ---- exhaustive small scope: every collection of 1..3 signatures over {[], [3], [3,200]}, 4 containers, 3 filters
	shapes = ([], [3], [3, 200])
	for n in (1, 2, 3):
		for sigs in itertools.product(shapes, repeat=n):
			for cont in CONTAINERS:
				for comp in COMPRESSIONS:
					ctx.count('stream:exhaustive-small')
					yield 'rt', dict(k=4, prefix='AT', dtype='u1', sigs=[list(s) for s in sigs], container=cont, compression=comp,
					                 ids=dict(kind='str', vals=[f'g{i}' for i in range(n)], **{'as': 'list'}) if cont == 'annot_list' else None,
					                 meta=None, idx=[[0], [n - 1, 0]], slices=[[0, n]])
	ctx.exhaustive = True
	ctx.extra['exhaustive_scope'] = ('all collections of 1..3 signatures drawn from {[],[3],[3,200]} x 4 container types x '
	                                 '{none,gzip,lzf}, each with every int index, every slice start/stop in -n-1..n+1 / None and '
	                                 'step in {None,1,2,-1}; every k in 1..32 x container x filter with boundary values')
	# ---- every k (all four index widths, values up to 4^k-1 incl. >= 2^63), every container and filter
	for k in range(1, 33):
		top = 4 ** k - 1
		for cont in CONTAINERS:
			for comp in COMPRESSIONS:
				ctx.count('stream:all-k')
				yield 'rt', dict(k=k, prefix=rng.choice(['A', 'AT', 'ATGAC', 'GGTTCCAA', '']) , dtype=index_dtype(k),
				                 sigs=[[0, top], [], [top], sorted({0, top // 2, top // 2 + 1, top})],
				                 container=cont, compression=comp, ids=rids(rng, 4), meta=rmeta(rng), idx=[[3, 1], [2, 2, 0]], slices=[[1, 3], [0, 4]])
	# ---- all-empty collections
	for n in (1, 2, 5):
		for cont in CONTAINERS:
			for comp in COMPRESSIONS:
				ctx.count('stream:all-empty')
				yield 'rt', dict(k=9, prefix='C', dtype='u4', sigs=[[] for _ in range(n)], container=cont, compression=comp,
				                 ids=rids(rng, n), meta=rmeta(rng), idx=[[0]], slices=[[0, n]])
	# ---- structured random: sizes, dtypes other than the default one, ids, metadata
	for _ in range(ctx.pick(500, 6000)):
		k = rng.choice([1, 4, 5, 8, 9, 11, 16, 17, 31, 32, rng.randint(1, 32)])
		dtype = index_dtype(k) if rng.random() < 0.7 else rng.choice(list(DT))
		n = rng.choice([1, 2, 3, rng.randint(1, 12), rng.randint(1, 40)])
		sigs = [rsig(rng, k, rng.choice([3, 10, 60]), dtype) for _ in range(n)]
		idx = [[rng.randrange(-n, n) % n for _ in range(rng.randint(1, 5))] for _ in range(2)]
		a = rng.randrange(n)
		sl = [[a, rng.randint(a + 1, n)], [0, n]]
		ctx.count('stream:random')
		yield 'rt', dict(k=k, prefix=''.join(rng.choice('ACGT') for _ in range(rng.randint(0, 7))), dtype=dtype, sigs=sigs,
		                 container=rng.choice(CONTAINERS), compression=rng.choice(COMPRESSIONS), ids=rids(rng, n), meta=rmeta(rng),
		                 idx=idx, slices=sl)
	# ---- larger payload (chunked compressed dataset with many chunks)
	for cont in ('array', 'annot_list'):
		for comp in COMPRESSIONS:
			n = ctx.pick(40, 100)
			ctx.count('stream:large')
			yield 'rt', dict(k=11, prefix='ATGAC', dtype='u4', sigs=[sorted(rng.sample(range(4 ** 11), rng.randint(0, ctx.pick(400, 1500)))) for _ in range(n)],
			                 container=cont, compression=comp, ids=None, meta=None, idx=[[n - 1, 0]], slices=[[n // 2, n]])
	# ---- malformed writes: strings h5py cannot store (ValueError, never a silently altered file)
	for bad in ('a\x00b', '\x00', '\ud800', 'x\udfffy'):
		for where in ('meta', 'ids'):
			ctx.count('stream:unstorable-strings')
			yield 'rt', dict(k=4, prefix='AT', dtype='u1', sigs=[[1], [2]], container='annot_list', compression=None,
			                 ids=dict(kind='str', vals=[bad, 'b'], **{'as': 'O'}) if where == 'ids' else None,
			                 meta=dict(id=bad, name=None, id_attr=None, version=None, description=None, extra={}) if where == 'meta' else None)
	# ---- foreign files
	yield from gen_foreign(ctx, rng)
	# ---- command line
	for _ in range(ctx.pick(3, 25)):
		k = rng.randint(5, 9)
		prefix = ''.join(rng.choice('ACGT') for _ in range(rng.randint(2, 3)))
		ng = rng.randint(1, 4)
		genomes = [[''.join(rng.choice('ACGTacgtN') for _ in range(rng.randint(0, 400))) for _ in range(rng.randint(1, 3))] for _ in range(ng)]
		ids = None if rng.random() < 0.4 else [f'{rng.choice(["id", "é", "漢", "G"])}{i}' for i in range(ng)]
		meta = None if rng.random() < 0.4 else dict(id=rstr(rng), name='n', version='1.0', id_attr='key', description=rstr(rng),
		                                            extra={'author': rstr(rng), 'nested': {'a': [1, None]}})
		ctx.count('stream:cli')
		yield 'cli', dict(k=k, prefix=prefix, genomes=genomes, ids=ids, meta=meta)


def real_file_bytes(rng, comp):
	"""bytes of a genuine signature file (used truncated / corrupted as foreign content)"""
	from gambit.sigs import dump_signatures
	c = dict(k=5, prefix='AT', dtype='u2', sigs=[sorted(rng.sample(range(1024), rng.randint(0, 30))) for _ in range(6)],
	         container='annot_list', compression=comp, ids=None, meta=None)
	path = tmp('real') + '.gs'
	dump_signatures(path, build(c))
	with open(path, 'rb') as f:
		b = f.read()
	_rm(path)
	return b


def gen_foreign(ctx, rng):
	raws = [b'', b'\n', b'hello world\n', b'>seq1\nACGTACGT\n>seq2\nTTTT\n', b'\x1f\x8b\x08\x00' + bytes(20), b'\x89HDF', MAGIC[:7],
	        b'{"gambit_signatures_version": 1}', b'SQLite format 3\x00' + bytes(100), bytes(512) + MAGIC + bytes(100)]
	# the 6-h family: the magic number followed by something that is not an HDF5 superblock
	raws += [MAGIC, MAGIC + b'garbage' * 10, MAGIC + bytes(88), MAGIC + bytes([0xff]) * 200]
	real = real_file_bytes(rng, None)
	for cut in (9, 48, 96, 512, len(real) // 2, len(real) - 1):
		raws.append(real[:cut])
	raws.append(real[:200] + bytes(len(real) - 200))
	for _ in range(ctx.pick(40, 400)):
		ln = rng.choice([1, 7, 8, 9, 50, 300])
		b = bytes(rng.randrange(256) for _ in range(ln))
		raws.append(b if rng.random() < 0.5 else MAGIC + b)
	for b in raws:
		ctx.count('stream:foreign-raw')
		yield 'foreign', dict(form='raw', hex=b.hex())
	ds = dict(values=dict(ints=[1, 2, 3], dtype='u2'), bounds=dict(ints=[0, 1, 3]), ids=dict(strs=['a', 'b']))
	good = dict(gambit_signatures_version=1, kmerspec_k=5, kmerspec_prefix='AT', id=None, name='n', id_attr=None, version=None,
	            description=None, extra='{}')
	nomark = {k: v for k, v in good.items() if k != 'gambit_signatures_version'}
	hdfs = [dict(), dict(attrs=dict(title='something else')), dict(dsets=dict(data=dict(ints=[1, 2, 3]))),
	        dict(attrs=nomark, dsets=ds), dict(attrs=dict(gambit_signatures_versio=1), dsets=ds),
	        dict(attrs=dict(GAMBIT_SIGNATURES_VERSION=1), dsets=ds), dict(attrs=good, dsets=ds, subgroup=True)]
	for h in hdfs:
		ctx.count('stream:foreign-hdf5')
		yield 'foreign', dict(form='hdf', **h)
	# marked files with a defect: outside the property, checks the model's reading order / error classes
	def var(**ch):
		a = dict(good)
		for k, v in ch.items():
			if v == 'DROP':
				a.pop(k)
			else:
				a[k] = v
		return a
	mal = [dict(attrs=good, dsets=ds), dict(attrs=var(gambit_signatures_version=2), dsets=ds),
	       dict(attrs=var(gambit_signatures_version=0), dsets=ds), dict(attrs=var(kmerspec_k='DROP'), dsets=ds),
	       dict(attrs=var(kmerspec_prefix='DROP'), dsets=ds), dict(attrs=var(kmerspec_k=0), dsets=ds),
	       dict(attrs=var(kmerspec_prefix='AXT'), dsets=ds), dict(attrs=var(kmerspec_prefix='at'), dsets=ds),
	       dict(attrs=var(kmerspec_prefix='é'), dsets=ds), dict(attrs=var(extra='DROP', id='DROP'), dsets=ds)]
	for drop in ('values', 'bounds', 'ids'):
		mal.append(dict(attrs=good, dsets={k: v for k, v in ds.items() if k != drop}))
	mal.append(dict(attrs=good, dsets=dict(ds, ids=dict(ints=[5, 6], dtype='u8'))))
	for h in mal:
		ctx.count('stream:malformed')
		yield 'malformed', dict(form='hdf', **h)
