"""C12 -- signature files round-trip exactly and foreign files are refused.

Tie B: the store-protocol model (coq/theories/Model/Store.v: create / load / load_file) is run
next to real h5py on the same collections and the same foreign files.  Three things are compared
per round-trip case:
  (b) property predicate: what `load_signatures(dump_signatures(x))` returns equals the harness's own
      description of x (parameters, ids, metadata, dtype, every int index, slices, index lists);
  (a1) the file's raw content (attributes incl. Empty, datasets incl. dtype) equals the model store (compared by name: the ORDER
       in which create issues the calls -- format marker last -- is observed call by call in harness/c19.py, tie (a1) there);
  (a2) the loaded object (values/bounds representation) equals the model's `load`.
Foreign files: the implementation's answer must be SignaturesFileError (the model's `load_file`,
i.e. the reader with repo_fixes/C12.diff); the unrepaired reader answers OSError on unparsable files
that begin with the HDF5 magic number (Props/C12.v: C12_refuse_current_refuted).

Coverage audit (item of the property text -> stream that drives it ON THE IMPLEMENTATION; P = the property predicate
`observe` / "answer is SignaturesFileError" is judged there, M = also compared with the Coq model):
  k 1..32, every index width, boundary values up to 4^k-1       all-k (P,M); api-kform: k as NumPy scalar (P)
  prefix: '' .. 8 letters as str                                 all-k, random (P,M); api-pform: bytes / lower case (P)
  index dtype u1..u8, i1..i8                                     random (P,M); api-base array_swapped/list_swapped: non-native order (P)
  empty signatures, all-empty collections, n = 1                 exhaustive-small, all-empty (P,M); api-small-shapes (P)
  containers: SignatureArray, SignatureList, Annotated(x)        every rt stream (P,M)
    other ways to obtain them: dtype inferred / str / type, copy and cast constructors, array<->list conversion, slice
    view, fancy-index result, reversed, from_arrays with offset bounds / other bounds dtype, strided / read-only /
    wider / byte-swapped elements, mutated list, wrapper of a wrapper, user subclass of AbstractSignatureArray /
    ReferenceSignatures, a loaded file written again (with and without new ids)   api-base, api-wrap (P)
  ids: str as list / 'U' / object array, int with dtype, default range          random, all-k (P,M)
    tuple, NumPy scalars, np.str_, strided / byte-swapped / read-only arrays, Python ints >= 2^63 (uint64)   api-idform (P)
  metadata: None / '' / Unicode fields, nested extra, extra None / {}             random, all-k (P,M); api-* (P)
  compression none / gzip / lzf                                   every rt stream (P,M); gzip levels 0/1/4/9, explicit None: api-comp (P)
  larger payload (many chunks)                                    large (P,M)
  signature SIZE classes: collections mixing empty / tiny / small / medium / large signatures whose lengths sit at
    2^8 .. 2^17 values (-1, +0, +1), in the orders large last / first / in the middle / several large ones / large
    directly after empty ones / after a run of medium ones / only large / only small-and-medium / shuffled, k >= 8,
    x 15 ways of holding the collection (SignatureArray, its slice view / fancy-index result / offset bounds,
    SignatureList incl. converted / read-only / mutated, Annotated(x) over both, wrapper of a wrapper, user subclasses
    of AbstractSignatureArray / ReferenceSignatures, a loaded file written again with and without new ids) x filter   size-classes (P)
  int index (Python int, -n..n-1, out of range), slices, index lists, bool mask   observe in every rt stream (P; M for 2 slices + lists)
    NumPy-scalar indices of 8 dtypes, index arrays of other dtypes / strided / byte-swapped / read-only, negative
    entries, tuples, ranges, bool lists / tuples, slices with NumPy bounds, steps +-3 +-7, huge bounds, out-of-range
    entries, indexing the result again, iteration, reversed(), SignatureArray(s) / SignatureList(s), sizes()   api-* via xidx (P)
  dump_signatures / load_signatures (gambit.sigs)                 every rt stream (P,M)
    format= given by keyword / position, all-keyword call, gambit.sigs.base.*, gambit.sigs.hdf5.*_hdf5,
    HDF5Signatures.create on a root group / sub-group / libver=latest file / beside unrelated content (object returned
    by create is observed too), HDF5Signatures(group), load kwargs (mode r / r+ / a, core driver, libver, rdcc)   api-writer/-reader/-rkw (P)
  path: str                                                       every stream; Path, os.PathLike, Unicode / spaces / no extension / .h5 /
                                                                  relative / 'x/..' paths: api-pathform (P)
  same object written twice, destination already holding text or a bigger signature file, written object left
    unchanged, two files open at once, same file opened twice, reopen, reading twice     api-reuse (P)
  foreign: empty, text, FASTA, magic + garbage, truncated real file, random bytes, HDF5 without marker   foreign-raw, foreign-hdf5 (P,M)
    gzip of FASTA / of a real file, shifted real file, JSON, CSV, npy, zip, SQLite, big text, HDF5 with the marker only
    in a sub-group / as a dataset name / on a dataset / misspelt, libver=latest, float data; each through load_signatures
    (str / Path / PathLike / keyword / mode / core driver), base.load_signatures, load_signatures_hdf5, HDF5Signatures(file
    or group), `signatures info` (plain, -j, -i, -j -p, -d), `signatures create --db-params`, `tree -s`, `dist --qs/--rs`   foreign2 (P)
  marked but defective files (outside the property)               malformed (M only)
  `signatures create` -k -p -o -i -m + `info -i / -j` + FASTA refused          cli (P), 3 cases
    -l / --ldir, default parameters, --db-params (k < 5, 1-letter prefix), -c, long options, progress bar, empty genome,
    partial metadata, k up to 32; `info` plain report, `--json --pretty`, `-d DIR info -d -i`      cli-forms (P)
Not driven: szip (libhdf5 refuses small chunks), bytes ids (come back as str; not "string or integer IDs"), `query -s`
and ReferenceDatabase.load on a foreign file (need a genome database; same load_signatures call), HDF5 files with a user
block, n = 0, single signatures of more than 2^17 + 1 values.  The api / size-classes / foreign2 / cli-forms / seq streams have no
model counterpart: predicate only.

State and aliasing (audit of what can outlive one call; kind `seq` = a script of calls over ONE pool of objects, every step judged
by the same predicate as the single-call streams).  Dimensions: (a) the object is used by >= 2 calls whose other arguments differ
(other collection / length / k / integer type / filter / writer / path), in both orders; (b) the caller's object is compared, after
every call, with a snapshot taken before (content, types, public and existing private attributes, array dtype / shape / strides /
writeable flag / bytes; private attributes that only appear are tolerated); (c) a call that fails part-way is followed by a good call
on the same objects; (d) the same call is made twice and must give the same result; (e) second thread / after fork.
  entry point                              object that outlives the call                          (a)  (b)  (c)  (d)  (e)   driven by
  dump_signatures, base.dump_signatures,   the collection (SignatureArray values / bounds,         seq  seq  seq  seq  -     seq: dump / dump_fail / mutate
  dump_signatures_hdf5,                      SignatureList._list and its arrays, wrapper stack,    api  api            (single call: api-reuse `twice`,
  HDF5Signatures.create                      user subclass); its ids (list / 'U' / 'O' / int        snapshot after writing)
                                             array); its SignaturesMeta and the `extra` dict in it
                                           one SignaturesMeta serving two collections               seq  seq  -    -    -     seq: meta_from
                                           one KmerSpec serving collections of different length /   seq  seq  -    -    -     seq: share_ks (compared at the end)
                                             integer type
                                           the destination path: holds text / an HDF5 file of       seq  n/a  seq  seq  -     seq: path-reuse, foreign-then-real,
                                             another kind / a truncated file / collection A, then                               real-then-foreign (api-reuse overwrite:
                                             collection B; refused by a load before it is written                               written over once, never loaded before)
                                           keyword values (compression, compression_opts)           n/a: ints / str / None, the dict is copied by the ** call
                                           an open reader given as the collection (file -> file)    seq  seq  -    -    -     seq: redump (api-wrap reloaded: once)
                                           the h5py group given to create                           api-writer create_* (one call per file); not in seq
                                           a source that raises while it is read (signature i of    -    seq  seq  -    -     seq: dump_fail getitem_raises / ids_len /
                                             a caller-supplied container; ids of the wrong length;                              bad_comp, then the same collection again
                                             unknown filter after ids / bounds are written)
  load_signatures, base.load_signatures,   the path (see above); module state of the reader          seq  n/a  seq  seq  -     seq: load (`twice`), foreign + load
  load_signatures_hdf5, HDF5Signatures(g)  load keyword dict (mode, driver ...)                       n/a: copied by the ** call; api-rkw single calls
  loaded collection: s[i], s[a:b:c],       the reader s (group, values / bounds datasets, ids        seq  seq  seq  seq  seq   seq: index / observe / thread; two or
  s[list / array / mask / range], iter,      array, meta); two or three readers open at once                                    three readers of different length open
  len, sizes, sizeof, ids, meta, close       (different files, the same file twice)                                             (api-reuse two_open / same_file: once)
                                           the index object (int array with negative entries,        seq  seq  seq  seq  -     seq: index (one object against readers of
                                             other dtypes, list, tuple, range, bool mask, slice)                                different length, both orders; out of
                                                                                                                                range for the shorter one -> IndexError,
                                                                                                                                then used again)
                                           results handed out earlier (arrays, sub-collections)      seq: held until the end of the script and compared again; `scribble`:
                                                                                                      the caller overwrites one, the file must still give what was written
                                           ids array / meta / extra of a loaded collection           seq: scribble_reader (changed by the caller, reader dropped, file loaded again)
  `signatures info` (-i, -j, -j -p, plain)  process-wide state of the command-line modules            seq  n/a  seq  -    -     seq: cli_info interleaved over two paths,
                                             (in-process CliRunner; click context object)                                       on refused content, between API calls
  `signatures create`                       the same; worker processes forked while readers are open  seq  n/a  -    -    seq   seq: cli-create (+ cli / cli-forms: 13
                                                                                                                                commands in one process, other parameters)
  At the end of every script: the shared KmerSpec objects are unchanged, every result handed out earlier still is what it was, every
  reader still open is observed again, every collection still is what its owner made it, every path slot is loaded afresh, and every
  collection of the pool (collection 0 also through a plain AbstractSignatureArray, plus one collection made at that moment, without ids
  and metadata) is written to a new path and loaded -- so that what a step left behind in an object, a class or a module shows in the
  script that caused it and its replay (a new process) reproduces.
  n/a = the object is immutable or cannot be reached by the callee.  (e): HDF5 readers are not advertised as thread-safe; h5py
  serialises all calls, so a reader opened in the main thread is observed once from a second thread (joined) -- a smoke test.
  Known in the unchanged code (counted, not judged): a load that refuses a readable HDF5 file leaves that file open until the garbage
  collector runs, so writing a signature file to the same path directly afterwards fails with OSError (repo_fixes/
  C12-refused-file-left-open.diff); `signatures info --json` raises AttributeError on a file whose `extra` is None
  (repo_fixes/C12-info-json-extra-none.diff)."""
import itertools
import json
import os

PROP = 'C12'
RULE = ('rt: collection -> dump_signatures -> load_signatures; non-trivial: >= 2 signatures of different '
        'lengths, or string ids, or non-ASCII / nested metadata.  foreign: file content -> load_signatures '
        'must raise SignaturesFileError; non-trivial: content starting with the HDF5 magic number or a '
        'well-formed HDF5 file.  malformed: marked files with defects (tie only).  cli: signatures create / info '
        '(also -l/--ldir, default and --db-params parameters, -c, plain / pretty / -d reports).  '
        'api: the same round trip with the collection built / wrapped / re-loaded in other ways, ids and k-mer parameters in other '
        'forms (NumPy scalars, tuples, strided, byte-swapped), other writer / reader entry points, keyword forms, gzip levels, '
        'path kinds, reuse (written twice, overwriting, two files open) and NumPy-style index forms on the loaded file; every case '
        'counts as non-trivial (each differs from the default form); judged by the property predicate only (no model).  '
        'foreign2: non-signature contents x every Python reader and command that opens signature files; predicate only.  '
        'sizes: the same round trip on collections described by signature LENGTHS (empty, tiny, and lengths 2^8 .. 2^17 -1/+0/+1 '
        'values; sorted distinct k-mer indices derived from the case seed), ordered large last / first / in the middle / several '
        'large / large after empty / after a run of medium ones / only large / no large / shuffled, k >= 8, held in every container '
        'kind (array, view, list, wrappers, user subclasses, a loaded file), with and without compression; judged by the property '
        'predicate only: parameters, ids, metadata, every int index, slices, index lists, bool mask, iteration, each compared '
        'value for value with the integer type written; non-trivial: >= 2 different lengths.  '
        'seq: a script of 3..20 calls over one pool of objects (2..3 collections of different length, a shared KmerSpec / SignaturesMeta, '
        '4..6 index objects, 2 path slots, up to 3 open readers): write / write that fails part-way / foreign content to a path slot, load, '
        'index with a pooled index object, observe, write an open reader to the other path, `signatures info` / `create` in process, '
        'changes the owner makes between calls (a signature, an id, a metadata field, a key of extra), the caller overwriting a result it '
        'was given; every step judged by the round-trip predicate / SignaturesFileError for what the path holds at that moment, plus: '
        'objects handed in are unchanged after each call, the same call twice gives the same, results handed out earlier are still what '
        'they were at the end, a fresh load of every path at the end; non-trivial: >= 2 steps carried out')
TRUSTED = ['h5py / libhdf5: attribute and dataset semantics as modelled in Model/Store.v (typed 1-d arrays, '
           'Empty attributes, UTF-8 variable-length strings refusing NUL and surrogates, zero fill value); '
           'compression filters are transparent',
           'json.dumps / json.loads round-trip on JSON-representable values (sampled on every generated `extra`)',
           'NumPy: np.asarray of ids, dtype preservation, slicing of 1-d arrays',
           'sizes stream: numpy.random.default_rng / cumsum only produce the signatures to write (any sorted array of distinct '
           'in-range values would do); read-back values are compared with numpy element-wise equality on equal dtypes',
           'seq stream: h5py alone decides what a path slot holds after a foreign / failed write (readable HDF5? root group marked?); '
           'hashlib.sha1 of array bytes for the unchanged-object comparison; gc.collect() releases file handles kept by dead frames; '
           'threading.Thread / ProcessPoolExecutor fork as provided by CPython']
ASSUMPTIONS = ['collections have >= 1 signature; ids are all-int or all-str; strings contain no NUL and no lone surrogate '
               '(h5py refuses those at write time with ValueError -- checked in the malformed stream)',
               'the sum of signature lengths fits numpy intp',
               '`extra` is JSON-representable (string keys, no NaN)',
               '"signature file" = HDF5 file whose root group carries the attribute gambit_signatures_version',
               'api stream: "the same integer type" of a list whose elements are wider / byte-swapped arrays is the dtype the collection '
               'declares (values are representable in it); for a collection written in non-native byte order only kind and width are '
               'judged; strings are storable ones only; command line: k >= 5 and prefixes of >= 2 letters unless taken from --db-params',
               'seq stream: the caller closes its readers of a path before that path is written again; a file left by a write that raised is '
               'judged as "not a signature file" when its root group is unmarked and not judged when it is marked (C19); a result read from '
               'a file opened read-only belongs to the caller (overwriting it cannot change what the file gives); private attributes that '
               'the implementation adds to a caller object are allowed as long as what the object then does is still what its owner set; '
               'the in-process command line keeps no state between commands that a new process would not have']
BATCH = 150
SHRINK = False

DT = {'u1': 0, 'u2': 1, 'u4': 2, 'u8': 3, 'i1': 4, 'i2': 5, 'i4': 6, 'i8': 7}
DTN = {v: k for k, v in DT.items()}
AK = {'gambit_signatures_version': 0, 'kmerspec_k': 1, 'kmerspec_prefix': 2, 'id': 3, 'name': 4, 'id_attr': 5,
      'version': 6, 'description': 7, 'extra': 8}
DK = {'ids': 0, 'values': 1, 'bounds': 2}
META_FIELDS = ('id', 'name', 'id_attr', 'version', 'description')
ERR = {1: 'SignaturesFileError', 2: 'ValueError', 3: 'KeyError', 4: 'OSError', 5: 'TypeError', 6: 'IndexError', 7: 'outside-model'}
MAGIC = b'\x89HDF\r\n\x1a\n'

_state = {}


def setup(ctx):
	from vf import impl
	impl.check_import()
	_state['dir'] = impl.scratch_dir('gambit-verif-c12-')
	_state['n'] = 0


def tmp(name='f'):
	_state['n'] += 1
	return os.path.join(_state['dir'], f'{name}{_state["n"]}')


def S(s):
	return [ord(c) for c in s]


def O(s):
	return None if s is None else [S(s)]


def key(table, name, other):
	"""code of an attribute / dataset name (unknown names get codes >= 100, stable per file)"""
	if name in table:
		return table[name]
	return other.setdefault(name, 100 + len(other))


# ---- the harness's own description of a collection -> implementation object / model value ------------

def path_of(case):
	return 0 if case['container'] == 'array' else 1


def eff_ids(case):
	"""(kind, dtype, values) of the ids the file must contain"""
	n = len(case['sigs'])
	ids = case.get('ids') if case['container'].startswith('annot') else None
	if ids is None:
		return 'int', 'i8', list(range(n))
	if ids['kind'] == 'int':
		return 'int', ids.get('dtype') or 'i8', list(ids['vals'])
	return 'str', None, list(ids['vals'])


def eff_meta(case):
	m = case.get('meta') if case['container'].startswith('annot') else None
	if m is None:
		return dict(id=None, name=None, id_attr=None, version=None, description=None, extra={})
	return dict(m)


def mcoll(case):
	kind, dt, vals = eff_ids(case)
	m = eff_meta(case)
	ids = [0, DT[dt], vals] if kind == 'int' else [1, [S(x) for x in vals]]
	extra = None if m['extra'] is None else [S(json.dumps(m['extra']))]
	meta = [O(m[f]) for f in META_FIELDS] + [extra]
	return [case['k'], S(case['prefix']), DT[case['dtype']], case['sigs'], ids, meta]


def build(case):
	import numpy as np
	from gambit.kmers import KmerSpec
	from gambit.sigs import SignatureArray, SignatureList, AnnotatedSignatures, SignaturesMeta
	ks = KmerSpec(case['k'], case['prefix'])
	dt = np.dtype(case['dtype'])
	arrs = [np.array(s, dtype=dt) for s in case['sigs']]
	cont = case['container']
	if cont in ('array', 'annot_array'):
		base = SignatureArray(arrs, ks, dtype=dt)
	else:
		base = SignatureList(arrs, ks, dtype=dt)
	if not cont.startswith('annot'):
		return base
	ids = case.get('ids')
	if ids is None:
		pids = None
	elif ids['kind'] == 'int':
		pids = np.array(ids['vals'], dtype=ids['dtype']) if ids.get('dtype') else list(ids['vals'])
	else:
		form = ids.get('as', 'list')
		pids = list(ids['vals']) if form == 'list' else np.array(ids['vals'], dtype=object if form == 'O' else None)
	m = case.get('meta')
	meta = None if m is None else SignaturesMeta(**m)
	return AnnotatedSignatures(base, pids, meta)


def wf_str(s):
	return all(c != '\x00' and not (0xD800 <= ord(c) <= 0xDFFF) for c in s)


def wf_case(case):
	kind, dt, vals = eff_ids(case)
	m = eff_meta(case)
	strs = [m[f] for f in META_FIELDS if m[f] is not None] + (vals if kind == 'str' else [])
	return all(wf_str(s) for s in strs)


def errname(e):
	from gambit.sigs.base import SignaturesFileError
	for cls, name in ((SignaturesFileError, 'SignaturesFileError'), (KeyError, 'KeyError'), (ValueError, 'ValueError'),
	                  (OSError, 'OSError'), (TypeError, 'TypeError'), (IndexError, 'IndexError')):
		if isinstance(e, cls):
			return name
	return type(e).__name__


def mres(v):
	"""model result -> ('ok', payload) | ('err', name)"""
	return ('ok', v[1]) if v[0] == 0 else ('err', ERR.get(v[1], f'err{v[1]}'))


def raw_store(path):
	"""attributes and datasets of the root group in the model's vocabulary"""
	import h5py
	import numpy as np
	other_a, other_d = {}, {}
	attrs, dsets = {}, {}
	with h5py.File(path, 'r') as f:
		for name, v in f.attrs.items():
			if isinstance(v, h5py.Empty):
				r = [2]
			elif isinstance(v, str):
				r = [1, S(v)]
			elif isinstance(v, (int, np.integer)):
				r = [0, int(v)]
			else:
				r = ['?', repr(v)]
			attrs[key(AK, name, other_a)] = r
		for name in f:
			d = f[name]
			if not isinstance(d, h5py.Dataset):
				continue
			if d.dtype.kind == 'O':
				r = [1, [S(x.decode('utf-8') if isinstance(x, bytes) else x) for x in d[:]]]
			elif d.dtype.kind in 'ui':
				r = [0, DT.get(d.dtype.str[1:], -1), [int(x) for x in d[:]]]
			else:
				r = ['?', str(d.dtype)]
			dsets[key(DK, name, other_d)] = r
	return attrs, dsets


def canon_extra(a):
	"""the `extra` attribute is JSON text: only the value it denotes is constrained, not its spelling"""
	if isinstance(a, list) and len(a) == 2 and a[0] == 1:
		try:
			return ['json', json.loads(''.join(map(chr, a[1])))]
		except ValueError:
			return a
	return a


def model_store(v):
	return {a[0]: a[1] for a in v[0]}, {d[0]: d[1] for d in v[1]}


def py_slices(n):
	rng = [None] + list(range(-n - 1, n + 2))
	for a in rng:
		for b in rng:
			for st in (None, 1, 2, -1):
				yield a, b, st


def observe_head(s, case, eq):
	"""k-mer parameters, ids, metadata, length and integer type of a loaded collection against the harness's description"""
	import numpy as np
	bad = []
	n = len(case['sigs'])
	dt = np.dtype(case['dtype'])
	kind, idt, ivals = eff_ids(case)
	m = eff_meta(case)
	if s.kmerspec.k != case['k'] or s.kmerspec.prefix_str != case['prefix']:
		bad.append(f'kmerspec {s.kmerspec!r}')
	got_ids = list(s.ids)
	if kind == 'int':
		if [int(x) for x in got_ids] != ivals or not eq(np.asarray(s.ids).dtype, np.dtype(idt)):
			bad.append(f'ids {got_ids!r} dtype {np.asarray(s.ids).dtype}')
	else:
		if got_ids != ivals or not all(isinstance(x, str) for x in got_ids):
			bad.append(f'ids {got_ids!r}')
	for f in META_FIELDS + ('extra',):
		if getattr(s.meta, f) != m[f] or type(getattr(s.meta, f)) is not type(m[f]):
			bad.append(f'meta.{f} = {getattr(s.meta, f)!r}, written {m[f]!r}')
	if len(s) != n:
		bad.append(f'len {len(s)}')
		return bad
	if not eq(s.dtype, dt):
		bad.append(f'dtype {s.dtype}')
	return bad


def observe(s, case, dteq=None, full=True):
	"""everything the property constrains about a loaded collection, checked against the harness's own
	description; returns a list of differences (empty = property holds on this case).  `dteq` compares
	integer types (default: exact dtype equality; the api stream passes `dteq_kind` for collections written
	in non-native byte order, where only kind and width are constrained); full=False (sequence stream) replaces the
	enumeration of all slices of collections of <= 3 signatures by the case's own slices"""
	import numpy as np
	eq = dteq or (lambda a, b: a == b)
	sigs = case['sigs']
	n = len(sigs)
	dt = np.dtype(case['dtype'])
	bad = observe_head(s, case, eq)
	if len(s) != n:
		return bad

	def same(x, want):
		return isinstance(x, np.ndarray) and eq(x.dtype, dt) and [int(v) for v in x] == want

	for i in range(-n, n):
		if not same(s[i], sigs[i]):
			bad.append(f'[{i}] = {s[i]!r}')
	for i in (n, -n - 1):
		try:
			s[i]
			bad.append(f'[{i}] did not raise')
		except IndexError:
			pass
	slices = py_slices(n) if n <= 3 and full else [(a, b, None) for a, b in case.get('slices', [])] + [(None, None, None), (None, None, -1), (1, None, 2)]
	for a, b, st in slices:
		want = sigs[slice(a, b, st)]
		got = s[a:b:st]
		if len(got) != len(want) or not eq(got.dtype, dt) or not all(same(x, w) for x, w in zip(got, want)) \
				or got.kmerspec != s.kmerspec:
			bad.append(f'[{a}:{b}:{st}] -> {[list(map(int, x)) for x in got]!r} dtype {got.dtype}')
	for idx in list(case.get('idx', [])) + [[], list(range(n))[::-1]]:
		want = [sigs[i] for i in idx]
		got = s[np.array(idx, dtype=np.intp)] if not idx else s[idx]
		if len(got) != len(want) or not eq(got.dtype, dt) or not all(same(x, w) for x, w in zip(got, want)):
			bad.append(f'[{idx}] -> {[list(map(int, x)) for x in got]!r} dtype {got.dtype}')
	mask = [i % 2 == 0 for i in range(n)]
	got = s[np.array(mask)]
	if [list(map(int, x)) for x in got] != [sigs[i] for i in range(n) if mask[i]] or not eq(got.dtype, dt):
		bad.append('[bool mask]')
	return bad


def nontrivial_rt(case):
	lens = {len(x) for x in case['sigs']}
	kind, _, _ = eff_ids(case)
	m = eff_meta(case)
	txt = json.dumps(m, ensure_ascii=True)
	return len(lens) >= 2 or kind == 'str' or '\\u' in txt or (isinstance(m['extra'], dict) and any(isinstance(v, (dict, list)) for v in m['extra'].values()))


def k_rt(ctx, cases):
	import numpy as np
	from gambit.sigs import dump_signatures, load_signatures
	reqs = []
	for c in cases:
		mc = mcoll(c)
		p = path_of(c)
		idx = [i for l in c.get('idx', []) for i in l]
		reqs += [(1201, [p, mc]), (1202, [p, mc]), (1207, [p, mc]), (1205, [p, mc, idx])]
		for a, b in c.get('slices', [])[:2]:
			reqs.append((1206, [p, mc, a, b]))
	ans = ctx.model(reqs) if ctx.model_ok else None
	pos = 0
	for c in cases:
		nsl = len(c.get('slices', [])[:2])
		a_store, a_load, a_dec, a_idx = (ans[pos:pos + 4] if ans else (None,) * 4)
		a_sl = ans[pos + 4:pos + 4 + nsl] if ans else []
		pos += 4 + nsl
		ctx.case(c, nontrivial=nontrivial_rt(c))
		wf = wf_case(c)
		m = eff_meta(c)
		if m['extra'] is not None and json.loads(json.dumps(m['extra'])) != m['extra']:
			ctx.broke('assumption json.loads(json.dumps(x)) == x', f'extra {m["extra"]!r}')
			continue
		path = tmp('rt') + '.gs'
		try:
			obj = build(c)
			kw = {} if c.get('compression') is None else dict(compression=c['compression'])
			dump_signatures(path, obj, **kw)
		except Exception as e:
			en = errname(e)
			if wf:
				ctx.violation('rt', c, f'dump_signatures raised {type(e).__name__}: {e}', impl=en, spec='file written',
				              model=a_store and mres(a_store)[0])
			elif a_store is not None and mres(a_store) != ('err', en):
				ctx.broke('correspondence rt (write of an unstorable string)', f'impl {en}, model {mres(a_store)} on {c}')
			_rm(path)
			continue
		if not wf:
			# h5py stored a string the model says it refuses
			if a_store is not None and mres(a_store)[0] == 'err':
				ctx.broke('correspondence rt (write of an unstorable string)', f'impl wrote the file, model {mres(a_store)} on {c}')
			_rm(path)
			continue
		# (b) the property predicate on the implementation
		try:
			with load_signatures(path) as s:
				bad = observe(s, c)
				l_vals = [int(x) for x in s.values[:]]
				l_bounds = [int(x) for x in s.bounds[:]]
				l_idx = [[int(v) for v in s[i]] for l in c.get('idx', []) for i in l]
				l_sl = []
				for a, b in c.get('slices', [])[:2]:
					sub = s[a:b]
					l_sl.append(([int(x) for x in sub.values], [int(x) for x in sub.bounds], [[int(v) for v in x] for x in sub]))
		except Exception as e:
			ctx.violation('rt', c, f'load_signatures of the written file raised {type(e).__name__}: {e}', impl=errname(e),
			              spec='loads as the written collection', model=a_load and mres(a_load)[0])
			_rm(path)
			continue
		if bad:
			ctx.violation('rt', c, 'loaded collection differs from the written one: ' + '; '.join(bad[:4]), impl=bad[:8],
			              spec='identical', model=a_dec and mres(a_dec))
			_rm(path)
			continue
		if ans is None:
			_rm(path)
			continue
		# (a1) raw file content = model store
		ms, ml, md, mi = mres(a_store), mres(a_load), mres(a_dec), mres(a_idx)
		if ms[0] != 'ok' or ml[0] != 'ok':
			ctx.broke('correspondence rt (model refuses a collection the implementation stores)', f'{ms if ms[0] != "ok" else ml} on {c}')
			_rm(path)
			continue
		r_attrs, r_dsets = raw_store(path)
		m_attrs, m_dsets = model_store(ms[1])
		r_attrs[8], m_attrs[8] = canon_extra(r_attrs.get(8)), canon_extra(m_attrs.get(8))
		if r_attrs != m_attrs or r_dsets != m_dsets:
			diff = [k for k in set(r_attrs) | set(m_attrs) if r_attrs.get(k) != m_attrs.get(k)] + \
			       [100 + k for k in set(r_dsets) | set(m_dsets) if r_dsets.get(k) != m_dsets.get(k)]
			ctx.broke('correspondence rt (file content != model store)', f'keys {diff} on {c}')
		# (a2) loaded object = model load / decode / getitem
		mk, mp, mm, mids, mty, mvals, mbounds = ml[1]
		if (mk, mp, DTN[mty], mvals, mbounds) != (c['k'], S(c['prefix']), c['dtype'], l_vals, l_bounds):
			ctx.broke('correspondence rt (loaded values/bounds != model load)', f'impl {(l_vals[:20], l_bounds[:20])} model {(mvals[:20], mbounds[:20])}')
		if md != ('ok', c['sigs']):
			ctx.broke('model decode != written signatures', f'{md} on {c}')
		if mi != ('ok', l_idx):
			ctx.broke('correspondence rt (index list)', f'impl {l_idx} model {mi}')
		for (a, b), got, mv in zip(c.get('slices', [])[:2], l_sl, a_sl):
			mv = mres(mv)
			if mv[0] != 'ok' or (mv[1][0][5], mv[1][0][6], mv[1][1]) != got:
				ctx.broke('correspondence rt (contiguous slice values/bounds)', f'[{a}:{b}] impl {got} model {mv}')
		_rm(path)


def _rm(path):
	try:
		os.unlink(path)
	except OSError:
		pass


# ---- foreign and malformed files ------------------------------------------------------------------------

def write_hdf(path, case):
	"""an HDF5 file with the given root attributes / datasets (optionally everything inside a sub-group)"""
	import h5py
	import numpy as np
	with h5py.File(path, 'w') as f:
		g = f.create_group('sigs') if case.get('subgroup') else f
		for name, v in case.get('attrs', {}).items():
			g.attrs[name] = h5py.Empty(h5py.string_dtype()) if v is None else v
		for name, d in case.get('dsets', {}).items():
			if d.get('strs') is not None:
				g.create_dataset(name, data=np.array(d['strs'], dtype=object), dtype=h5py.string_dtype())
			else:
				g.create_dataset(name, data=np.array(d['ints'], dtype=d.get('dtype', 'i8')))


def classify_raw(path, raw):
	"""0: h5py.File refuses the file (or it does not start with the magic number at all);
	2: h5py.File opens it but the root group cannot be read; None: a readable HDF5 file"""
	import h5py
	if raw[:8] != MAGIC:
		return 0
	try:
		f = h5py.File(path, 'r')
	except OSError:
		return 0
	try:
		'x' in f.attrs
		return None
	except KeyError:
		return 2
	finally:
		f.close()


def model_disk(case, raw=None, cl=0):
	if case['form'] == 'raw':
		return [cl or 0, list(raw)]
	if case.get('subgroup'):
		return [1, [[], []]]
	oa, od = {}, {}
	attrs = []
	for name, v in case.get('attrs', {}).items():
		attrs.append([key(AK, name, oa), [2] if v is None else ([0, v] if isinstance(v, int) else [1, S(v)])])
	dsets = []
	for name, d in case.get('dsets', {}).items():
		dsets.append([key(DK, name, od), [1, [S(x) for x in d['strs']]] if d.get('strs') is not None
		              else [0, DT[d.get('dtype', 'i8')], d['ints']]])
	return [1, [attrs, dsets]]


def k_foreign(ctx, cases):
	_files(ctx, cases, 'foreign')


def k_malformed(ctx, cases):
	_files(ctx, cases, 'malformed')


def _files(ctx, cases, kind):
	from gambit.sigs import load_signatures
	items = []
	for c in cases:
		path = tmp('fx')
		raw = None
		if c['form'] == 'raw':
			raw = bytes.fromhex(c['hex'])
			with open(path, 'wb') as f:
				f.write(raw)
		else:
			write_hdf(path, c)
		items.append((c, path, raw))
	reqs = []
	classes = []
	for c, path, raw in items:
		# the harness's classification of raw bytes ("h5py cannot open this" / "opens, root group unreadable")
		# is obtained from h5py itself, not from the code under test
		cl = classify_raw(path, raw) if raw is not None else None
		classes.append(cl)
		d = model_disk(c, raw, cl)
		reqs += [(1203, d), (1204, d)]
	ans = ctx.model(reqs) if ctx.model_ok else None
	for i, (c, path, raw) in enumerate(items):
		marked = c['form'] == 'hdf' and not c.get('subgroup') and 'gambit_signatures_version' in c.get('attrs', {})
		if raw is not None and classes[i] is None:
			ctx.count('foreign:raw-bytes-that-parse-as-hdf5 (skipped)')
			_rm(path)
			continue
		ctx.case(c, nontrivial=(c['form'] == 'hdf' or (raw or b'')[:8] == MAGIC))
		try:
			with load_signatures(path) as s:
				got = ('ok', dict(k=int(s.kmerspec.k), prefix=s.kmerspec.prefix_str, n=len(s)))
		except Exception as e:
			got = ('err', errname(e))
		_rm(path)
		mfix = mres(ans[2 * i]) if ans else None
		mcur = mres(ans[2 * i + 1]) if ans else None
		if not marked:
			# the property: not a signature file => the dedicated error
			if got != ('err', 'SignaturesFileError'):
				what = (f'a file that is not a signature file ({_describe(c, raw)}) is answered with {got[1]} '
				        f'instead of SignaturesFileError')
				ctx.violation(kind, c, what, impl=got, spec=['err', 'SignaturesFileError'], model=mfix, model_unrepaired=mcur)
			elif mfix is not None and mfix != ('err', 'SignaturesFileError'):
				ctx.broke('model load_file on a foreign file', f'{mfix} on {c}')
		elif mfix is not None:
			# marked but defective: outside the property, only the tie is checked
			mm = mfix if mfix[0] == 'err' else ('ok', dict(k=mfix[1][0], prefix=''.join(map(chr, mfix[1][1])), n=len(mfix[1][6]) - 1))
			if mm != got:
				ctx.broke('correspondence malformed (marked file with a defect)', f'impl {got} model {mm} on {c}')


def _describe(c, raw):
	if c['form'] == 'hdf':
		return 'well-formed HDF5 without the format marker in the root group'
	if raw[:8] == MAGIC:
		return f'{len(raw)} bytes starting with the HDF5 magic number that libhdf5 cannot parse'
	return f'{len(raw)} bytes, not HDF5'


# ---- command line ------------------------------------------------------------------------------------------

COMP = {65: 84, 84: 65, 67: 71, 71: 67}


def naive_signature(k, prefix, contigs):
	"""set of indices of the k-mers following the prefix on either strand (plain definition)"""
	out = set()
	p = prefix.encode()
	for seq in contigs:
		fw = seq.upper().encode()
		rc = bytes(COMP.get(b, b) for b in reversed(fw))
		for strand in (fw, rc):
			for i in range(len(strand) - len(p) - k + 1):
				if strand[i:i + len(p)] == p:
					kmer = strand[i + len(p):i + len(p) + k]
					if all(b in b'ACGT' for b in kmer):
						v = 0
						for b in kmer:
							v = v * 4 + b'ACGT'.index(b)
						out.add(v)
	return sorted(out)


def k_cli(ctx, cases):
	import click.testing
	import gambit.cli
	from gambit.sigs import load_signatures
	from gambit.sigs.base import SignaturesFileError
	for c in cases:
		ctx.case(c, nontrivial=len(c['genomes']) >= 2)
		d = tmp('cli')
		os.makedirs(d)
		files = []
		for i, contigs in enumerate(c['genomes']):
			fp = os.path.join(d, f'g{i}.fasta')
			with open(fp, 'w') as f:
				for j, s in enumerate(contigs):
					f.write(f'>c{j}\n{s}\n')
			files.append(fp)
		out = os.path.join(d, 'out.gs')
		lng = bool(c.get('long'))
		pre = []
		args = ['signatures', 'create', '--output' if lng else '-o', out]
		if c.get('kspec', 'given') == 'given':
			args += ['-k', str(c['k']), '--prefix' if lng else '-p', c['prefix']]
		elif c['kspec'] == 'db':
			# parameters taken from the signature file of a database directory (written here with h5py alone)
			db = os.path.join(d, 'db')
			os.makedirs(db)
			with open(os.path.join(db, 'genomes.gdb'), 'w'):
				pass
			write_hdf(os.path.join(db, 'refs.gs'), dict(
				attrs=dict(gambit_signatures_version=1, kmerspec_k=c['k'], kmerspec_prefix=c['prefix'], id='ref', name=None, id_attr='key',
				           version=None, description=None, extra='{}'),
				dsets=dict(values=dict(ints=[0], dtype=index_dtype(c['k'])), bounds=dict(ints=[0, 1]), ids=dict(strs=['r']))))
			pre = ['--db' if lng else '-d', db]
			args += ['--db-params' if lng else '-d']
		if not c.get('progress'):
			args += ['--no-progress']
		if c.get('cores'):
			args += ['--cores' if lng else '-c', str(c['cores'])]
		if c.get('ids') is not None:
			with open(os.path.join(d, 'ids.txt'), 'w') as f:
				f.write(''.join(x + '\n' for x in c['ids']))
			args += ['--ids' if lng else '-i', os.path.join(d, 'ids.txt')]
		if c.get('meta') is not None:
			with open(os.path.join(d, 'meta.json'), 'w') as f:
				json.dump(c['meta'], f)
			args += ['--meta-json' if lng else '-m', os.path.join(d, 'meta.json')]
		if c.get('input', 'args').startswith('listfile'):
			ldir = c['input'] == 'listfile_ldir'
			with open(os.path.join(d, 'list.txt'), 'w') as f:
				f.write(''.join((os.path.basename(x) if ldir else x) + '\n' for x in files))
			args += ['-l', os.path.join(d, 'list.txt')] + (['--ldir', d] if ldir else [])
			pos = []
		else:
			pos = files
		run = click.testing.CliRunner()
		r = run.invoke(gambit.cli.cli, pre + args + pos)
		if r.exit_code != 0:
			ctx.violation('cli', c, f'signatures create failed: {r.exception!r} {r.output[-200:]}', impl=r.exit_code)
			continue
		want = [naive_signature(c['k'], c['prefix'], g) for g in c['genomes']]
		want_ids = c['ids'] if c.get('ids') is not None else [f'g{i}' for i in range(len(files))]
		m = dict(id=None, name=None, id_attr=None, version=None, description=None, extra={})
		m.update(c.get('meta') or {})
		with load_signatures(out) as s:
			got = [[int(v) for v in x] for x in s]
			gids = list(s.ids)
			gm = {f: getattr(s.meta, f) for f in m}
			gk = (int(s.kmerspec.k), s.kmerspec.prefix_str)
		if got != want or gids != want_ids or gm != m or gk != (c['k'], c['prefix']):
			ctx.violation('cli', c, 'file written by `signatures create` does not load as the signatures / ids / metadata given',
			              impl=dict(sigs=got, ids=gids, meta=gm, kspec=gk), spec=dict(sigs=want, ids=want_ids, meta=m))
			continue
		r = run.invoke(gambit.cli.cli, ['signatures', 'info', '-i', out])
		if r.exit_code != 0 or r.output.split('\n')[:-1] != want_ids:
			ctx.violation('cli', c, '`signatures info -i` does not list the ids', impl=r.output, spec=want_ids)
		r = run.invoke(gambit.cli.cli, ['signatures', 'info', '-j', out])
		try:
			info = json.loads(r.output)
			ok = info['count'] == len(want) and info['kmerspec'] == dict(k=c['k'], prefix=c['prefix']) and \
				all(info['metadata'].get(f) == m[f] for f in m)
		except Exception:
			ok = False
		if not ok:
			ctx.violation('cli', c, '`signatures info -j` does not report the written parameters / metadata', impl=r.output[:500])
		r = run.invoke(gambit.cli.cli, ['signatures', 'info', '--json', '--pretty', out])
		try:
			info = json.loads(r.output)
			ok = info['count'] == len(want) and info['kmerspec'] == dict(k=c['k'], prefix=c['prefix']) and \
				all(info['metadata'].get(f) == m[f] for f in m)
		except Exception:
			ok = False
		if not ok:
			ctx.violation('cli', c, '`signatures info --json --pretty` does not report the written parameters / metadata', impl=r.output[:500])
		# the plain report: count, k, prefix, integer type and the metadata strings (those that print on one line unchanged)
		r = run.invoke(gambit.cli.cli, ['signatures', 'info', out])
		lines = [ln.strip() for ln in r.output.split('\n')]

		def field(label):
			for ln in lines:
				if ln.startswith(label):
					return ln[len(label):].strip()

		import numpy as np
		wantf = {'Genome Count:': str(len(want)), 'k:': str(c['k']), 'Prefix:': c['prefix'], 'Data type:': np.dtype(index_dtype(c['k'])).name}
		for label, f in (('ID:', 'id'), ('Version:', 'version'), ('Name:', 'name'), ('Description:', 'description'), ('Genome ID attribute:', 'id_attr')):
			v = m[f]
			if v is None:
				wantf[label] = '<none>'
			elif v.isprintable() and v == v.strip() and '  ' not in v:
				wantf[label] = v
		gotf = {label: field(label) for label in wantf}
		if r.exit_code != 0 or gotf != wantf:
			ctx.violation('cli', c, f'`signatures info` (plain report) does not show the written parameters / metadata: {gotf}', impl=r.output[:800], spec=wantf)
		# the same file found through a database directory
		db2 = os.path.join(d, 'db2')
		os.makedirs(db2)
		with open(os.path.join(db2, 'g.gdb'), 'w'):
			pass
		os.link(out, os.path.join(db2, 'sigs.h5'))
		r = run.invoke(gambit.cli.cli, ['-d', db2, 'signatures', 'info', '-d', '-i'])
		if r.exit_code != 0 or r.output.split('\n')[:-1] != want_ids:
			ctx.violation('cli', c, '`gambit -d DIR signatures info -d -i` does not list the ids', impl=r.output[:500], spec=want_ids)
		# a genome file is not a signature file
		r = run.invoke(gambit.cli.cli, ['signatures', 'info', files[0]])
		if r.exit_code == 0 or not isinstance(r.exception, SignaturesFileError):
			ctx.violation('cli', c, f'`signatures info` on a FASTA file: exit {r.exit_code}, {r.exception!r}', impl=repr(r.exception),
			              spec='SignaturesFileError')


# ---- input forms / API variations (property predicate only; these lie outside the Coq store model) ----------

class FsPath:
	"""an os.PathLike that is neither str nor pathlib.Path"""
	def __init__(self, p):
		self.p = p

	def __fspath__(self):
		return self.p

	def __str__(self):
		return self.p


def dteq_kind(a, b):
	"""same integer type up to byte order (1-byte types have none)"""
	import numpy as np
	a, b = np.dtype(a), np.dtype(b)
	return a.kind == b.kind and a.itemsize == b.itemsize


def api_path(form):
	import pathlib
	base = tmp('api')
	if form == 'Path':
		return pathlib.Path(base + '.gs')
	if form == 'fspath':
		return FsPath(base + '.gs')
	if form == 'unicode':
		return base + ' sígs 漢字 😀.gs'
	if form == 'space':
		return base + ' with space .gs'
	if form == 'noext':
		return base
	if form == 'h5':
		return base + '.h5'
	if form == 'rel':
		return os.path.relpath(base + '.gs')
	if form == 'dotdot':
		os.makedirs(os.path.join(_state['dir'], 'x'), exist_ok=True)
		return os.path.join(_state['dir'], 'x', '..', os.path.basename(base) + '.gs')
	return base + '.gs'


def api_kmerspec(case):
	import numpy as np
	from gambit.kmers import KmerSpec
	k = {'int': int, 'np.int64': np.int64, 'np.uint8': np.uint8, 'np.intp': np.intp}[case.get('kform', 'int')](case['k'])
	p = case['prefix']
	p = {'str': p, 'bytes': p.encode(), 'lower': p.lower(), 'bytes_lower': p.encode().lower()}[case.get('pform', 'str')]
	return KmerSpec(k, p)


def api_ids(case):
	"""the ids object handed to the wrapper, in the form named by case['idform']"""
	import numpy as np
	ids = case.get('ids')
	if ids is None:
		return None
	form = case.get('idform', 'plain')
	vals = list(ids['vals'])
	if ids['kind'] == 'int':
		dt = np.dtype(ids.get('dtype') or 'i8')
		arr = np.array(vals, dtype=dt)
		if form == 'pylist':
			return vals                      # the generator guarantees NumPy infers ids['dtype'] for this list
		if form == 'tuple':
			return tuple(arr) if ids.get('dtype') else tuple(vals)
		if form == 'scalars':
			return list(arr)                 # Python list of NumPy scalars
		if form == 'strided':
			return np.repeat(arr, 2)[::2]
		if form == 'swapped':
			return arr.astype(dt.newbyteorder())
		if form == 'readonly':
			arr.flags.writeable = False
			return arr
		return arr if ids.get('dtype') else vals
	if form == 'tuple':
		return tuple(vals)
	if form in ('scalars', 'npstr'):
		return [np.str_(x) for x in vals]
	if form == 'strided':
		return np.repeat(np.array(vals, dtype=object), 2)[::2]
	if form == 'swapped':
		return np.repeat(np.array(vals), 2)[::2]     # strided 'U' array
	if form == 'readonly':
		arr = np.array(vals, dtype=object)
		arr.flags.writeable = False
		return arr
	f = ids.get('as', 'list')
	return vals if f == 'list' else np.array(vals, dtype=object if f == 'O' else None)


def api_base(case, ks):
	"""the bare collection, constructed the way case['base'] says; its content is always case['sigs'] with the
	integer type case['dtype'] (byte-swapped for base == 'array_swapped')"""
	import random
	import numpy as np
	from gambit.sigs import SignatureArray, SignatureList
	from gambit.sigs.base import AbstractSignatureArray
	dt = np.dtype(case['dtype'])
	sw = dt.newbyteorder()
	wide = np.dtype('u8' if dt.kind == 'u' else 'i8')
	arrs = [np.array(s, dtype=dt) for s in case['sigs']]
	n = len(arrs)
	r = random.Random(case.get('seed', 0))
	top = min(4 ** case['k'] - 1, int(np.iinfo(dt).max))

	def junk():
		return np.array(sorted({r.randint(0, top) for _ in range(r.randint(0, 3))}), dtype=dt)

	v = case.get('base', 'array')
	if v == 'array':
		return SignatureArray(arrs, ks, dtype=dt)
	if v == 'list':
		return SignatureList(arrs, ks, dtype=dt)
	if v == 'array_inferred':
		return SignatureArray(arrs, ks)
	if v == 'list_inferred':
		return SignatureList(arrs, ks)
	if v == 'array_kwargs':
		return SignatureArray(signatures=tuple(arrs), kmerspec=ks, dtype=case['dtype'])
	if v == 'list_strdtype':
		return SignatureList(arrs, ks, dtype=case['dtype'])
	if v == 'list_typedtype':
		return SignatureList(iter(arrs), kmerspec=ks, dtype=dt.type)
	if v == 'array_copy':
		return SignatureArray(SignatureArray(arrs, ks, dtype=dt))
	if v == 'array_cast':
		return SignatureArray(SignatureArray([a.astype(wide) for a in arrs], ks, dtype=wide), dtype=dt)
	if v == 'array_from_list':
		return SignatureArray(SignatureList(arrs, ks, dtype=dt))
	if v == 'list_from_array':
		return SignatureList(SignatureArray(arrs, ks, dtype=dt))
	if v == 'array_view':
		a, b = r.randint(0, 3), r.randint(0, 3)
		big = SignatureArray([junk() for _ in range(a)] + arrs + [junk() for _ in range(b)], ks, dtype=dt)
		return big[a:a + n]
	if v == 'array_fancy':
		extra = r.randint(0, 3)
		slots = list(range(n + extra))
		r.shuffle(slots)
		src = [junk() for _ in range(n + extra)]
		for i in range(n):
			src[slots[i]] = arrs[i]
		return SignatureArray(src, ks, dtype=dt)[slots[:n]]
	if v == 'array_rev':
		return SignatureArray(arrs[::-1], ks, dtype=dt)[::-1]
	if v in ('array_offset', 'array_bounds_other'):
		pre, post = (junk(), junk()) if v == 'array_offset' else (arrs[0][:0], arrs[0][:0])
		values = np.concatenate([pre] + arrs + [post]).astype(dt)
		bdt = np.intp if v == 'array_offset' else np.dtype(r.choice(['i4', 'u8', 'u4', 'i8']))
		bounds = (len(pre) + np.cumsum([0] + [len(a) for a in arrs])).astype(bdt)
		return SignatureArray.from_arrays(values, bounds, ks)
	if v == 'array_swapped':
		return SignatureArray([a.astype(sw) for a in arrs], ks, dtype=sw)
	if v == 'list_strided':
		return SignatureList([np.repeat(a, 2)[::2] for a in arrs], ks, dtype=dt)
	if v == 'list_swapped':
		return SignatureList([a.astype(sw) for a in arrs], ks, dtype=dt)
	if v == 'list_wider':
		return SignatureList([a.astype(wide) for a in arrs], ks, dtype=dt)
	if v == 'list_readonly':
		for a in arrs:
			a.flags.writeable = False
		return SignatureList(arrs, ks, dtype=dt)
	if v == 'list_mutated':
		l = SignatureList([junk(), junk()], ks, dtype=dt)
		l[0] = arrs[0]
		del l[1]
		l.insert(0, junk())
		for a in arrs[1:]:
			l.append(a)
		l.pop(0)
		l.extend([junk()])
		del l[-1]
		return l
	if v == 'custom_plain':
		class Plain(AbstractSignatureArray):
			def __init__(self):
				self.kmerspec, self.dtype = ks, dt

			def __len__(self):
				return n

			def __getitem__(self, i):
				return arrs[i]
		return Plain()
	raise ValueError(v)


def api_file1(case, ids_meta):
	"""a genuine signature file written by the harness with h5py alone (source of the 're-dump' cases)"""
	import numpy as np
	sigs = case['sigs']
	kind, idt, ivals = ids_meta[0]
	m = ids_meta[1]
	attrs = dict(gambit_signatures_version=1, kmerspec_k=case['k'], kmerspec_prefix=case['prefix'])
	for f in META_FIELDS:
		attrs[f] = m[f]
	attrs['extra'] = None if m['extra'] is None else json.dumps(m['extra'])
	dsets = dict(values=dict(ints=np.concatenate([np.asarray(s, dtype=case['dtype']) for s in sigs]), dtype=case['dtype']),
	             bounds=dict(ints=[int(x) for x in np.cumsum([0] + [len(s) for s in sigs])], dtype='i8'),
	             ids=dict(strs=ivals) if kind == 'str' else dict(ints=ivals, dtype=idt))
	path = tmp('src') + '.gs'
	write_hdf(path, dict(attrs=attrs, dsets=dsets))
	return path


def api_build(case, keep, ks=None):
	"""the object handed to the writer; `keep` collects (open source collection, path) pairs to close afterwards;
	`ks`: a KmerSpec object to use (the sequence stream shares one between collections)"""
	from gambit.sigs import AnnotatedSignatures, SignaturesMeta, load_signatures
	from gambit.sigs.base import ReferenceSignatures
	ks = ks or api_kmerspec(case)
	wrap = case.get('wrap', 'none')
	m = case.get('meta')
	if m is not None and case.get('meta_noextra') and m.get('extra') == {}:
		m = {f: v for f, v in m.items() if f != 'extra'}      # `extra` left to the class default
	meta = None if m is None else SignaturesMeta(**m)
	if wrap in ('reloaded', 'annot_reloaded'):
		other = (('str', None, [f'old{i}' for i in range(len(case['sigs']))]),
		         dict(id='old', name='old', id_attr=None, version='0', description=None, extra={'old': [1]}))
		path = api_file1(case, (eff_ids(case), eff_meta(case)) if wrap == 'reloaded' else other)
		src = load_signatures(path)
		keep.append((src, path))
		return src if wrap == 'reloaded' else AnnotatedSignatures(src, api_ids(case), meta)
	if wrap == 'custom_ref':
		import numpy as np
		arrs = [np.array(s, dtype=case['dtype']) for s in case['sigs']]
		pids = api_ids(case)

		class Ref(ReferenceSignatures):
			def __init__(self):
				self.kmerspec, self.dtype = ks, np.dtype(case['dtype'])
				self.ids = list(range(len(arrs))) if pids is None else pids
				self.meta = SignaturesMeta() if meta is None else meta

			def __len__(self):
				return len(arrs)

			def __getitem__(self, i):
				return arrs[i]
		return Ref()
	base = api_base(case, ks)
	if wrap == 'none':
		return base
	if wrap == 'annot_annot':
		base = AnnotatedSignatures(base, [f'inner{i}' for i in range(len(base))], SignaturesMeta(id='inner', extra={'inner': True}))
	return AnnotatedSignatures(base, api_ids(case), meta)


def api_snapshot(obj):
	"""what the caller can see of the object it handed to the writer"""
	import copy
	import attr
	sigs = [[int(v) for v in x] for x in obj]
	ids = [x.item() if hasattr(x, 'item') else x for x in obj.ids] if hasattr(obj, 'ids') else None
	meta = copy.deepcopy(attr.asdict(obj.meta)) if hasattr(obj, 'meta') else None
	return sigs, ids, meta, str(obj.dtype), (int(obj.kmerspec.k), obj.kmerspec.prefix_str)


def api_write(case, obj, path, comp, copts, bad, dteq):
	"""returns the name of the group holding the signatures (None = the root group)"""
	import h5py
	import gambit.sigs
	import gambit.sigs.base
	import gambit.sigs.hdf5
	w = case.get('writer', 'dump')
	kw = {}
	if comp is not None or case.get('explicit_none'):
		kw['compression'] = comp
	if copts is not None or case.get('explicit_none'):
		kw['compression_opts'] = copts
	if w == 'dump':
		gambit.sigs.dump_signatures(path, obj, **kw)
	elif w == 'dump_fmt_kw':
		gambit.sigs.dump_signatures(path, obj, format='hdf5', **kw)
	elif w == 'dump_fmt_pos':
		gambit.sigs.dump_signatures(path, obj, 'hdf5', **kw)
	elif w == 'dump_kwargs':
		gambit.sigs.dump_signatures(path=path, signatures=obj, **kw)
	elif w == 'base':
		gambit.sigs.base.dump_signatures(path, obj, **kw)
	elif w == 'hdf5':
		gambit.sigs.hdf5.dump_signatures_hdf5(path, obj, **kw)
	elif w in ('create_root', 'create_group', 'create_latest', 'create_beside'):
		fkw = dict(libver='latest') if w == 'create_latest' else {}
		with h5py.File(path, 'w', **fkw) as f:
			g = f
			if w == 'create_group':
				g = f.create_group('sub/sigs')
			if w == 'create_beside':
				f.create_group('other').attrs['title'] = 'unrelated'
				f['other'].create_dataset('data', data=[1.5, 2.5])
			got = gambit.sigs.hdf5.HDF5Signatures.create(g, obj, **kw)
			bad += ['object returned by HDF5Signatures.create: ' + b for b in observe(got, case, dteq)]
		return 'sub/sigs' if w == 'create_group' else None
	else:
		raise ValueError(w)
	return None


def api_open(case, path, group=None):
	import h5py
	import gambit.sigs
	import gambit.sigs.base
	import gambit.sigs.hdf5
	kw = dict(case.get('rkw') or {})
	rd = case.get('reader', 'load')
	if group is not None or rd == 'class':
		f = h5py.File(path, **dict(dict(mode='r'), **kw))
		return gambit.sigs.hdf5.HDF5Signatures(f[group] if group else f)
	if rd == 'base':
		return gambit.sigs.base.load_signatures(path, **kw)
	if rd == 'hdf5':
		return gambit.sigs.hdf5.load_signatures_hdf5(path, **kw)
	if rd == 'load_kwargs':
		return gambit.sigs.load_signatures(path=path, **kw)
	return gambit.sigs.load_signatures(path, **kw)


def mk_index(spec, n):
	"""index object described by spec, and the positions it selects in a sequence of n items:
	int (single item) | list (sub-collection) | 'oob' (must raise IndexError)"""
	import numpy as np
	t = spec['t']
	if t == 'int':
		v = spec['v']
		idx = v if spec['dt'] == 'py' else np.dtype(spec['dt']).type(v)
		return idx, (v % n if -n <= v < n else 'oob')
	if t in ('arr', 'seq'):
		v = spec['v']
		want = [i % n for i in v] if all(-n <= i < n for i in v) else 'oob'
		if t == 'seq':
			how = spec.get('as', 'list')
			items = v if spec.get('dt', 'py') == 'py' else list(np.array(v, dtype=spec['dt']))
			return (tuple(items) if how == 'tuple' else list(items)), want
		a = np.array(v, dtype=spec['dt'])
		how = spec.get('how', 'plain')
		if how == 'strided':
			a = np.repeat(a, 2)[::2]
		elif how == 'swapped':
			a = a.astype(a.dtype.newbyteorder())
		elif how == 'readonly':
			a.flags.writeable = False
		return a, want
	if t == 'range':
		rg = range(spec['a'], spec['b'], spec['st'])
		return rg, ([i % n for i in rg] if all(-n <= i < n for i in rg) else 'oob')
	if t == 'bool':
		m = [bool(x) for x in spec['v']]
		how = spec.get('as', 'arr')
		idx = m if how == 'list' else tuple(m) if how == 'tuple' else np.repeat(np.array(m), 2)[::2] if how == 'strided' else np.array(m)
		return idx, ([i for i in range(n) if m[i]] if len(m) == n else 'oob')
	if t == 'slice':
		f = (lambda x: x) if not spec.get('dt') else (lambda x: None if x is None else np.dtype(spec['dt']).type(x))
		return slice(f(spec['a']), f(spec['b']), f(spec['st'])), list(range(n))[slice(spec['a'], spec['b'], spec['st'])]
	raise ValueError(t)


def apply_spec(coll, sigs, spec, dt, eq, ks, bad, label='', idx=None, keep=None):
	"""index `coll` (whose content must be `sigs`) as spec says and compare with what a Python list gives;
	`idx`: an index object built earlier from the same spec (sequence stream: one object used several times);
	`keep`: list receiving (description, result, expected) of every result that was right"""
	import numpy as np
	n = len(sigs)
	fresh, want = mk_index(spec, n)
	idx = fresh if idx is None else idx
	desc = f'{label}[{ {k: v for k, v in spec.items() if k != "then"} }]'
	try:
		got = coll[idx]
	except IndexError as e:
		if want != 'oob':
			bad.append(f'{desc} raised IndexError: {e}')
		return
	except Exception as e:
		bad.append(f'{desc} raised {type(e).__name__}: {e}')
		return
	if want == 'oob':
		bad.append(f'{desc} did not raise IndexError')
		return

	def same(x, w):
		return isinstance(x, np.ndarray) and eq(x.dtype, dt) and [int(v) for v in x] == w

	if isinstance(want, int):
		if not same(got, sigs[want]):
			bad.append(f'{desc} = {got!r}, written {sigs[want]}')
		elif keep is not None:
			keep.append((desc, got, sigs[want]))
		return
	exp = [sigs[i] for i in want]
	try:
		ok = len(got) == len(exp) and eq(got.dtype, dt) and all(same(got[i], exp[i]) for i in range(len(exp))) \
			and all(same(x, w) for x, w in zip(got, exp)) and got.kmerspec == ks
	except Exception as e:
		bad.append(f'{desc}: result unusable: {type(e).__name__}: {e}')
		return
	if not ok:
		bad.append(f'{desc} -> {[list(map(int, x)) for x in got]!r} dtype {got.dtype}, written {exp}')
		return
	if keep is not None:
		keep.append((desc, got, exp))
	if spec.get('then') is not None and exp:
		apply_spec(got, exp, spec['then'], dt, eq, ks, bad, label=desc)


def observe_more(s, case, eq):
	"""further ways of looking at the loaded signatures: iteration, conversion to the in-memory containers, sizes,
	and the index forms listed in case['xidx'] (NumPy scalars, index arrays of other dtypes / layouts, tuples, ranges,
	bool lists, slices with NumPy bounds and other steps, negative entries, indexing of an indexing result)"""
	import numpy as np
	from gambit.sigs import SignatureArray, SignatureList
	bad = []
	sigs = case['sigs']
	dt = np.dtype(case['dtype'])

	def lists(xs):
		return [[int(v) for v in x] for x in xs]

	def typed(xs):
		return all(isinstance(x, np.ndarray) and eq(x.dtype, dt) for x in xs)

	it = list(s)
	if lists(it) != sigs or not typed(it):
		bad.append(f'iteration yields {lists(it)!r}')
	it = list(reversed(s))
	if lists(it) != sigs[::-1] or not typed(it):
		bad.append(f'reversed() yields {lists(it)!r}')
	sa = SignatureArray(s)
	if lists(sa) != sigs or not eq(sa.dtype, dt) or sa.kmerspec != s.kmerspec or [int(x) for x in sa.values] != [v for x in sigs for v in x]:
		bad.append(f'SignatureArray(loaded) = {lists(sa)!r} dtype {sa.dtype}')
	sl = SignatureList(s)
	if lists(sl) != sigs or not eq(np.dtype(sl.dtype), dt) or sl.kmerspec != s.kmerspec or not typed(list(sl)):
		bad.append(f'SignatureList(loaded) = {lists(sl)!r} dtype {sl.dtype}')
	if [int(x) for x in s.sizes()] != [len(x) for x in sigs]:
		bad.append(f'sizes() = {list(s.sizes())!r}')
	for i in range(-len(sigs), len(sigs)):
		if int(s.sizeof(i)) != len(sigs[i]) or int(s.sizeof(np.int16(i))) != len(sigs[i]):
			bad.append(f'sizeof({i}) = {s.sizeof(i)!r}')
	for spec in case.get('xidx', []):
		apply_spec(s, sigs, spec, dt, eq, s.kmerspec, bad)
	return bad


def api_run(c):
	"""list of differences between what was written and what is read back (empty = the property holds)"""
	import gc
	import traceback
	from gambit.sigs import load_signatures
	bad = []
	keep = []
	paths = []
	eq = dteq_kind if c.get('base') == 'array_swapped' or c.get('idform') == 'swapped' else None
	eq2 = eq or (lambda a, b: a == b)
	reuse = c.get('reuse')
	stage = 'constructing the collection'
	try:
		obj = api_build(c, keep)
		snap = api_snapshot(obj)
		stage = 'writing'
		paths.append(api_path(c.get('pathform', 'str')))
		if reuse == 'overwrite':
			# something else already lives at the destination: the file must be replaced, not appended to
			pre = c.get('pre', 'text')
			if pre == 'text':
				with open(paths[0], 'w') as f:
					f.write('not a signature file\n' * 50)
			else:
				big = dict(c, sigs=[[1, 2, 3]] * (len(c['sigs']) + 3), k=4, prefix='G', dtype='u1')
				p1 = api_file1(big, (('str', None, [f'pre{i}' for i in range(len(big['sigs']))]),
				                     dict(id='pre', name=None, id_attr='pre', version=None, description='pre', extra={'pre': 1})))
				os.replace(p1, paths[0])
		groups = [api_write(c, obj, paths[0], c.get('compression'), c.get('copts'), bad, eq)]
		if reuse == 'twice':
			paths.append(api_path('str'))
			groups.append(api_write(c, obj, paths[1], c.get('compression2'), None, bad, eq))
		if api_snapshot(obj) != snap:
			bad.append(f'the collection handed to the writer was changed by writing it: {api_snapshot(obj)!r} was {snap!r}')
		for src, _ in keep:
			src.close()
		stage = 'loading'
		for path, grp in zip(paths, groups):
			if grp is not None:
				# the root group of this file carries no marker: as a whole it is an HDF5 file of another kind
				try:
					load_signatures(path).close()
					bad.append('file whose root group is unmarked (signatures in a sub-group) was loaded')
				except Exception as e:
					if errname(e) != 'SignaturesFileError':
						bad.append(f'file whose root group is unmarked is answered with {type(e).__name__}')
				# the refusing reader leaves its h5py.File to the garbage collector (exception <-> frame cycle); not judged
				# by this property, but a read-write open below needs the handle gone
				gc.collect()
			if reuse == 'reopen':
				api_open(c, path, grp).close()
			other = None
			if reuse == 'two_open':
				p2 = api_file1(dict(k=c['k'] % 32 + 1, prefix='G', dtype='u1', sigs=[[9], [], [1, 2]]),
				               (('int', 'i8', [7, 8, 9]), dict(id='other', name=None, id_attr=None, version=None, description=None, extra=None)))
				other = load_signatures(p2)
				keep.append((other, p2))
			elif reuse == 'same_file' and (c.get('rkw') or {}).get('mode') != 'r+':
				other = api_open(c, path, grp)
				keep.append((other, None))
			s = api_open(c, path, grp)
			try:
				bad += observe(s, c, eq)
				bad += observe_more(s, c, eq2)
				if other is not None:
					[int(v) for x in other for v in x]
					list(other.ids)
					other.close()
					bad += ['after using and closing another open file: ' + b for b in observe(s, c, eq)]
				if reuse == 'observe_twice':
					bad += ['second look: ' + b for b in observe(s, c, eq) + observe_more(s, c, eq2)]
			finally:
				s.close()
	except Exception as e:
		tb = traceback.extract_tb(e.__traceback__)[-1]
		bad.append(f'{stage}: {type(e).__name__}: {e} ({os.path.basename(tb.filename)}:{tb.lineno})')
	finally:
		for src, p in keep:
			try:
				src.close()
			except Exception:
				pass
			if p:
				_rm(p)
		for p in paths:
			_rm(os.fspath(p))
	return bad


def k_api(ctx, cases):
	for c in cases:
		ctx.case(c, nontrivial=True)
		m = eff_meta(c)
		if m['extra'] is not None and json.loads(json.dumps(m['extra'])) != m['extra']:
			continue
		bad = api_run(c)
		if bad:
			ctx.violation('api', c, 'written collection and loaded collection differ: ' + '; '.join(bad[:3]), impl=bad[:8], spec='identical',
			              model='not modelled (input form / API outside Model/Store.v)')


# ---- signature size classes (property predicate only; collections are described by lengths, not by values) ------------

SZ_SHAPES = ('gaps', 'run', 'edges')


def sz_cap(k, dtype):
	"""number of distinct k-mer indices the integer type can hold = the longest possible signature"""
	import numpy as np
	return min(4 ** k, int(np.iinfo(np.dtype(dtype)).max) + 1)


def sz_sig(k, dtype, size, seed, i, shape):
	"""signature number i of a case: `size` sorted distinct k-mer indices below 4^k, a function of the arguments only
	gaps: random gaps over the whole range; edges: the same with the first value 0 and the last one 4^k-1 (or the largest
	the type holds); run: consecutive indices from a random start"""
	import numpy as np
	dt = np.dtype(dtype)
	top = sz_cap(k, dtype)
	if size == 0:
		return np.zeros(0, dtype=dt)
	if size > top:
		raise ValueError(f'no signature of {size} values exists for k={k} dtype={dtype}')
	r = np.random.default_rng([seed, i, size])
	if shape == 'run':
		start = int(r.integers(0, top - size, dtype=np.uint64, endpoint=True))
		vals = np.uint64(start) + np.arange(size, dtype=np.uint64)
	else:
		slack = r.integers(0, top // size - 1, size=size, dtype=np.uint64, endpoint=True)
		vals = np.cumsum(slack, dtype=np.uint64) + np.arange(size, dtype=np.uint64)   # <= size * (top // size) - 1 < top
		if shape == 'edges':
			vals[0] = 0
			vals[-1] = top - 1
	return vals.astype(dt)


def sz_expand(case):
	return [sz_sig(case['k'], case['dtype'], size, case['seed'], i, case.get('shape', 'gaps')) for i, size in enumerate(case['sizes'])]


def sz_diff(x, w, dt):
	"""None if x is the written signature w in the written integer type, else what differs"""
	import numpy as np
	if not isinstance(x, np.ndarray):
		return f'a {type(x).__name__}'
	if x.dtype != dt:
		return f'integer type {x.dtype}, written {dt}'
	if x.shape != w.shape:
		return f'{x.shape} values, written {len(w)}'
	ne = np.flatnonzero(x != w)
	if len(ne):
		p = int(ne[0])
		return f'{len(ne)} of {len(w)} values differ, first at position {p}: read {int(x[p])}, written {int(w[p])}'
	return None


def observe_sizes(s, case, arrs):
	"""the property predicate of `observe` with NumPy comparisons (signatures here have up to 2^17 + 1 values):
	parameters, ids, metadata, every int index, out-of-range ints, slices, index lists, bool mask, iteration"""
	import numpy as np
	n = len(arrs)
	dt = np.dtype(case['dtype'])
	bad = observe_head(s, case, lambda a, b: a == b)
	if len(s) != n:
		return bad
	for i in range(-n, n):
		d = sz_diff(s[i], arrs[i], dt)
		if d:
			bad.append(f'[{i}] (signature {i % n} of lengths {case["sizes"]}) is {d}')
	for i in (n, -n - 1):
		try:
			s[i]
			bad.append(f'[{i}] did not raise')
		except IndexError:
			pass

	def sub(desc, got, want):
		try:
			if len(got) != len(want) or got.dtype != dt or got.kmerspec != s.kmerspec:
				bad.append(f'{desc} has {len(got)} signatures of type {got.dtype}, expected {len(want)} of {dt}')
				return
			for j, (x, w) in enumerate(zip(got, want)):
				d = sz_diff(x, w, dt)
				if d is None:
					d = sz_diff(got[j], w, dt)
				if d:
					bad.append(f'{desc}: item {j} (length {len(w)}) is {d}')
		except Exception as e:
			bad.append(f'{desc}: result unusable: {type(e).__name__}: {e}')

	for a, b, st in [(a, b, None) for a, b in case.get('slices', [])] + [(None, None, None), (None, None, -1), (1, None, 2)]:
		sub(f'[{a}:{b}:{st}]', s[a:b:st], arrs[slice(a, b, st)])
	for idx in list(case.get('idx', [])) + [[], list(range(n))[::-1]]:
		sub(f'[{idx}]', s[np.array(idx, dtype=np.intp)] if not idx else s[idx], [arrs[i] for i in idx])
	mask = [i % 2 == 0 for i in range(n)]
	sub('[bool mask]', s[np.array(mask)], [arrs[i] for i in range(n) if mask[i]])
	it = list(s)
	if len(it) != n or any(sz_diff(x, w, dt) for x, w in zip(it, arrs)):
		bad.append('iteration yields other signatures than indexing')
	return bad


def sz_run(c):
	"""list of differences between what was written and what is read back (empty = the property holds)"""
	import traceback
	from gambit.sigs import dump_signatures, load_signatures
	bad = []
	keep = []
	path = tmp('sz') + '.gs'
	stage = 'constructing the collection'
	try:
		arrs = sz_expand(c)
		full = dict(c, sigs=arrs)
		obj = api_build(full, keep)
		stage = 'writing'
		kw = {}
		if c.get('compression') is not None:
			kw['compression'] = c['compression']
		if c.get('copts') is not None:
			kw['compression_opts'] = c['copts']
		dump_signatures(path, obj, **kw)
		for src, _ in keep:
			src.close()
		stage = 'loading'
		with load_signatures(path) as s:
			bad += observe_sizes(s, full, arrs)
	except Exception as e:
		tb = traceback.extract_tb(e.__traceback__)[-1]
		bad.append(f'{stage}: {type(e).__name__}: {e} ({os.path.basename(tb.filename)}:{tb.lineno})')
	finally:
		for src, p in keep:
			try:
				src.close()
			except Exception:
				pass
			if p:
				_rm(p)
		_rm(path)
	return bad


def k_sizes(ctx, cases):
	for c in cases:
		ctx.case(c, nontrivial=len(set(c['sizes'])) >= 2)
		m = eff_meta(dict(c, sigs=c['sizes']))
		if m['extra'] is not None and json.loads(json.dumps(m['extra'])) != m['extra']:
			continue
		bad = sz_run(c)
		if bad:
			ctx.violation('sizes', c, 'written collection and loaded collection differ: ' + '; '.join(bad[:3]), impl=bad[:8], spec='identical',
			              model='not modelled (signatures are given by length and seed; Model/Store.v is driven by the rt streams)')


# ---- foreign content through every reader (property predicate only) -------------------------------------------

def fx_content(name, seed, path):
	"""write the named non-signature content to path"""
	import gzip
	import random
	import h5py
	import numpy as np
	r = random.Random(seed)
	fasta = ''.join(f'>contig{i} len\n' + '\n'.join(''.join(r.choice('ACGT') for _ in range(60)) for _ in range(r.randint(1, 5))) + '\n'
	                for i in range(r.randint(1, 4))).encode()
	raw = None
	if name == 'empty':
		raw = b''
	elif name == 'text':
		raw = b'GAMBIT signatures\nversion 1\n' * r.randint(1, 30)
	elif name == 'text_big':
		raw = bytes(r.choice(b'abcdefghij \n') for _ in range(100000))
	elif name == 'fasta':
		raw = fasta
	elif name == 'fasta_gz':
		raw = gzip.compress(fasta)
	elif name == 'real_gz':
		raw = gzip.compress(real_file_bytes(r, 'gzip'))
	elif name == 'real_shifted':
		raw = r.choice([b'\n', b'#', b'\x00' * 7]) + real_file_bytes(r, None)
	elif name == 'real_truncated':
		real = real_file_bytes(r, r.choice([None, 'lzf']))
		raw = real[:r.randint(8, len(real) * 3 // 4)]
	elif name == 'magic_garbage':
		raw = MAGIC + bytes(r.randrange(256) for _ in range(r.randint(0, 400)))
	elif name == 'json':
		raw = json.dumps(dict(gambit_signatures_version=1, kmerspec_k=11, kmerspec_prefix='ATGAC', ids=['a'], values=[1, 2], bounds=[0, 2])).encode()
	elif name == 'csv':
		raw = b'query,predicted.name,closest.distance\nq1,Escherichia coli,0.01\n'
	elif name == 'npy':
		import io
		b = io.BytesIO()
		np.save(b, np.arange(r.randint(1, 50), dtype='u4'))
		raw = b.getvalue()
	elif name == 'zip':
		import io
		b = io.BytesIO()
		np.savez(b, values=np.arange(5), bounds=np.array([0, 5]))
		raw = b.getvalue()
	elif name == 'sqlite':
		import sqlite3
		con = sqlite3.connect(path)
		con.execute('create table genomes (id integer primary key, key text)')
		con.executemany('insert into genomes values (?, ?)', [(i, f'g{i}') for i in range(r.randint(1, 20))])
		con.commit()
		con.close()
		return
	if raw is not None:
		with open(path, 'wb') as f:
			f.write(raw)
		return
	sig = dict(values=np.array([1, 2, 3], dtype='u2'), bounds=np.array([0, 1, 3]), ids=np.array([5, 6]))
	attrs = dict(kmerspec_k=5, kmerspec_prefix='AT', id='x', extra='{}')
	with h5py.File(path, 'w', **(dict(libver='latest') if name == 'hdf_latest' else {})) as f:
		if name in ('hdf_empty', 'hdf_latest'):
			pass
		elif name == 'hdf_nested_sigs':
			g = f.create_group('a/b')
			g.attrs['gambit_signatures_version'] = 1
			for k, v in attrs.items():
				g.attrs[k] = v
			for k, v in sig.items():
				g.create_dataset(k, data=v)
		elif name == 'hdf_marker_dataset':
			f.create_dataset('gambit_signatures_version', data=1)
			for k, v in attrs.items():
				f.attrs[k] = v
			for k, v in sig.items():
				f.create_dataset(k, data=v)
		elif name == 'hdf_marker_on_dataset':
			for k, v in sig.items():
				f.create_dataset(k, data=v).attrs['gambit_signatures_version'] = 1
			for k, v in attrs.items():
				f.attrs[k] = v
		elif name == 'hdf_nomark_full':
			for k, v in attrs.items():
				f.attrs[k] = v
			for k, v in sig.items():
				f.create_dataset(k, data=v)
		elif name == 'hdf_float':
			f.create_dataset('matrix', data=np.array([[r.random() for _ in range(4)] for _ in range(3)]), compression='gzip')
			f.attrs['CLASS'] = 'GROUP'
			f.attrs['TITLE'] = 'distance matrix'
			f.attrs['VERSION'] = '1.0'
		elif name == 'hdf_other_version_attr':
			f.attrs['version'] = 1
			f.attrs['signatures_version'] = 1
			f.attrs['gambit_signatures_version '] = 1
			f.attrs[' gambit_signatures_version'] = 1
		else:
			raise ValueError(name)


FX_CONTENTS = ('empty', 'text', 'text_big', 'fasta', 'fasta_gz', 'real_gz', 'real_shifted', 'real_truncated', 'magic_garbage', 'json', 'csv',
               'npy', 'zip', 'sqlite', 'hdf_empty', 'hdf_latest', 'hdf_nested_sigs', 'hdf_marker_dataset', 'hdf_marker_on_dataset',
               'hdf_nomark_full', 'hdf_float', 'hdf_other_version_attr')
FX_PY = ('load', 'load_path', 'load_fspath', 'load_kwargs', 'load_mode_r', 'load_core', 'base', 'hdf5', 'class', 'class_group')
FX_CLI = ('info', 'info_j', 'info_i', 'info_jp', 'info_db', 'create_db', 'tree', 'dist_qs', 'dist_rs')


def fx_genuine(path):
	write_hdf(path, dict(attrs=dict(gambit_signatures_version=1, kmerspec_k=5, kmerspec_prefix='AT', id=None, name=None, id_attr=None,
	                                version=None, description=None, extra='{}'),
	                     dsets=dict(values=dict(ints=[1, 2, 3], dtype='u2'), bounds=dict(ints=[0, 1, 3]), ids=dict(strs=['a', 'b']))))


def k_foreign2(ctx, cases):
	"""a file that is not a signature file, offered to every function / command that opens signature files"""
	import pathlib
	import shutil
	import h5py
	import click.testing
	import gambit.cli
	import gambit.sigs
	import gambit.sigs.base
	import gambit.sigs.hdf5
	for c in cases:
		d = tmp('fx2')
		os.makedirs(d)
		path = os.path.join(d, c.get('fname', 'file.bin'))
		fx_content(c['content'], c['seed'], path)
		# independent classification with h5py alone: does libhdf5 read it, is its root group marked?
		try:
			with h5py.File(path, 'r') as f:
				parsable, marked = True, 'gambit_signatures_version' in f.attrs
		except Exception:
			parsable, marked = False, False
		ch = c['channel']
		if marked or (ch in ('class', 'class_group') and not parsable):
			ctx.count('foreign2:not-applicable (skipped)')
			shutil.rmtree(d, ignore_errors=True)
			continue
		ctx.case(c, nontrivial=True)
		got = None
		try:
			if ch in FX_PY:
				try:
					if ch == 'load':
						s = gambit.sigs.load_signatures(path)
					elif ch == 'load_path':
						s = gambit.sigs.load_signatures(pathlib.Path(path))
					elif ch == 'load_fspath':
						s = gambit.sigs.load_signatures(FsPath(path))
					elif ch == 'load_kwargs':
						s = gambit.sigs.load_signatures(path=path)
					elif ch == 'load_mode_r':
						s = gambit.sigs.load_signatures(path, mode='r')
					elif ch == 'load_core':
						s = gambit.sigs.load_signatures(path, driver='core', backing_store=False)
					elif ch == 'base':
						s = gambit.sigs.base.load_signatures(path)
					elif ch == 'hdf5':
						s = gambit.sigs.hdf5.load_signatures_hdf5(path)
					else:
						with h5py.File(path, 'r') as f:
							g = f
							if ch == 'class_group':
								subs = [f[x] for x in f if isinstance(f[x], h5py.Group) and 'gambit_signatures_version' not in f[x].attrs]
								g = subs[0] if subs else f
							s = gambit.sigs.hdf5.HDF5Signatures(g)
					got = ('ok', f'loaded {len(s)} signatures')
					s.close()
				except Exception as e:
					got = ('err', errname(e))
			else:
				from gambit.sigs.base import SignaturesFileError
				run = click.testing.CliRunner()
				good = os.path.join(d, 'good.gs')
				fx_genuine(good)
				db = os.path.join(d, 'db')
				os.makedirs(db)
				with open(os.path.join(db, 'genomes.gdb'), 'w'):
					pass
				shutil.copy(path, os.path.join(db, 'sigs.gs'))
				fa = os.path.join(d, 'genome.fasta')
				with open(fa, 'w') as f:
					f.write('>s\nATACGTACGTTTATCCGGA\n')
				args = {'info': ['signatures', 'info', path], 'info_j': ['signatures', 'info', '-j', path],
				        'info_i': ['signatures', 'info', '--ids', path], 'info_jp': ['signatures', 'info', '--json', '--pretty', path],
				        'info_db': ['-d', db, 'signatures', 'info', '-d'],
				        'create_db': ['--db', db, 'signatures', 'create', '--db-params', '-o', os.path.join(d, 'o.gs'), '--no-progress', fa],
				        'tree': ['tree', '-s', path],
				        'dist_qs': ['dist', '--qs', path, '--rs', good, '-o', os.path.join(d, 'o.csv')],
				        'dist_rs': ['dist', '--qs', good, '--rs', path, '-o', os.path.join(d, 'o.csv')]}[ch]
				r = run.invoke(gambit.cli.cli, args)
				if r.exit_code == 0:
					got = ('ok', r.output[:200])
				else:
					got = ('err', errname(r.exception) if isinstance(r.exception, Exception) else repr(r.exception))
		finally:
			shutil.rmtree(d, ignore_errors=True)
		if got != ('err', 'SignaturesFileError'):
			ctx.violation('foreign2', c, f'a file that is not a signature file ({c["content"]}) offered through {ch} is answered with '
			              f'{got[1]} instead of SignaturesFileError', impl=got, spec=['err', 'SignaturesFileError'],
			              model='not modelled (reader entry point outside Model/Store.v)')


# ---- sequences of calls over shared objects: state and aliasing (property predicate only) ---------------------------

SEQ_BASES = ('array', 'list', 'array_view', 'array_offset', 'list_from_array', 'array_from_list', 'array_copy', 'list_mutated', 'array_fancy',
             'custom_plain')
SEQ_WRAPS = ('none', 'annot', 'annot_annot', 'custom_ref')
SEQ_WRITERS = ('dump', 'dump_fmt_kw', 'dump_kwargs', 'base', 'hdf5', 'create_root')
SEQ_READERS = ('load', 'base', 'hdf5', 'class', 'load_kwargs')
SEQ_FOREIGN = ('empty', 'text', 'fasta', 'magic_garbage', 'json', 'hdf_empty', 'hdf_nomark_full', 'hdf_nested_sigs', 'hdf_float', 'truncated')
SEQ_FAILS = ('getitem_raises', 'bad_comp', 'ids_len')


def fp(x, depth=0, seen=frozenset()):
	"""structural fingerprint of an object the caller handed to the implementation: types, public and existing private
	attributes, array dtype / shape / strides / writeable flag / content (h5py objects: their name only)"""
	import hashlib
	import h5py
	import numpy as np
	if x is None or isinstance(x, (bool, int, float, str, bytes)):
		return [type(x).__name__, repr(x)]
	if isinstance(x, np.generic):
		return ['np.' + x.dtype.str, repr(x.item())]
	if isinstance(x, np.dtype):
		return ['dtype', x.str]
	if isinstance(x, type):
		return ['type', x.__name__]
	if isinstance(x, np.ndarray):
		body = repr(x.tolist()) if x.dtype.kind in 'OUS' else hashlib.sha1(np.ascontiguousarray(x).tobytes()).hexdigest()
		return ['ndarray', x.dtype.str, list(x.shape), list(x.strides), bool(x.flags.writeable), body]
	if isinstance(x, range):
		return ['range', repr(x)]
	if isinstance(x, (h5py.Dataset, h5py.Group, h5py.File, h5py.AttributeManager)):
		return [type(x).__name__, bool(x) and getattr(x, 'name', None)]
	if id(x) in seen or depth > 8:
		return ['...']
	seen = seen | {id(x)}
	if isinstance(x, (list, tuple)):
		return [type(x).__name__, [fp(y, depth + 1, seen) for y in x]]
	if isinstance(x, dict):
		return ['dict', sorted([repr(k), fp(v, depth + 1, seen)] for k, v in x.items())]
	d = getattr(x, '__dict__', None)
	if d is not None:
		return ['obj:' + type(x).__name__, {str(k): fp(v, depth + 1, seen) for k, v in d.items()}]
	return [type(x).__name__, repr(x)]


def fp_diff(a, b, where='object'):
	"""first difference between two fingerprints (None = the same); private attributes that only appear afterwards
	(a memo the implementation keeps on the object) are not a difference"""
	if isinstance(a, list) and isinstance(b, list) and len(a) == 2 and len(b) == 2 and isinstance(a[1], dict) and isinstance(b[1], dict):
		if a[0] != b[0]:
			return f'{where}: type {a[0]} became {b[0]}'
		for k in a[1]:
			if k not in b[1]:
				return f'{where}.{k} was deleted'
			d = fp_diff(a[1][k], b[1][k], f'{where}.{k}')
			if d:
				return d
		for k in b[1]:
			if k not in a[1] and not k.startswith('_'):
				return f'{where}.{k} appeared'
		return None
	if isinstance(a, list) and isinstance(b, list) and len(a) == len(b) == 2 and a[0] == b[0] and a[0] in ('list', 'tuple') \
			and len(a[1]) == len(b[1]):
		for i, (x, y) in enumerate(zip(a[1], b[1])):
			d = fp_diff(x, y, f'{where}[{i}]')
			if d:
				return d
		return None
	if a != b:
		return f'{where}: {str(a)[:160]} became {str(b)[:160]}'
	return None


def seq_inner(obj):
	"""the in-memory container at the bottom of a stack of wrappers (None for user subclasses)"""
	from gambit.sigs import SignatureArray, SignatureList, AnnotatedSignatures
	while isinstance(obj, AnnotatedSignatures):
		obj = obj.signatures
	return obj if isinstance(obj, (SignatureArray, SignatureList)) else None


def seq_flaky(obj, how, at):
	"""a collection that hands out the signatures, ids and metadata OBJECTS of `obj` but fails part-way through being written"""
	import numpy as np
	from gambit.sigs.base import AbstractSignatureArray, ReferenceSignatures, SignaturesMeta
	isref = isinstance(obj, ReferenceSignatures)
	n = len(obj)

	class Flaky(ReferenceSignatures if (isref or how == 'ids_len') else AbstractSignatureArray):
		def __init__(self):
			self.kmerspec, self.dtype = obj.kmerspec, obj.dtype
			if isref:
				self.ids, self.meta = obj.ids, obj.meta
			if how == 'ids_len':
				self.ids = list(obj.ids if isref else range(n)) + [0]
				self.meta = obj.meta if isref else SignaturesMeta()

		def __len__(self):
			return n

		def sizes(self):
			return np.array([len(obj[i]) for i in range(n)], dtype=int)

		def __getitem__(self, i):
			if how == 'getitem_raises' and isinstance(i, (int, np.integer)) and i % n == at % n:
				raise RuntimeError('the source of signature %d failed' % i)
			return obj[i]
	return Flaky()


def h5_class(path):
	"""'marked' / 'hdf' (readable HDF5 whose root group is unmarked) / 'raw', decided with h5py alone"""
	import h5py
	try:
		with h5py.File(path, 'r') as f:
			return 'marked' if 'gambit_signatures_version' in f.attrs else 'hdf'
	except Exception:
		return 'raw'


def seq_observe(s, desc):
	n = len(desc['sigs'])
	return observe(s, dict(desc, idx=[[0, 0, n - 1], [n - 1]], slices=[[0, n], [n // 2, n]]), None, full=False)


def seq_run(c, count):
	"""runs the script of case c; returns (differences, number of steps carried out).  Objects live for the whole script:
	collections (objs), KmerSpec objects shared between collections with equal parameters, index objects (idxo), path slots,
	open readers and every result an indexing step returned (held)."""
	import copy
	import gc
	import shutil
	import threading
	import traceback
	import numpy as np
	import h5py
	import click.testing
	import gambit.cli
	import gambit.sigs
	import gambit.sigs.base
	import gambit.sigs.hdf5
	from gambit.sigs import SignatureArray, SignatureList
	bad = []
	done = 0
	steps = c['steps']
	d = tmp('seq')
	os.makedirs(d)
	npaths = 1 + max([st.get('p', 0) for st in steps] + [0])
	paths = [os.path.join(d, f'slot{i}.gs') for i in range(npaths)]
	files = [None] * npaths       # None | ('coll', description) | ('foreign', name) | ('unjudged', why)
	leaky = [False] * npaths      # a refused load left an h5py handle to the garbage collector (see repo_fixes/C12-refused-file-left-open.diff)
	readers = {}                  # slot -> dict(s=open collection, desc=description of the file when it was opened, p=path slot)
	held = []                     # (description, result, expected) of earlier indexing steps; must stay right until the end
	keep = []
	descs = [copy.deepcopy(x) for x in c['colls']]
	kss = {}
	objs = []
	idxo = [mk_index(spec, 1)[0] for spec in c.get('idxs', [])]
	label = ''

	def note(msg):
		bad.append(f'{label}: {msg}')

	def close_reader(r):
		rd = readers.pop(r, None)
		if rd is not None:
			try:
				rd['s'].close()
			except Exception as e:
				note(f'closing the reader raised {type(e).__name__}: {e}')

	def before_write(p, by_impl):
		for r in [r for r, rd in readers.items() if rd['p'] == p]:
			close_reader(r)
		if leaky[p] and not by_impl:
			gc.collect()
			leaky[p] = False

	def impl_write(p, fn):
		"""fn() writes path slot p through the implementation; returns the exception or None"""
		before_write(p, True)
		try:
			fn()
			return None
		except Exception as e:
			if not (isinstance(e, OSError) and leaky[p] and 'already open' in str(e)):
				return e
		# known: the file refused earlier is still held open by the refusing reader's frame until the garbage collector runs
		count('seq:write-after-refused-load-of-same-path OSError until gc (known, repo_fixes/C12-refused-file-left-open.diff; retried)')
		gc.collect()
		leaky[p] = False
		try:
			fn()
			return None
		except Exception as e:
			return e

	def snapshot(obj):
		return api_snapshot(obj), fp(obj)

	def unchanged(what, obj, snap):
		try:
			now = snapshot(obj)
		except Exception as e:
			note(f'{what} was changed by the call: looking at it now raises {type(e).__name__}: {e}')
			return
		if now[0] != snap[0]:
			note(f'{what} was changed by the call: content {str(now[0])[:300]} was {str(snap[0])[:300]}')
		else:
			dd = fp_diff(snap[1], now[1], what)
			if dd:
				note(f'{what} was changed by the call: {dd}')

	def judge_file(p, transient_reader='load'):
		"""the property on path slot p by a fresh load (closed again)"""
		st = files[p]
		if st is None or st[0] == 'unjudged':
			return
		try:
			s = api_open(dict(reader=transient_reader), paths[p])
		except Exception as e:
			if st[0] == 'coll':
				note(f'loading {os.path.basename(paths[p])} (holds collection {st[2]}) raised {type(e).__name__}: {e}')
			elif errname(e) != 'SignaturesFileError':
				note(f'{os.path.basename(paths[p])} holds {st[1]} (not a signature file) and is answered with {type(e).__name__}: {e}')
			if h5_class(paths[p]) != 'raw':
				leaky[p] = True
			return
		try:
			if st[0] == 'coll':
				for b in seq_observe(s, st[1]):
					note(f'{os.path.basename(paths[p])} (holds collection {st[2]}): {b}')
			else:
				note(f'{os.path.basename(paths[p])} holds {st[1]} (not a signature file) and was loaded')
		finally:
			s.close()

	def write_kw(st):
		kw = {}
		if st.get('comp') is not None:
			kw['compression'] = st['comp']
		if st.get('copts') is not None:
			kw['compression_opts'] = st['copts']
		return kw

	def do_write(w, path, obj, kw, desc):
		if w == 'dump_fmt_kw':
			gambit.sigs.dump_signatures(path, obj, format='hdf5', **kw)
		elif w == 'dump_kwargs':
			gambit.sigs.dump_signatures(path=path, signatures=obj, **kw)
		elif w == 'base':
			gambit.sigs.base.dump_signatures(path, obj, **kw)
		elif w == 'hdf5':
			gambit.sigs.hdf5.dump_signatures_hdf5(path, obj, **kw)
		elif w == 'create_root':
			with h5py.File(path, 'w') as f:
				got = gambit.sigs.hdf5.HDF5Signatures.create(f, obj, **kw)
				if desc is not None:
					for b in seq_observe(got, desc):
						note('object returned by HDF5Signatures.create: ' + b)
		else:
			gambit.sigs.dump_signatures(path, obj, **kw)

	def cli(args):
		"""(exit code, output, class name and repr of the exception) of one in-process command.  A command that failed is kept alive
		by the traceback in its Result (frames, and with them the file the command had opened; a real command line is a process
		that ends): the Result is dropped and collected here, which is not a statement about the implementation"""
		r = click.testing.CliRunner().invoke(gambit.cli.cli, args)
		out = (r.exit_code, r.output, errname(r.exception) if isinstance(r.exception, Exception) else None, repr(r.exception))
		if r.exit_code != 0:
			del r
			gc.collect(1)      # the frames of the command that just failed are young objects
		return out

	try:
		for desc in descs:
			kk = (desc['k'], desc['prefix']) if c.get('share_ks', True) else len(objs)
			if kk not in kss:
				kss[kk] = api_kmerspec(desc)
			objs.append(api_build(desc, keep, ks=kss[kk]))
			src = desc.get('meta_from')
			if src is not None and src < len(objs) - 1 and hasattr(objs[src], 'meta') and hasattr(objs[-1], 'meta'):
				# one SignaturesMeta object serves two collections
				objs[-1].meta = objs[src].meta
				desc['meta'] = copy.deepcopy(descs[src].get('meta'))
				desc.pop('meta_noextra', None)
		ks_fp = {kk: fp(v) for kk, v in kss.items()}
		for num, st in enumerate(steps):
			op = st['op']
			label = f'step {num + 1} ({ {k: v for k, v in st.items() if k not in ("vals", "genomes", "v")} })'
			p = st.get('p', 0)
			r = st.get('r', 0)
			i = st.get('c', 0) % len(objs)
			if op == 'dump':
				obj, desc = objs[i], descs[i]
				snap = snapshot(obj)
				kw = write_kw(st)
				e = impl_write(p, lambda: do_write(st.get('writer', 'dump'), paths[p], obj, kw, desc))
				unchanged(f'collection {i} handed to the writer', obj, snap)
				if e is not None:
					note(f'writing collection {i} raised {type(e).__name__}: {e}')
					files[p] = ('unjudged', 'write failed')
				else:
					files[p] = ('coll', copy.deepcopy(desc), i)
					if st.get('twice'):
						# the same call again (other destination): the two files must have the same content
						p2 = tmp('again') + '.gs'
						try:
							do_write(st.get('writer', 'dump'), p2, obj, kw, None)
							if raw_store(p2) != raw_store(paths[p]):
								note(f'writing collection {i} a second time gave a file with other content')
						except Exception as e2:
							note(f'writing collection {i} a second time raised {type(e2).__name__}: {e2}')
						unchanged(f'collection {i} handed to the writer (second time)', obj, snap)
						_rm(p2)
					if st.get('check'):
						judge_file(p)
			elif op == 'dump_fail':
				obj = objs[i]
				how = st.get('how', 'getitem_raises')
				snap = snapshot(obj)
				kw = dict(compression='no-such-filter') if how == 'bad_comp' else write_kw(st)
				src = obj if how == 'bad_comp' else seq_flaky(obj, how, st.get('at', 0))
				e = impl_write(p, lambda: do_write(st.get('writer', 'dump'), paths[p], src, kw, None))
				unchanged(f'collection {i} handed to the writer (call that failed)', obj, snap)
				if e is None:
					# nothing was raised although the source failed: the file is judged as holding the collection
					files[p] = ('coll', copy.deepcopy(descs[i]), i)
				else:
					cl = h5_class(paths[p])
					files[p] = ('unjudged', 'marked after a failed write (C19)') if cl == 'marked' else ('foreign', f'what the failed write ({how}) left behind')
				del src
			elif op == 'foreign':
				name = st['content']
				if name == 'truncated':
					if files[p] is None or files[p][0] != 'coll':
						name = 'magic_garbage'
				before_write(p, False)
				if name == 'truncated':
					import random
					with open(paths[p], 'rb') as f:
						raw = f.read()
					with open(paths[p], 'wb') as f:
						f.write(raw[:random.Random(st['seed']).randint(8, len(raw) * 3 // 4)])
				elif name.startswith('hdf_'):
					t = tmp('fxs')
					fx_content(name, st['seed'], t)
					os.replace(t, paths[p])
				else:
					fx_content(name, st['seed'], paths[p])
				files[p] = ('unjudged', 'marked but defective') if h5_class(paths[p]) == 'marked' else ('foreign', name)
				if st.get('check'):
					judge_file(p)
			elif op == 'load':
				if files[p] is None:
					count('seq:step-not-applicable')
					continue
				close_reader(r)
				fst = files[p]
				rdr = st.get('reader', 'load')
				if rdr == 'class' and fst[0] != 'coll' and h5_class(paths[p]) == 'raw':
					rdr = 'load'      # HDF5Signatures(group) takes an open HDF5 group: content that is not HDF5 cannot be offered to it
				for rep in range(2 if st.get('twice') else 1):
					try:
						s = api_open(dict(reader=rdr, rkw=st.get('rkw')), paths[p])
					except Exception as e:
						if fst[0] == 'coll':
							note(f'loading the file that holds collection {fst[2]} raised {type(e).__name__}: {e}')
						elif fst[0] == 'foreign' and errname(e) != 'SignaturesFileError':
							note(f'a file that is not a signature file ({fst[1]}) is answered with {type(e).__name__}: {e}')
						if h5_class(paths[p]) != 'raw':
							leaky[p] = True
						continue
					if fst[0] == 'foreign':
						note(f'a file that is not a signature file ({fst[1]}) was loaded')
						s.close()
					elif fst[0] == 'unjudged':
						s.close()
					else:
						for b in seq_observe(s, fst[1]):
							note(b)
						if rep == 0 and st.get('twice'):
							s.close()
						else:
							readers[r] = dict(s=s, desc=copy.deepcopy(fst[1]), p=p)
			elif op in ('observe', 'thread'):
				if r not in readers:
					count('seq:step-not-applicable')
					continue
				rd = readers[r]
				if op == 'observe':
					for b in seq_observe(rd['s'], rd['desc']) + observe_more(rd['s'], dict(rd['desc'], xidx=[]), lambda a, b: a == b):
						note(b)
				else:
					out = []

					def work():
						try:
							out.extend(seq_observe(rd['s'], rd['desc']))
						except Exception as e:
							out.append(f'{type(e).__name__}: {e}')
					t = threading.Thread(target=work)
					t.start()
					t.join()
					for b in out:
						note('in a second thread: ' + b)
			elif op == 'index':
				j = st.get('j', 0) % max(1, len(idxo))
				if r not in readers or not idxo:
					count('seq:step-not-applicable')
					continue
				rd = readers[r]
				spec = c['idxs'][j]
				before = fp(idxo[j])
				dt = np.dtype(rd['desc']['dtype'])
				res = []
				for rep in range(2):
					b2, k2 = [], []
					apply_spec(rd['s'], rd['desc']['sigs'], spec, dt, lambda a, b: a == b, rd['s'].kmerspec, b2, idx=idxo[j], keep=k2)
					res.append(b2)
					for b in b2:
						note(('' if rep == 0 else 'same call again: ') + b)
					dd = fp_diff(before, fp(idxo[j]), f'index object {j}')
					if dd:
						note(f'the index object handed to the collection was changed by indexing: {dd}')
						before = fp(idxo[j])
					held.extend(k2)
				if bool(res[0]) != bool(res[1]):
					note('the same indexing call gave different results the second time')
			elif op == 'scribble':
				# the caller overwrites a result it obtained earlier; what the file holds cannot change by that
				if not held:
					count('seq:step-not-applicable')
					continue
				desc_h, got, exp = held.pop(st.get('h', 0) % len(held))
				arr = got if isinstance(got, np.ndarray) else getattr(got, 'values', None)
				if isinstance(arr, np.ndarray) and arr.flags.writeable and len(arr):
					arr[...] = arr + 1
				else:
					count('seq:step-not-applicable')
					continue
			elif op == 'scribble_reader':
				# the caller changes the ids array / metadata of a loaded collection and drops it; later loads are unaffected
				if r not in readers:
					count('seq:step-not-applicable')
					continue
				s = readers[r]['s']
				try:
					if isinstance(s.meta.extra, dict):
						s.meta.extra['scribbled'] = [1, 2]
					s.meta.name = 'scribbled'
					s.meta.id = None
					if isinstance(s.ids, np.ndarray) and s.ids.flags.writeable and len(s.ids):
						s.ids[0] = 'scribbled' if s.ids.dtype.kind in 'OU' else 99
				finally:
					close_reader(r)
			elif op == 'mutate':
				# a change the caller is entitled to make between two calls; the description follows it
				obj, desc = objs[i], descs[i]
				how = st['how']
				n = len(desc['sigs'])
				if how in ('meta_field', 'extra_key', 'ids_set') and desc.get('wrap', 'none') == 'none':
					count('seq:step-not-applicable')
					continue
				sharers = [dd for oo, dd in zip(objs, descs) if getattr(oo, 'meta', None) is getattr(obj, 'meta', 0)]
				if how == 'meta_field':
					for dd in sharers:
						dd['meta'] = eff_meta(dd)
						dd['meta'][st['f']] = st['v']
					setattr(obj.meta, st['f'], st['v'])
				elif how == 'extra_key':
					inplace = isinstance(obj.meta.extra, dict)
					for dd in sharers:
						dd['meta'] = eff_meta(dd)
						dd['meta']['extra'] = dict((dd['meta']['extra'] or {}) if inplace else {}, **{st['key']: copy.deepcopy(st['v'])})
					if inplace:
						obj.meta.extra[st['key']] = copy.deepcopy(st['v'])
					else:
						obj.meta.extra = {st['key']: copy.deepcopy(st['v'])}
				elif how == 'ids_set':
					if desc.get('ids') is None:
						count('seq:step-not-applicable')
						continue
					jj = st['j'] % n
					v = st['v'][0] if desc['ids']['kind'] == 'int' else st['v'][1]
					desc['ids']['vals'][jj] = v
					if isinstance(obj.ids, list) or (isinstance(obj.ids, np.ndarray) and obj.ids.flags.writeable and obj.ids.dtype.kind in 'iuO'):
						obj.ids[jj] = v
					else:
						new = list(obj.ids)
						new[jj] = v
						obj.ids = np.array(new, dtype=desc['ids']['dtype']) if desc['ids'].get('dtype') else new
				elif how in ('sig_flip', 'sig_replace'):
					inner = seq_inner(obj)
					jj = st['j'] % n
					dt = np.dtype(desc['dtype'])
					top = min(4 ** desc['k'] - 1, int(np.iinfo(dt).max))
					new = sorted(top - v for v in desc['sigs'][jj]) if how == 'sig_flip' else sorted({v % (top + 1) for v in st['vals']})
					if inner is None or (isinstance(inner, SignatureArray) and (len(new) != len(desc['sigs'][jj]) or not inner.values.flags.writeable)):
						count('seq:step-not-applicable')
						continue
					if isinstance(inner, SignatureList):
						inner[jj] = np.array(new, dtype=dt)
					else:
						inner[jj][...] = np.array(new, dtype=dt)
					desc['sigs'][jj] = new
				else:
					raise ValueError(how)
			elif op == 'redump':
				if r not in readers or readers[r]['p'] == p:
					count('seq:step-not-applicable')
					continue
				rd = readers[r]
				snap = snapshot(rd['s'])
				kw = write_kw(st)
				e = impl_write(p, lambda: do_write(st.get('writer', 'dump'), paths[p], rd['s'], kw, rd['desc']))
				unchanged(f'open reader {r} handed to the writer', rd['s'], snap)
				if e is not None:
					note(f'writing the loaded collection raised {type(e).__name__}: {e}')
					files[p] = ('unjudged', 'write failed')
				else:
					files[p] = ('coll', copy.deepcopy(rd['desc']), f'read from {os.path.basename(paths[rd["p"]])}')
			elif op == 'cli_info':
				fst = files[p]
				if fst is None or fst[0] == 'unjudged':
					count('seq:step-not-applicable')
					continue
				mode = st.get('mode', 'i')
				code, out, exc, excr = cli(['signatures', 'info'] + {'i': ['-i'], 'j': ['-j'], 'jp': ['--json', '--pretty'], 'plain': []}[mode] + [paths[p]])
				if fst[0] == 'foreign':
					if code == 0 or exc != 'SignaturesFileError':
						note(f'`signatures info` on a file that is not a signature file ({fst[1]}): exit {code}, {excr}')
					if h5_class(paths[p]) != 'raw':
						leaky[p] = True
				else:
					desc = fst[1]
					_, _, ivals = eff_ids(desc)
					m = eff_meta(desc)
					if code != 0 and mode in ('j', 'jp') and m['extra'] is None and exc == 'AttributeError':
						# known: the JSON report cannot be produced for a file whose `extra` is None (a value the file format stores and
						# load_signatures returns); a single-call defect of the report, not of the round trip
						count('seq:info --json on a file whose extra is None: AttributeError (known, repo_fixes/C12-info-json-extra-none.diff; not judged)')
					elif code != 0:
						note(f'`signatures info` on the file that holds collection {fst[2]}: exit {code}, {excr}')
					elif mode == 'i':
						if out != ''.join(f'{x}\n' for x in ivals):
							note(f'`signatures info -i` prints {out!r}, the file holds ids {ivals!r}')
					elif mode in ('j', 'jp') and m['extra'] is None:
						pass
					elif mode in ('j', 'jp'):
						try:
							info = json.loads(out)
							ok = info['count'] == len(desc['sigs']) and info['kmerspec'] == dict(k=desc['k'], prefix=desc['prefix']) and \
								all(info['metadata'].get(f) == m[f] for f in m)
						except Exception:
							ok = False
						if not ok:
							note(f'`signatures info -j` reports {out[:300]!r}, the file holds collection {fst[2]}')
					else:
						lines = [ln.strip() for ln in out.split('\n')]
						want = {'Genome Count:': str(len(desc['sigs'])), 'k:': str(desc['k']), 'Prefix:': desc['prefix'], 'Data type:': np.dtype(desc['dtype']).name}
						got = {lb: next((ln[len(lb):].strip() for ln in lines if ln.startswith(lb)), None) for lb in want}
						if got != want:
							note(f'`signatures info` reports {got}, the file holds {want}')
			elif op == 'cli_create':
				gd = os.path.join(d, f'genomes{num}')
				os.makedirs(gd)
				fps = []
				for gi, contigs in enumerate(st['genomes']):
					fn = os.path.join(gd, f'g{gi}.fasta')
					with open(fn, 'w') as f:
						for cj, sq in enumerate(contigs):
							f.write(f'>c{cj}\n{sq}\n')
					fps.append(fn)
				res = []
				e = impl_write(p, lambda: res.append(cli(['signatures', 'create', '-o', paths[p], '-k', str(st['k']), '-p', st['prefix'], '--no-progress'] + fps)))
				if e is not None or res[-1][0] != 0:
					note(f'`signatures create` failed: {e!r} {res and res[-1][:1] + res[-1][2:]}')
					files[p] = ('unjudged', 'write failed')
				else:
					files[p] = ('coll', dict(k=st['k'], prefix=st['prefix'], dtype=index_dtype(st['k']), container='annot_list', wrap='annot',
					                         sigs=[naive_signature(st['k'], st['prefix'], g) for g in st['genomes']],
					                         ids=dict(kind='str', vals=[f'g{gi}' for gi in range(len(fps))]), meta=None), 'written by `signatures create`')
					if st.get('check'):
						judge_file(p)
			else:
				raise ValueError(op)
			done += 1
		# ---- at the end of the script: nothing seen earlier has drifted
		label = 'at the end of the script'
		for kk, v in kss.items():
			dd = fp_diff(ks_fp[kk], fp(v), f'KmerSpec{kk}')
			if dd:
				note(f'a KmerSpec shared by the collections was changed: {dd}')
		for desc_h, got, exp in held:
			try:
				now = [int(v) for v in got] if isinstance(got, np.ndarray) else [[int(v) for v in x] for x in got]
			except Exception as e:
				now = f'{type(e).__name__}: {e}'
			if now != exp:
				note(f'a result returned earlier ({desc_h}) has changed since: {str(now)[:200]}, was {str(exp)[:200]}')
		for r in sorted(readers):
			label = f'at the end of the script, reader {r} (open since its load step)'
			for b in seq_observe(readers[r]['s'], readers[r]['desc']):
				note(b)
		for r in sorted(readers):
			close_reader(r)
		for i, (obj, desc) in enumerate(zip(objs, descs)):
			label = f'at the end of the script, collection {i}'
			want = (desc['sigs'], int(desc['k']), desc['prefix'], str(np.dtype(desc['dtype'])))
			now = api_snapshot(obj)
			if (now[0], now[4][0], now[4][1], now[3]) != want:
				note(f'the collection no longer is what its owner made it: {str(now)[:300]}, expected {str(want)[:300]}')
		for p in range(npaths):
			label = f'at the end of the script, fresh load of path slot {p}'
			judge_file(p, c.get('final_reader', 'load'))
		# every collection of the pool once more to a fresh path, collection 0 also through a plain AbstractSignatureArray (the
		# writer's general path), and one collection made now: whatever an earlier step left behind -- in the objects, the classes
		# or the modules -- shows in THIS script, so that its replay (a new process) shows it too
		fresh = dict(k=4, prefix='AT', dtype='u1', sigs=[[1], [], [2, 3]], container='array', base='array', wrap='none', ids=None, meta=None)
		for i, (obj, desc) in enumerate(zip(objs + [api_build(fresh, keep)], descs + [fresh])):
			for how in ('as it is', 'through a plain AbstractSignatureArray')[:2 if i == 0 else 1]:
				label = f'at the end of the script, collection {i} written once more ({how})' if i < len(objs) else \
					'at the end of the script, a new collection without ids and metadata written and loaded'
				pth = tmp('epi') + '.gs'
				try:
					gambit.sigs.dump_signatures(pth, obj if how == 'as it is' else seq_flaky(obj, 'none', 0))
					with gambit.sigs.load_signatures(pth) as s2:
						for b in seq_observe(s2, desc):
							note(b)
				except Exception as e:
					note(f'{type(e).__name__}: {e}')
				_rm(pth)
	except Exception as e:
		tb = traceback.extract_tb(e.__traceback__)[-1]
		bad.append(f'{label}: harness could not continue: {type(e).__name__}: {e} ({os.path.basename(tb.filename)}:{tb.lineno})')
	finally:
		for r in list(readers):
			try:
				readers[r]['s'].close()
			except Exception:
				pass
		for src, pth in keep:
			try:
				src.close()
			except Exception:
				pass
			if pth:
				_rm(pth)
		readers.clear()
		held.clear()
		if any(leaky):
			gc.collect()
		shutil.rmtree(d, ignore_errors=True)
	return bad, done


def k_seq(ctx, cases):
	for c in cases:
		bad, done = seq_run(c, ctx.count)
		ctx.case(c, nontrivial=done >= 2)
		if bad:
			ctx.violation('seq', c, 'sequence of calls over shared objects: ' + '; '.join(bad[:3]), impl=bad[:10],
			              spec='every step as if made on fresh objects, caller objects unchanged, same call same result',
			              model='not modelled (Model/Store.v has no state between calls; sequences are judged by the property predicate)')


KINDS = {'rt': k_rt, 'foreign': k_foreign, 'malformed': k_malformed, 'cli': k_cli, 'api': k_api, 'foreign2': k_foreign2,
         'sizes': k_sizes, 'seq': k_seq}

# ---- generators ----------------------------------------------------------------------------------------------

CONTAINERS = ('array', 'list', 'annot_array', 'annot_list')
COMPRESSIONS = (None, 'gzip', 'lzf')
WORDS = ['', 'a', 'x y', 'é', '漢字', '😀', 'Ωmega', 'tab\there', 'line\nbreak', '"q"', "it's", 'ä' * 40, 'null', '0', ' ', '​', '\U0010ffff', '\x01']


def rstr(rng):
	r = rng.random()
	if r < 0.5:
		return rng.choice(WORDS)
	return ''.join(chr(rng.choice([rng.randint(1, 0x7f), rng.randint(0x80, 0x7ff), rng.randint(0x800, 0xd7ff),
	                               rng.randint(0xe000, 0xffff), rng.randint(0x10000, 0x10ffff)])) for _ in range(rng.randint(1, 12)))


def rjson(rng, depth=0):
	r = rng.random()
	if depth >= 3 or r < 0.35:
		return rng.choice([None, True, False, 0, -1, 2 ** 53, 2 ** 70, 1.5, -0.25, 1e300, rstr(rng), rstr(rng)])
	if r < 0.65:
		return [rjson(rng, depth + 1) for _ in range(rng.randint(0, 3))]
	return {rstr(rng): rjson(rng, depth + 1) for _ in range(rng.randint(0, 3))}


def rmeta(rng):
	if rng.random() < 0.15:
		return None
	m = {f: (None if rng.random() < 0.4 else rstr(rng)) for f in META_FIELDS}
	r = rng.random()
	m['extra'] = None if r < 0.15 else ({} if r < 0.3 else {rstr(rng): rjson(rng) for _ in range(rng.randint(1, 4))})
	return m


def rids(rng, n):
	r = rng.random()
	if r < 0.15:
		return None
	if r < 0.5:
		return dict(kind='str', vals=[rstr(rng) for _ in range(n)], **{'as': rng.choice(['list', 'U', 'O'])})
	dt = rng.choice([None, 'i8', 'u8', 'i4', 'u2', 'i1', 'u1'])
	lo, hi = {None: (-2 ** 63, 2 ** 63 - 1), 'i8': (-2 ** 63, 2 ** 63 - 1), 'u8': (0, 2 ** 64 - 1), 'i4': (-2 ** 31, 2 ** 31 - 1),
	          'u2': (0, 65535), 'i1': (-128, 127), 'u1': (0, 255)}[dt]
	return dict(kind='int', dtype=dt, vals=[rng.choice([lo, hi, 0, rng.randint(lo, hi)]) for _ in range(n)])


def index_dtype(k):
	return 'u1' if k <= 4 else 'u2' if k <= 8 else 'u4' if k <= 16 else 'u8'


def rsig(rng, k, maxlen, dtype=None):
	top = 4 ** k - 1
	if dtype and dtype[0] == 'i':
		top = min(top, 2 ** (8 * int(dtype[1]) - 1) - 1)
	if dtype and dtype[0] == 'u':
		top = min(top, 2 ** (8 * int(dtype[1])) - 1)
	ln = rng.choice([0, 0, 1, 2, rng.randint(0, maxlen)])
	vals = {rng.choice([0, top, top // 2, rng.randint(0, top)]) for _ in range(ln)}
	return sorted(vals)


def generate(ctx):
	rng = ctx.rng
	ctx.rule(RULE)
	# ---- exhaustive small scope: every collection of 1..3 signatures over {[], [3], [3,200]}, 4 containers, 3 filters
	shapes = ([], [3], [3, 200])
	for n in (1, 2, 3):
		for sigs in itertools.product(shapes, repeat=n):
			for cont in CONTAINERS:
				for comp in COMPRESSIONS:
					ctx.count('stream:exhaustive-small')
					yield 'rt', dict(k=4, prefix='AT', dtype='u1', sigs=[list(s) for s in sigs], container=cont, compression=comp,
					                 ids=dict(kind='str', vals=[f'g{i}' for i in range(n)], **{'as': 'list'}) if cont == 'annot_list' else None,
					                 meta=None, idx=[[0], [n - 1, 0]], slices=[[0, n]])
	ctx.exhaustive = True
	ctx.extra['exhaustive_scope'] = ('all collections of 1..3 signatures drawn from {[],[3],[3,200]} x 4 container types x '
	                                 '{none,gzip,lzf}, each with every int index, every slice start/stop in -n-1..n+1 / None and '
	                                 'step in {None,1,2,-1}; every k in 1..32 x container x filter with boundary values')
	# ---- every k (all four index widths, values up to 4^k-1 incl. >= 2^63), every container and filter
	for k in range(1, 33):
		top = 4 ** k - 1
		for cont in CONTAINERS:
			for comp in COMPRESSIONS:
				ctx.count('stream:all-k')
				yield 'rt', dict(k=k, prefix=rng.choice(['A', 'AT', 'ATGAC', 'GGTTCCAA', '']) , dtype=index_dtype(k),
				                 sigs=[[0, top], [], [top], sorted({0, top // 2, top // 2 + 1, top})],
				                 container=cont, compression=comp, ids=rids(rng, 4), meta=rmeta(rng), idx=[[3, 1], [2, 2, 0]], slices=[[1, 3], [0, 4]])
	# ---- all-empty collections
	for n in (1, 2, 5):
		for cont in CONTAINERS:
			for comp in COMPRESSIONS:
				ctx.count('stream:all-empty')
				yield 'rt', dict(k=9, prefix='C', dtype='u4', sigs=[[] for _ in range(n)], container=cont, compression=comp,
				                 ids=rids(rng, n), meta=rmeta(rng), idx=[[0]], slices=[[0, n]])
	# ---- structured random: sizes, dtypes other than the default one, ids, metadata
	for _ in range(ctx.pick(500, 6000)):
		k = rng.choice([1, 4, 5, 8, 9, 11, 16, 17, 31, 32, rng.randint(1, 32)])
		dtype = index_dtype(k) if rng.random() < 0.7 else rng.choice(list(DT))
		n = rng.choice([1, 2, 3, rng.randint(1, 12), rng.randint(1, 40)])
		sigs = [rsig(rng, k, rng.choice([3, 10, 60]), dtype) for _ in range(n)]
		idx = [[rng.randrange(-n, n) % n for _ in range(rng.randint(1, 5))] for _ in range(2)]
		a = rng.randrange(n)
		sl = [[a, rng.randint(a + 1, n)], [0, n]]
		ctx.count('stream:random')
		yield 'rt', dict(k=k, prefix=''.join(rng.choice('ACGT') for _ in range(rng.randint(0, 7))), dtype=dtype, sigs=sigs,
		                 container=rng.choice(CONTAINERS), compression=rng.choice(COMPRESSIONS), ids=rids(rng, n), meta=rmeta(rng),
		                 idx=idx, slices=sl)
	# ---- larger payload (chunked compressed dataset with many chunks)
	for cont in ('array', 'annot_list'):
		for comp in COMPRESSIONS:
			n = ctx.pick(40, 100)
			ctx.count('stream:large')
			yield 'rt', dict(k=11, prefix='ATGAC', dtype='u4', sigs=[sorted(rng.sample(range(4 ** 11), rng.randint(0, ctx.pick(400, 1500)))) for _ in range(n)],
			                 container=cont, compression=comp, ids=None, meta=None, idx=[[n - 1, 0]], slices=[[n // 2, n]])
	# ---- malformed writes: strings h5py cannot store (ValueError, never a silently altered file)
	for bad in ('a\x00b', '\x00', '\ud800', 'x\udfffy'):
		for where in ('meta', 'ids'):
			ctx.count('stream:unstorable-strings')
			yield 'rt', dict(k=4, prefix='AT', dtype='u1', sigs=[[1], [2]], container='annot_list', compression=None,
			                 ids=dict(kind='str', vals=[bad, 'b'], **{'as': 'O'}) if where == 'ids' else None,
			                 meta=dict(id=bad, name=None, id_attr=None, version=None, description=None, extra={}) if where == 'meta' else None)
	# ---- foreign files
	yield from gen_foreign(ctx, rng)
	# ---- command line
	for _ in range(ctx.pick(3, 25)):
		k = rng.randint(5, 9)
		prefix = ''.join(rng.choice('ACGT') for _ in range(rng.randint(2, 3)))
		ng = rng.randint(1, 4)
		genomes = [[''.join(rng.choice('ACGTacgtN') for _ in range(rng.randint(0, 400))) for _ in range(rng.randint(1, 3))] for _ in range(ng)]
		ids = None if rng.random() < 0.4 else [f'{rng.choice(["id", "é", "漢", "G"])}{i}' for i in range(ng)]
		meta = None if rng.random() < 0.4 else dict(id=rstr(rng), name='n', version='1.0', id_attr='key', description=rstr(rng),
		                                            extra={'author': rstr(rng), 'nested': {'a': [1, None]}})
		ctx.count('stream:cli')
		yield 'cli', dict(k=k, prefix=prefix, genomes=genomes, ids=ids, meta=meta)
	# ---- input forms, alternative entry points, reuse (property predicate only)
	yield from gen_api(ctx, rng)
	yield from gen_foreign2(ctx, rng)
	yield from gen_cli2(ctx, rng)
	# ---- signature size classes around powers of two x order x container kind (property predicate only)
	yield from gen_sizes(ctx, rng)
	# ---- sequences of calls over shared objects: state and aliasing (property predicate only)
	yield from gen_seq(ctx, rng)


def real_file_bytes(rng, comp):
	"""bytes of a genuine signature file (used truncated / corrupted as foreign content)"""
	from gambit.sigs import dump_signatures
	c = dict(k=5, prefix='AT', dtype='u2', sigs=[sorted(rng.sample(range(1024), rng.randint(0, 30))) for _ in range(6)],
	         container='annot_list', compression=comp, ids=None, meta=None)
	path = tmp('real') + '.gs'
	dump_signatures(path, build(c))
	with open(path, 'rb') as f:
		b = f.read()
	_rm(path)
	return b


def gen_foreign(ctx, rng):
	raws = [b'', b'\n', b'hello world\n', b'>seq1\nACGTACGT\n>seq2\nTTTT\n', b'\x1f\x8b\x08\x00' + bytes(20), b'\x89HDF', MAGIC[:7],
	        b'{"gambit_signatures_version": 1}', b'SQLite format 3\x00' + bytes(100), bytes(512) + MAGIC + bytes(100)]
	# the 6-h family: the magic number followed by something that is not an HDF5 superblock
	raws += [MAGIC, MAGIC + b'garbage' * 10, MAGIC + bytes(88), MAGIC + bytes([0xff]) * 200]
	real = real_file_bytes(rng, None)
	for cut in (9, 48, 96, 512, len(real) // 2, len(real) - 1):
		raws.append(real[:cut])
	raws.append(real[:200] + bytes(len(real) - 200))
	for _ in range(ctx.pick(40, 400)):
		ln = rng.choice([1, 7, 8, 9, 50, 300])
		b = bytes(rng.randrange(256) for _ in range(ln))
		raws.append(b if rng.random() < 0.5 else MAGIC + b)
	for b in raws:
		ctx.count('stream:foreign-raw')
		yield 'foreign', dict(form='raw', hex=b.hex())
	ds = dict(values=dict(ints=[1, 2, 3], dtype='u2'), bounds=dict(ints=[0, 1, 3]), ids=dict(strs=['a', 'b']))
	good = dict(gambit_signatures_version=1, kmerspec_k=5, kmerspec_prefix='AT', id=None, name='n', id_attr=None, version=None,
	            description=None, extra='{}')
	nomark = {k: v for k, v in good.items() if k != 'gambit_signatures_version'}
	hdfs = [dict(), dict(attrs=dict(title='something else')), dict(dsets=dict(data=dict(ints=[1, 2, 3]))),
	        dict(attrs=nomark, dsets=ds), dict(attrs=dict(gambit_signatures_versio=1), dsets=ds),
	        dict(attrs=dict(GAMBIT_SIGNATURES_VERSION=1), dsets=ds), dict(attrs=good, dsets=ds, subgroup=True)]
	for h in hdfs:
		ctx.count('stream:foreign-hdf5')
		yield 'foreign', dict(form='hdf', **h)
	# marked files with a defect: outside the property, checks the model's reading order / error classes
	def var(**ch):
		a = dict(good)
		for k, v in ch.items():
			if v == 'DROP':
				a.pop(k)
			else:
				a[k] = v
		return a
	mal = [dict(attrs=good, dsets=ds), dict(attrs=var(gambit_signatures_version=2), dsets=ds),
	       dict(attrs=var(gambit_signatures_version=0), dsets=ds), dict(attrs=var(kmerspec_k='DROP'), dsets=ds),
	       dict(attrs=var(kmerspec_prefix='DROP'), dsets=ds), dict(attrs=var(kmerspec_k=0), dsets=ds),
	       dict(attrs=var(kmerspec_prefix='AXT'), dsets=ds), dict(attrs=var(kmerspec_prefix='at'), dsets=ds),
	       dict(attrs=var(kmerspec_prefix='é'), dsets=ds), dict(attrs=var(extra='DROP', id='DROP'), dsets=ds)]
	for drop in ('values', 'bounds', 'ids'):
		mal.append(dict(attrs=good, dsets={k: v for k, v in ds.items() if k != drop}))
	mal.append(dict(attrs=good, dsets=dict(ds, ids=dict(ints=[5, 6], dtype='u8'))))
	for h in mal:
		ctx.count('stream:malformed')
		yield 'malformed', dict(form='hdf', **h)


# ---- generators of the api / foreign2 / extended cli streams --------------------------------------------------

API_DIMS = dict(
	base=['array', 'list', 'array_inferred', 'list_inferred', 'array_kwargs', 'list_strdtype', 'list_typedtype', 'array_copy', 'array_cast',
	      'array_from_list', 'list_from_array', 'array_view', 'array_fancy', 'array_rev', 'array_offset', 'array_bounds_other',
	      'array_swapped', 'list_strided', 'list_swapped', 'list_wider', 'list_readonly', 'list_mutated', 'custom_plain'],
	wrap=['none', 'annot', 'annot_annot', 'custom_ref', 'reloaded', 'annot_reloaded'],
	kform=['int', 'np.int64', 'np.uint8', 'np.intp'],
	pform=['str', 'bytes', 'lower', 'bytes_lower'],
	idform=['plain', 'pylist', 'tuple', 'scalars', 'strided', 'swapped', 'readonly'],
	writer=['dump', 'dump_fmt_kw', 'dump_fmt_pos', 'dump_kwargs', 'base', 'hdf5', 'create_root', 'create_group', 'create_latest', 'create_beside'],
	comp=[[None, None], ['gzip', None], ['lzf', None], ['gzip', 0], ['gzip', 1], ['gzip', 4], ['gzip', 9], [None, 'explicit']],
	pathform=['str', 'Path', 'fspath', 'unicode', 'space', 'noext', 'h5', 'rel', 'dotdot'],
	reader=['load', 'base', 'hdf5', 'class', 'load_kwargs'],
	rkw=[{}, {'mode': 'r'}, {'mode': 'r+'}, {'driver': 'core', 'backing_store': False}, {'libver': 'latest'}, {'rdcc_nbytes': 0},
	     {'driver': 'sec2'}, {'mode': 'a'}],
	reuse=[None, 'twice', 'overwrite', 'overwrite_sigfile', 'two_open', 'same_file', 'reopen', 'observe_twice'],
)
NPINT = ('i1', 'u1', 'i2', 'u2', 'i4', 'u4', 'i8', 'u8')


def rpos(rng, n, dt):
	"""an in-range position, negative ones only for signed / Python ints"""
	return rng.randrange(n) if dt[0] == 'u' else rng.randrange(-n, n)


def rxspec(rng, n, t, nest=True):
	"""one index description of type t for a sequence of n >= 1 items"""
	if t == 'int':
		dt = rng.choice(NPINT + ('py',))
		return dict(t='int', dt=dt, v=rpos(rng, n, dt))
	if t == 'int_oob':
		dt = rng.choice(('py', 'i2', 'i8', 'u1', 'u8'))
		return dict(t='int', dt=dt, v=rng.choice([n, n + 1] if dt[0] == 'u' else [n, -n - 1, n + 3]))
	if t in ('arr', 'arr_oob'):
		dt = rng.choice(NPINT)
		v = [rpos(rng, n, dt) for _ in range(rng.choice([0, 1, 2, 3, rng.randint(1, 8)]))]
		if t == 'arr_oob':
			v.insert(rng.randint(0, len(v)), n if dt[0] == 'u' else rng.choice([n, -n - 1]))
		spec = dict(t='arr', dt=dt, v=v, how=rng.choice(['plain', 'strided', 'swapped', 'readonly']))
	elif t == 'seq':
		dt = rng.choice(NPINT + ('py', 'py', 'py'))
		spec = dict(t='seq', dt=dt, v=[rpos(rng, n, dt) for _ in range(rng.choice([0, 1, 2, rng.randint(1, 8)]))], **{'as': rng.choice(['list', 'tuple'])})
	elif t == 'range':
		st = rng.choice([1, 1, 2, 3, -1, -2])
		a = rng.randrange(-n, n)
		room = len(range(a, n if st > 0 else -n - 1, st))      # steps that stay inside -n..n-1
		spec = dict(t='range', a=a, b=a + rng.randint(0, room) * st, st=st)
	elif t == 'bool':
		spec = dict(t='bool', v=[rng.randrange(2) for _ in range(n)], **{'as': rng.choice(['arr', 'list', 'tuple', 'strided'])})
	elif t == 'slice':
		dt = rng.choice([None, None, 'i8', 'i4', 'i1', 'u1', 'u8'])
		lo = 0 if dt and dt[0] == 'u' else -n - 2
		big = [] if dt else [10 ** 20, -10 ** 20]
		a, b = (rng.choice([None, rng.randint(lo, n + 2), rng.randint(lo, n + 2)] + big) for _ in range(2))
		st = rng.choice([None, 1, 2, 3, 7] + ([] if dt and dt[0] == 'u' else [-1, -2, -3, -7]) + ([] if dt else [10 ** 20]))
		spec = dict(t='slice', a=a, b=b, st=st, dt=dt)
	else:
		raise ValueError(t)
	if nest and t in ('arr', 'seq', 'range', 'bool', 'slice') and rng.random() < 0.6:
		# index the result once more (length of the result by plain Python semantics)
		if t in ('arr', 'seq'):
			m = len(spec['v'])
		elif t == 'range':
			m = len(range(spec['a'], spec['b'], spec['st']))
		elif t == 'bool':
			m = sum(spec['v'])
		else:
			m = len(range(n)[slice(spec['a'], spec['b'], spec['st'])])
		if m >= 1:
			spec['then'] = rxspec(rng, m, rng.choice(['int', 'arr', 'seq', 'slice', 'bool']), nest=False)
	return spec


XTYPES = ('int', 'int', 'int_oob', 'arr', 'arr', 'arr_oob', 'seq', 'seq', 'range', 'bool', 'slice', 'slice', 'slice')


def rapi_case(rng, fixed=()):
	"""a random round-trip case of the api kind; `fixed` pins some dimensions"""
	k = rng.choice([1, 4, 5, 8, 9, 11, 16, 17, 31, 32, rng.randint(1, 32)])
	dtype = index_dtype(k) if rng.random() < 0.7 else rng.choice(list(DT))
	n = rng.choice([1, 2, 3, rng.randint(1, 8), rng.randint(4, 20)])
	sigs = [rsig(rng, k, rng.choice([3, 10, 40]), dtype) for _ in range(n)]
	c = dict(k=k, prefix=''.join(rng.choice('ACGT') for _ in range(rng.randint(0, 7))), dtype=dtype, sigs=sigs, seed=rng.randrange(10 ** 6),
	         idx=[[rng.randrange(n) for _ in range(rng.randint(1, 4))]], slices=[[rng.randrange(n), n]])
	dims = {d: rng.choice(v) if rng.random() < 0.5 else v[0] for d, v in API_DIMS.items()}
	dims.update(fixed)
	# keep a pinned dimension effective: ids forms need a wrapper, construction forms need an in-memory base,
	# reader forms need the signatures in the root group
	if 'idform' in fixed and dims['wrap'] in ('none', 'reloaded'):
		dims['wrap'] = rng.choice(['annot', 'annot_annot', 'custom_ref', 'annot_reloaded'])
	if 'base' in fixed and dims['wrap'] in ('reloaded', 'annot_reloaded', 'custom_ref'):
		dims['wrap'] = rng.choice(['none', 'annot', 'annot_annot'])
	if 'reader' in fixed and dims['writer'] == 'create_group':
		dims['writer'] = 'dump'
	comp, copts = dims.pop('comp')
	c.update(dims)
	c['compression'] = comp
	if copts == 'explicit':
		c['explicit_none'] = True
	elif copts is not None:
		c['copts'] = copts
	if c['reuse'] == 'twice':
		c['compression2'] = rng.choice(COMPRESSIONS)
	if c['reuse'] == 'overwrite_sigfile':
		c['reuse'], c['pre'] = 'overwrite', 'sigfile'
	if c['reuse'] == 'same_file' and c['rkw'].get('mode') in ('r+', 'a'):
		c['rkw'] = {}
	if c['writer'] == 'create_group':
		c['reader'] = 'class'
	# ids / metadata only exist on wrappers
	if c['wrap'] == 'none':
		c['container'] = 'array' if c['base'].startswith('array') else 'list'
		c['ids'] = c['meta'] = None
		c['idform'] = 'plain'
	else:
		c['container'] = 'annot_list'
		c['meta'] = rmeta(rng)
		ids = rids(rng, n)
		if c['idform'] != 'plain' and ids is None:
			ids = dict(kind='int', dtype=rng.choice(['i8', 'u2', 'i4']), vals=[rng.randint(0, 30000) for _ in range(n)])
		if c['idform'] == 'pylist' and ids['kind'] == 'int':
			# plain Python lists: NumPy infers int64, or uint64 when every entry is >= 2^63
			if rng.random() < 0.5:
				ids = dict(kind='int', dtype='u8', vals=[rng.randint(2 ** 63, 2 ** 64 - 1) for _ in range(n)])
			else:
				ids = dict(kind='int', dtype=None, vals=[rng.randint(-2 ** 63, 2 ** 63 - 1) for _ in range(n)])
		c['ids'] = ids
		if c['wrap'] == 'reloaded':
			# what the source file holds is what must come back; its ids are a plain dataset
			c['idform'] = 'plain'
			if ids is not None and ids['kind'] == 'int' and not ids.get('dtype'):
				ids['dtype'] = 'i8'
	if c['wrap'] in ('reloaded', 'annot_reloaded', 'custom_ref'):
		c['base'] = 'array'
	c['xidx'] = [rxspec(rng, n, t) for t in XTYPES]
	return c


def gen_api(ctx, rng):
	# every value of every dimension several times, the other dimensions drawn at random
	for dim, values in API_DIMS.items():
		for v in values:
			for _ in range(ctx.pick(3, 12)):
				ctx.count(f'stream:api-{dim}')
				yield 'api', rapi_case(rng, {dim: v})
	# the container forms again on the exhaustive shapes (empty signatures at every position)
	shapes = ([], [3], [3, 200])
	for sigs in itertools.product(shapes, repeat=3):
		base = rng.choice(API_DIMS['base'])
		wrap = rng.choice(API_DIMS['wrap'])
		c = rapi_case(rng, dict(base=base, wrap=wrap))
		n = 3
		c.update(k=4, dtype='u1', sigs=[list(s) for s in sigs], idx=[[0], [2, 0]], slices=[[0, 3]], xidx=[rxspec(rng, n, t) for t in XTYPES])
		if c.get('ids') is not None:
			c['ids']['vals'] = c['ids']['vals'][:n] + c['ids']['vals'][:1] * (n - len(c['ids']['vals']))
		ctx.count('stream:api-small-shapes')
		yield 'api', c
	for _ in range(ctx.pick(60, 1500)):
		ctx.count('stream:api-random')
		yield 'api', rapi_case(rng)


def gen_foreign2(ctx, rng):
	for content in FX_CONTENTS:
		for ch in FX_PY + FX_CLI:
			for _ in range(ctx.pick(1, 4)):
				ctx.count('stream:foreign2-' + ('python' if ch in FX_PY else 'cli'))
				yield 'foreign2', dict(content=content, channel=ch, seed=rng.randrange(10 ** 6),
				                       fname=rng.choice(['file.bin', 'sigs.gs', 'data.h5', 'genome.fasta', 'ünï 漢.gs', 'no extension']))


def rgenome(rng, prefix, k):
	"""contigs with the prefix planted a few times (so that long prefixes / large k still give k-mers), N runs, lower case"""
	contigs = []
	for _ in range(rng.choice([0, 1, 1, 2, 3])):
		parts = []
		for _ in range(rng.randint(0, 6)):
			parts.append(''.join(rng.choice('ACGTacgtN') for _ in range(rng.randint(0, 60))))
			if rng.random() < 0.7:
				parts.append(prefix if rng.random() < 0.8 else prefix.lower())
				parts.append(''.join(rng.choice('ACGT') for _ in range(rng.choice([k, k, k - 1, k + 5]))))
		contigs.append(''.join(parts))
	return contigs


def gen_cli2(ctx, rng):
	forms = [dict(input='listfile'), dict(input='listfile_ldir'), dict(kspec='default'), dict(kspec='db'), dict(cores=1), dict(cores=2),
	         dict(long=True), dict(progress=True), dict(empty=True), dict()]
	for form in forms * ctx.pick(1, 4):
		# the command line accepts k >= 5 and prefixes of >= 2 letters; smaller ones only arrive through --db-params
		db = form.get('kspec') == 'db'
		k = rng.choice(([1, 2, 4] if db else []) + [5, 8, 9, 11, 16, 17, 31, 32])
		prefix = ''.join(rng.choice('ACGT') for _ in range(rng.randint(1 if db else 2, 5)))
		if form.get('kspec') == 'default':
			k, prefix = 11, 'ATGAC'
		ng = rng.randint(1, 4)
		genomes = [rgenome(rng, prefix, k) for _ in range(ng)]
		if form.get('empty'):
			genomes[rng.randrange(ng)] = rng.choice([[], [''], ['NNNN']])
		ids = None if rng.random() < 0.5 else [f'{rng.choice(["id", "é", "漢", "G", "a b"])}{i}' for i in range(ng)]
		meta = None if rng.random() < 0.3 else dict(id=rstr(rng), name='n', version='1.0', id_attr='key', description=rstr(rng),
		                                            extra={'author': rstr(rng), 'nested': {'a': [1, None]}})
		if meta is not None and rng.random() < 0.3:
			meta = {f: v for f, v in meta.items() if rng.random() < 0.5}
		ctx.count('stream:cli-forms')
		yield 'cli', dict(k=k, prefix=prefix, genomes=genomes, ids=ids, meta=meta, **form)


# ---- generator of the size-classes stream -----------------------------------------------------------------------

SZ_CONTAINERS = (('array', 'none'), ('list', 'none'), ('array', 'annot'), ('list', 'annot'), ('array_view', 'none'), ('array_fancy', 'annot'),
                 ('array_offset', 'none'), ('list_from_array', 'annot'), ('list_readonly', 'annot_annot'), ('list_mutated', 'none'),
                 ('custom_plain', 'none'), ('custom_plain', 'annot'), ('array', 'custom_ref'), ('array', 'reloaded'), ('array', 'annot_reloaded'))
SZ_ORDERS = ('large_last', 'large_first', 'large_middle', 'several_large', 'large_after_empty', 'medium_run', 'only_large', 'no_large', 'shuffled')


def sz_sizes(rng, order, cap):
	"""signature lengths of one collection: classes empty / tiny (1..3) / small (4..600, 2^8..2^11) / medium (2^12, 2^13) /
	large (2^14..2^17), powers of two taken -1 / +0 / +1 and cut at the longest signature that exists (`cap`)"""
	def near(e):
		return min(cap, 2 ** e + rng.choice([-1, 0, 0, 1]))

	def tiny():
		return rng.choice([1, 1, 2, 3])

	def small():
		return near(rng.randint(8, 11)) if rng.random() < 0.4 else rng.randint(4, 600)

	def medium():
		return near(rng.choice([12, 13]))

	def large():
		return near(rng.choice([14, 14, 14, 15, 15, 16, 17]))

	def filler(lo, hi):
		return [rng.choice([lambda: 0, tiny, tiny, small, small, medium])() for _ in range(rng.randint(lo, hi))]

	if order == 'large_last':
		return filler(1, 5) + [large()]
	if order == 'large_first':
		return [large()] + filler(1, 5)
	if order == 'large_middle':
		return filler(1, 4) + [large()] + filler(1, 4)
	if order == 'several_large':
		out = []
		for _ in range(rng.randint(2, 3)):
			out += filler(0, 3) + [large()]
		return out + filler(0, 2)
	if order == 'large_after_empty':
		return (filler(0, 2) if rng.random() < 0.5 else []) + [0] * rng.randint(1, 3) + [large()] + filler(0, 3)
	if order == 'medium_run':
		return [medium() if rng.random() < 0.8 else tiny() for _ in range(rng.randint(3, 9))] + [large()] + filler(0, 2)
	if order == 'only_large':
		return [large() for _ in range(rng.randint(2, 3))]
	if order == 'no_large':
		return filler(6, 14)
	if order == 'shuffled':
		out = filler(3, 7) + [large() for _ in range(rng.randint(1, 2))]
		rng.shuffle(out)
		return out
	raise ValueError(order)


def rsize_case(rng, base, wrap, order):
	k = rng.choice([8, 8, 9, 11, 12, 16, 17, 31, 32])
	dtype = index_dtype(k) if rng.random() < 0.7 else rng.choice([t for t in DT if sz_cap(k, t) >= 2 ** 14])
	sizes = sz_sizes(rng, order, sz_cap(k, dtype))
	n = len(sizes)
	a = rng.randrange(n)
	comp = rng.choice([None, None, 'gzip', 'gzip', 'lzf'])
	c = dict(k=k, prefix=''.join(rng.choice('ACGT') for _ in range(rng.randint(0, 7))), dtype=dtype, sizes=sizes, order=order,
	         shape=rng.choice(SZ_SHAPES), seed=rng.randrange(10 ** 6), base=base, wrap=wrap, compression=comp,
	         idx=[[rng.randrange(-n, n) % n for _ in range(rng.randint(1, 4))]], slices=[[a, rng.randint(a + 1, n)]])
	if comp == 'gzip' and rng.random() < 0.5:
		c['copts'] = rng.choice([0, 1, 9])
	if wrap == 'none':
		c['container'] = 'array' if base.startswith('array') else 'list'
		c['ids'] = c['meta'] = None
	else:
		c['container'] = 'annot_list'
		c['meta'] = rmeta(rng)
		ids = rids(rng, n)
		if wrap == 'reloaded' and ids is not None and ids['kind'] == 'int' and not ids.get('dtype'):
			ids['dtype'] = 'i8'      # what the source file holds is what must come back; its ids are a plain dataset
		c['ids'] = ids
	return c


def gen_sizes(ctx, rng):
	for _ in range(ctx.pick(3, 20)):
		for base, wrap in SZ_CONTAINERS:
			for order in SZ_ORDERS:
				ctx.count('stream:size-classes')
				yield 'sizes', rsize_case(rng, base, wrap, order)


# ---- generator of the sequence stream ---------------------------------------------------------------------------

SEQ_IDWORDS = ['a', 'b', 'é', '漢字', 'x y', 'G1', '😀', 'id', '0', 'Ωm']
SEQ_XTYPES = ('int', 'arr', 'arr', 'arr', 'seq', 'seq', 'range', 'bool', 'slice', 'slice')


def rseq_coll(rng, n, kp=None):
	"""description of one small collection of n signatures for the sequence stream"""
	k, prefix = kp or (rng.choice([1, 4, 5, 8, 9, 11, 16, 17, 32, rng.randint(1, 32)]), ''.join(rng.choice('ACGT') for _ in range(rng.randint(0, 5))))
	dtype = index_dtype(k) if rng.random() < 0.7 else rng.choice(list(DT))
	wrap = rng.choice(SEQ_WRAPS)
	base = 'array' if wrap == 'custom_ref' else rng.choice(SEQ_BASES)
	c = dict(k=k, prefix=prefix, dtype=dtype, sigs=[rsig(rng, k, rng.choice([3, 10]), dtype) for _ in range(n)], seed=rng.randrange(10 ** 6),
	         base=base, wrap=wrap)
	if wrap == 'none':
		c.update(container='array' if base.startswith('array') else 'list', ids=None, meta=None)
		return c
	r = rng.random()
	if r < 0.15:
		ids = None
	elif r < 0.55:
		ids = dict(kind='str', vals=[rng.choice(SEQ_IDWORDS) + str(i) for i in range(n)], **{'as': rng.choice(['list', 'list', 'U', 'O'])})
	else:
		dt = rng.choice([None, 'i8', 'u8', 'i4', 'u2', 'i1'])
		ids = dict(kind='int', dtype=dt, vals=[rng.randint(0, 120) for _ in range(n)])
	c.update(container='annot_list', ids=ids, meta=rmeta(rng))
	if c['meta'] is not None and c['meta']['extra'] == {} and rng.random() < 0.7:
		c['meta_noextra'] = True
	return c


def rseq_pool(rng, ncoll=None):
	"""2..3 collections of different lengths (two of them may share their k-mer parameters, hence one KmerSpec object) and 3..4 index
	objects drawn for those lengths (so that some are out of range for the shorter collections)"""
	ncoll = ncoll or rng.choice([2, 2, 3])
	ns = rng.sample(range(1, 8), ncoll)
	colls = []
	for n in ns:
		kp = (colls[0]['k'], colls[0]['prefix']) if colls and rng.random() < 0.4 else None
		colls.append(rseq_coll(rng, n, kp))
	idxs = []
	for _ in range(rng.randint(3, 4)):
		n = rng.choice(ns)
		spec = rxspec(rng, n, rng.choice(SEQ_XTYPES))
		if spec['t'] == 'arr' and spec.get('how') == 'readonly':
			spec['how'] = 'plain'        # a writeable array is the one a write-back would show on
		idxs.append(spec)
	# one writeable platform-integer array with negative entries, valid for every collection of the pool
	lo = min(ns)
	idxs.append(dict(t='int', dt=rng.choice(['py', 'py', 'i8', 'i2']), v=rng.randrange(-lo, lo)))
	idxs.append(dict(t='arr', dt=rng.choice(['i8', 'i8', 'i4']), v=[rng.randrange(-lo, lo) for _ in range(rng.randint(2, 4))] + [-1], how='plain'))
	wrapped = [i for i, x in enumerate(colls) if x['wrap'] != 'none']
	if len(wrapped) >= 2 and rng.random() < 0.3:
		colls[wrapped[1]]['meta_from'] = wrapped[0]
	return colls, idxs


def seq_dump(rng, c, p, **kw):
	comp = rng.choice([None, None, 'gzip', 'lzf'])
	st = dict(op='dump', c=c, p=p, comp=comp, writer=rng.choice(SEQ_WRITERS), **kw)
	if comp == 'gzip' and rng.random() < 0.4:
		st['copts'] = rng.choice([0, 1, 9])
	if rng.random() < 0.3:
		st['twice'] = True
	if rng.random() < 0.3:
		st['check'] = True
	return st


def seq_load(rng, p, r, **kw):
	st = dict(op='load', p=p, r=r, reader=rng.choice(SEQ_READERS), **kw)
	if rng.random() < 0.3:
		st['rkw'] = {'mode': 'r'}
	if rng.random() < 0.25:
		st['twice'] = True
	return st


def seq_foreign(rng, p, content=None):
	return dict(op='foreign', p=p, content=content or rng.choice(SEQ_FOREIGN), seed=rng.randrange(10 ** 6))


def seq_mutate(rng, c, how=None):
	how = how or rng.choice(['meta_field', 'extra_key', 'ids_set', 'sig_flip', 'sig_flip', 'sig_replace'])
	st = dict(op='mutate', c=c, how=how)
	if how == 'meta_field':
		st.update(f=rng.choice(META_FIELDS), v=rng.choice([None, '', 'changed', 'é 漢', rstr(rng)]))
	elif how == 'extra_key':
		st.update(key=rng.choice(['added', 'é', 'revision']), v=rng.choice([1, None, 'x', [1, {'a': None}], {'n': [1.5, 'é']}]))
	elif how == 'ids_set':
		st.update(j=rng.randrange(8), v=[rng.randint(0, 120), rng.choice(SEQ_IDWORDS) + '-new'])
	else:
		st.update(j=rng.randrange(8))
		if how == 'sig_replace':
			st['vals'] = [rng.randrange(4 ** 16) for _ in range(rng.randint(0, 6))]
	return st


def seq_fail(rng, c, p, colls):
	"""a write of collection c that fails part-way; a source that raises does so after at least one non-empty signature was read, if there is one"""
	sigs = colls[c]['sigs']
	late = [i for i in range(1, len(sigs)) if any(sigs[:i])]
	return dict(op='dump_fail', c=c, p=p, how=rng.choice(SEQ_FAILS + ('getitem_raises',)), at=rng.choice(late) if late and rng.random() < 0.8 else rng.randrange(8),
	            writer=rng.choice(SEQ_WRITERS), comp=rng.choice([None, 'gzip']))


def seq_genomes(rng, prefix, k):
	return [[''.join(rng.choice('ACGT') for _ in range(rng.randint(0, 30))) + prefix + ''.join(rng.choice('ACGT') for _ in range(k + rng.randint(0, 4)))
	         for _ in range(rng.randint(1, 2))] for _ in range(rng.randint(1, 3))]


def seq_template(rng, name, nidx, colls):
	"""the scripts that put each dimension of the audit into every run (collections 0 and 1 differ in length)"""
	A, B = rng.sample([0, 1], 2)
	j, j2 = rng.randrange(nidx), nidx - 1
	if name == 'path-reuse':
		# one path holds one collection, then another (other length / parameters / integer type): cache keyed by path
		return [seq_dump(rng, A, 0), seq_load(rng, 0, 0), dict(op='index', r=0, j=j), seq_dump(rng, B, 0), seq_load(rng, 0, 0),
		        dict(op='index', r=0, j=j), dict(op='cli_info', p=0, mode=rng.choice(['i', 'j']))]
	if name == 'foreign-then-real':
		return [seq_foreign(rng, 0), seq_load(rng, 0, 0), seq_dump(rng, A, 0), seq_load(rng, 0, 0), seq_foreign(rng, 0), seq_load(rng, 0, 1),
		        dict(op='cli_info', p=0, mode='i')]
	if name == 'real-then-foreign':
		return [seq_dump(rng, A, 0), seq_load(rng, 0, 0), seq_foreign(rng, 0), seq_load(rng, 0, 0), dict(op='cli_info', p=0, mode='j'),
		        seq_dump(rng, B, 0), seq_load(rng, 0, 1), dict(op='cli_info', p=0, mode='i')]
	if name == 'index-reuse':
		# the same index objects against two open files of different length, in both orders
		return [seq_dump(rng, 0, 0), seq_dump(rng, 1, 1), seq_load(rng, 0, A), seq_load(rng, 1, B), dict(op='index', r=0, j=j2), dict(op='index', r=1, j=j2),
		        dict(op='index', r=0, j=j), dict(op='index', r=1, j=j), dict(op='index', r=0, j=j2), dict(op='observe', r=1)]
	if name == 'failed-write':
		# a write that fails part-way, then the same objects written again (same path or the other one)
		return [seq_dump(rng, A, 0), seq_fail(rng, A, rng.choice([0, 1]), colls), seq_load(rng, 0, 0), seq_dump(rng, A, rng.choice([0, 1])),
		        seq_fail(rng, B, 1, colls), seq_dump(rng, B, 1), seq_load(rng, 1, 1)]
	if name == 'mutate-between':
		# the owner changes the collection between two writes (signatures, ids, metadata fields, a key of `extra`)
		return [seq_dump(rng, A, 0), seq_mutate(rng, A), seq_mutate(rng, A, rng.choice(['extra_key', 'meta_field', 'sig_flip'])), seq_dump(rng, A, rng.choice([0, 1])),
		        seq_load(rng, 0, 0), seq_mutate(rng, A, 'extra_key'), seq_dump(rng, A, 1), seq_load(rng, 1, 1)]
	if name == 'held-results':
		# results of earlier calls stay what they were; overwriting one of them does not change what the file gives
		j3 = nidx - 2      # the single-integer index of the pool
		return [seq_dump(rng, A, 0), seq_load(rng, 0, 0), dict(op='index', r=0, j=j), dict(op='index', r=0, j=j2), dict(op='scribble', h=rng.randrange(8)),
		        dict(op='index', r=0, j=j3), dict(op='scribble', h=-1), dict(op='index', r=0, j=j3), dict(op='index', r=0, j=j2), dict(op='scribble', h=-1),
		        dict(op='index', r=0, j=j), dict(op='observe', r=0), dict(op='scribble_reader', r=0), seq_load(rng, 0, 1)]
	if name == 'cli-interleaved':
		return [seq_dump(rng, 0, 0), seq_dump(rng, 1, 1), dict(op='cli_info', p=A, mode='i'), dict(op='cli_info', p=B, mode='i'), dict(op='cli_info', p=A, mode='j'),
		        seq_foreign(rng, B), dict(op='cli_info', p=B, mode='i'), dict(op='cli_info', p=A, mode=rng.choice(['i', 'plain', 'jp'])), seq_load(rng, A, 0)]
	if name == 'cli-create':
		k1, k2 = rng.sample([5, 6, 8, 9], 2)
		p1, p2 = (''.join(rng.choice('ACGT') for _ in range(rng.randint(2, 3))) for _ in range(2))
		return [dict(op='cli_create', p=0, k=k1, prefix=p1, genomes=seq_genomes(rng, p1, k1)), seq_load(rng, 0, 0), seq_dump(rng, A, 1), seq_load(rng, 1, 1),
		        dict(op='cli_create', p=1, k=k2, prefix=p2, genomes=seq_genomes(rng, p2, k2)), dict(op='index', r=0, j=j2), dict(op='cli_info', p=1, mode='i')]
	if name == 'redump':
		# an open file is itself written to another path (with another filter) while it stays in use
		return [seq_dump(rng, A, 0), seq_load(rng, 0, 0), dict(op='redump', r=0, p=1, comp=rng.choice(COMPRESSIONS), writer=rng.choice(SEQ_WRITERS)), seq_load(rng, 1, 1),
		        dict(op='index', r=0, j=j2), dict(op='index', r=1, j=j2), seq_dump(rng, B, 1), dict(op='observe', r=0), seq_load(rng, 1, 1), dict(op='index', r=1, j=j2)]
	if name == 'thread':
		return [seq_dump(rng, A, 0), seq_load(rng, 0, 0), dict(op='thread', r=0), dict(op='index', r=0, j=j), seq_dump(rng, B, 1), seq_load(rng, 1, 1),
		        dict(op='thread', r=1), dict(op='thread', r=0)]
	raise ValueError(name)


SEQ_TEMPLATES = ('path-reuse', 'foreign-then-real', 'real-then-foreign', 'index-reuse', 'failed-write', 'mutate-between', 'held-results',
                 'cli-interleaved', 'redump', 'thread')


def rseq_script(rng, colls, nidx):
	"""a random script: a write first, then 2..6 further steps that are applicable given what the earlier ones did"""
	ncoll = len(colls)
	files = [None, None]
	readers = {}
	nheld = 0
	steps = []

	def put(st):
		nonlocal nheld
		steps.append(st)
		op = st['op']
		if op in ('dump', 'redump', 'dump_fail', 'foreign'):
			files[st['p']] = 'coll' if op in ('dump', 'redump') else 'foreign'
			for r in [r for r, p in readers.items() if p == st['p']]:
				del readers[r]
		elif op == 'load':
			readers.pop(st['r'], None)
			if files[st['p']] == 'coll':
				readers[st['r']] = st['p']
		elif op == 'index':
			nheld += 1
		elif op == 'scribble_reader':
			readers.pop(st['r'], None)

	put(seq_dump(rng, rng.randrange(ncoll), rng.randrange(2)))
	for _ in range(rng.randint(2, 6)):
		have = [p for p in (0, 1) if files[p]]
		ops = [('dump', 4), ('foreign', 1.5), ('load', 4), ('mutate', 1.5), ('dump_fail', 1), ('cli_info', 1)]
		if readers:
			ops += [('index', 5), ('observe', 0.7), ('scribble_reader', 0.4), ('thread', 0.3), ('redump', 0.8)]
		if nheld:
			ops += [('scribble', 1.2)]
		op = rng.choices([o for o, _ in ops], [w for _, w in ops])[0]
		if op == 'dump':
			put(seq_dump(rng, rng.randrange(ncoll), rng.randrange(2)))
		elif op == 'foreign':
			put(seq_foreign(rng, rng.randrange(2)))
		elif op == 'load':
			put(seq_load(rng, rng.choice(have), rng.randrange(3)))
		elif op == 'mutate':
			put(seq_mutate(rng, rng.randrange(ncoll)))
		elif op == 'dump_fail':
			put(seq_fail(rng, rng.randrange(ncoll), rng.randrange(2), colls))
		elif op == 'cli_info':
			put(dict(op='cli_info', p=rng.choice(have), mode=rng.choice(['i', 'i', 'j', 'jp', 'plain'])))
		elif op == 'redump':
			r = rng.choice(sorted(readers))
			put(dict(op='redump', r=r, p=1 - readers[r], comp=rng.choice(COMPRESSIONS), writer=rng.choice(SEQ_WRITERS)))
		elif op == 'scribble':
			put(dict(op='scribble', h=rng.randrange(8)))
		else:
			put(dict(op=op, r=rng.choice(sorted(readers)), **({'j': rng.randrange(nidx)} if op == 'index' else {})))
	return steps


def gen_seq(ctx, rng):
	for name in SEQ_TEMPLATES:
		for _ in range(ctx.pick(8, 40)):
			colls, idxs = rseq_pool(rng)
			ctx.count('stream:seq-' + name)
			yield 'seq', dict(colls=colls, idxs=idxs, steps=seq_template(rng, name, len(idxs), colls), final_reader=rng.choice(['load', 'base', 'hdf5']))
	for _ in range(ctx.pick(2, 10)):
		# `signatures create` starts worker processes (fork) while readers are open in this process
		colls, idxs = rseq_pool(rng)
		ctx.count('stream:seq-cli-create')
		yield 'seq', dict(colls=colls, idxs=idxs, steps=seq_template(rng, 'cli-create', len(idxs), colls))
	for _ in range(ctx.pick(110, 1500)):
		colls, idxs = rseq_pool(rng)
		ctx.count('stream:seq-random')
		yield 'seq', dict(colls=colls, idxs=idxs, steps=rseq_script(rng, colls, len(idxs)), final_reader=rng.choice(['load', 'base', 'hdf5']),
		                  share_ks=rng.random() < 0.8)
